------------------------------ MODULE Gen_Markov ------------------------------
(* TLC as case generator for C18: the parameter grid of every nucleotide model (kappa, kappa1/kappa2, six GTR rates,   *)
(* base frequencies from a set of simplex points away from the symmetric one) and the seven protein matrices with      *)
(* model or user frequencies.  Consecutive cases of one model re-initialise the same object in the driver.             *)
EXTENDS Integers, Sequences, Json, TLC
CONSTANT Scope
VARIABLES c
\* (the open simplex has points next to its faces: one frequency of 2e-4, 5e-4 or 1e-6)
Pis == {<<"0.1", "0.2", "0.3", "0.4">>, <<"0.4", "0.1", "0.1", "0.4">>, <<"0.25", "0.25", "0.25", "0.25">>, <<"0.05", "0.45", "0.35", "0.15">>,
        <<"0.0002", "0.3", "0.3", "0.3998">>, <<"0.35", "0.25", "0.3995", "0.0005">>,
        \* ties among the frequencies (three equal ones and another, two pairs): rate matrices that are partly symmetric
        <<"0.3", "0.3", "0.3", "0.1">>, <<"0.2", "0.2", "0.2", "0.4">>, <<"0.4", "0.2", "0.2", "0.2">>, <<"0.1", "0.1", "0.4", "0.4">>}
       \cup (IF Scope = "full" THEN {<<"0.3", "0.000001", "0.399999", "0.3">>, <<"0.97", "0.01", "0.01", "0.01">>} ELSE {})
\* (large transition / transversion ratios make the slowest eigenvalue small: P(t) is far from stationary at t = 30 .. 100)
Ks == IF Scope = "full" THEN {"0.2", "1", "2", "3.5", "10", "20", "50"} ELSE {"0.5", "1", "4", "25"}
Rs == IF Scope = "full" THEN {"0.2", "1", "3.5"} ELSE {"0.5", "2"}
NoPi == <<>>
UserPi == <<"0.02", "0.08", "0.05", "0.05", "0.03", "0.04", "0.06", "0.07", "0.03", "0.05", "0.09", "0.06", "0.02", "0.04", "0.05", "0.07", "0.06", "0.01", "0.03", "0.09">>
Prot == {"dayhoff", "jtt", "mtrev", "lg", "wag", "hivb", "ab"}
Cases ==
  {[model |-> "jc", p |-> <<>>, pi |-> NoPi]}
  \cup {[model |-> "k2p", p |-> <<k>>, pi |-> NoPi] : k \in Ks}
  \* a model object straight from its constructor (documented default: kappa = 1), never initialised
  \cup {[model |-> "k2p", p |-> <<"1">>, pi |-> NoPi, fresh |-> TRUE]}
  \cup {[model |-> "f81", p |-> <<>>, pi |-> pi] : pi \in Pis}
  \cup {[model |-> "f84", p |-> <<k>>, pi |-> pi] : k \in Ks, pi \in Pis}
  \cup {[model |-> "tn93", p |-> <<k1, k2>>, pi |-> pi] : k1 \in Ks, k2 \in Ks, pi \in Pis}
  \cup {[model |-> "gtr", p |-> <<a, b, "1", d, "2", "1">>, pi |-> pi] : a \in Rs, b \in Rs, d \in Rs, pi \in Pis}
  \cup {[model |-> m, p |-> <<>>, pi |-> u] : m \in Prot, u \in {NoPi, UserPi}}
Init == c \in Cases
Next == UNCHANGED c
Emit == PrintT(ToJson(c))
=============================================================================
