------------------------------- MODULE RunHistory -------------------------------
(***************************************************************************)
(* Reproducibility of command-line runs (property C11).  A run has a KEY -   *)
(* the command, its flags, the seed when the command draws random numbers,   *)
(* the digest of its input - and an OUTPUT (digest of the bytes written to   *)
(* the standard output and to every output file).  The number of threads,    *)
(* the repetition number and GOMAXPROCS are deliberately NOT part of the     *)
(* key; two pipelines the documentation declares equivalent (seqboot then    *)
(* distance per replicate vs. distboot; a reformat cycle vs. its first file) *)
(* map to the same key.  The history machine remembers the first output of   *)
(* every key; a run whose key is known must reproduce that output.           *)
(***************************************************************************)
EXTENDS Integers, Sequences, FiniteSets, TLC
VARIABLES seen           \* a function from keys to [out, at]
Known(k) == k \in DOMAIN seen
Run(k, out, at) == IF Known(k) THEN UNCHANGED seen ELSE seen' = seen @@ (k :> [out |-> out, at |-> at])
Reproduces(k, out) == Known(k) => seen[k].out = out
=============================================================================
