------------------------------ MODULE Trace_Conc ------------------------------
(***************************************************************************)
(* Validation of free-running executions of dna.DistMatrix against the      *)
(* protocol specification.  Each run is a set of per-goroutine event logs    *)
(* (no global order was recorded: the hooks write to unsynchronised          *)
(* per-goroutine buffers).  TLC searches for an interleaving of the logs     *)
(* that is a behaviour of DistMatrixConc: every event must be the enabled    *)
(* action of its process, with its logged arguments (no silent step).        *)
(* Runs are validated one after the other; the run    *)
(* index reached is printed, so a run that no interleaving explains is       *)
(* identified.                                                               *)
(***************************************************************************)
EXTENDS DistMatrixConc, Json, IOUtils, TLC
Runs == ndJsonDeserialize(IOEnv.TRACE)
VARIABLES t, pos
tvars == <<t, pos>>
Logs == Runs[t].logs               \* sequence of [role, w, ev]; ev = sequence of [pt, a, b]
Consumed == \A g \in 1..Len(Logs) : pos[g] = Len(Logs[g].ev) + 1
InitPos(k) == [g \in 1..Len(Runs[k].logs) |-> 1]
TInit == t = 1 /\ pos = InitPos(1) /\ InitWith(Runs[1].cfg)
Event(g) ==
  LET e == Logs[g].ev[pos[g]]  w == Logs[g].w IN
  CASE e.pt = "dm.p.start" -> dm_p_start
    [] e.pt = "dm.p.send"  -> dm_p_send(e.a)
    [] e.pt = "dm.p.err"   -> dm_p_err(e.a)
    [] e.pt = "dm.p.close" -> dm_p_close
    [] e.pt = "dm.w.start" -> dm_w_start(w)
    [] e.pt = "dm.w.recv"  -> dm_w_recv(w, e.a)
    [] e.pt = "dm.w.dist"  -> dm_w_dist(w) /\ cur[w] = e.a
    [] e.pt = "dm.w.err"   -> dm_w_err(w) /\ cur[w] = e.a
    [] e.pt = "dm.w.lock"  -> dm_w_lock(w) /\ cur[w] = e.a
    \* the release: after the running-maximum section it is the unlock action; after a recorded error the model has
    \* already released (lock .. unlock is one step there) and the event is a stuttering step
    [] e.pt = "dm.w.unlock" -> IF wpc[w] = "locked" THEN dm_w_unlock(w) /\ cur[w] = e.a ELSE (wpc[w] = "idle" /\ UNCHANGED vars)
    [] e.pt = "dm.w.done"  -> dm_w_done(w)
    [] e.pt = "dm.m.wait"  -> dm_m_wait
    [] e.pt = "dm.m.ret"   -> dm_m_ret(e.a)
    [] OTHER -> FALSE
Step == \E g \in 1..Len(Logs) : pos[g] <= Len(Logs[g].ev) /\ Event(g) /\ pos' = [pos EXCEPT ![g] = @ + 1] /\ t' = t
\* the whole run is explained and the call returned what the caller observed: go to the next run
NextRun ==
  /\ Consumed /\ mpc = "done" /\ ret = Runs[t].ret
  /\ PrintT(<<"ACCEPTED", t>>)
  /\ t' = t + 1
  /\ IF t + 1 <= Len(Runs)
     THEN LET c == Runs[t + 1].cfg IN
          /\ pos' = InitPos(t + 1) /\ cfg' = c
          /\ ppc' = "new" /\ nxt' = 1 /\ chan' = <<>> /\ closed' = FALSE
          /\ wpc' = [w \in 1..c.nw |-> "new"] /\ cur' = [w \in 1..c.nw |-> 0] /\ nd' = 0 /\ mux' = 0
          /\ perr' = FALSE /\ werr' = FALSE /\ cells' = [p \in 1..c.np |-> 0] /\ wgc' = c.nw
          /\ mpc' = "waiting" /\ ret' = "none"
     ELSE UNCHANGED <<pos, cfg, ppc, nxt, chan, closed, wpc, cur, nd, mux, perr, werr, cells, wgc, mpc, ret>>
TNext == t <= Len(Runs) /\ (Step \/ NextRun)
TSpec == TInit /\ [][TNext]_<<vars, tvars>>
\* the invariants of the protocol are evaluated on every state of every explaining interleaving
NotAllAccepted == t <= Len(Runs)
=============================================================================
