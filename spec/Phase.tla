---------------------------------- MODULE Phase ----------------------------------
(***************************************************************************)
(* Phasing and ORF search (property C16, functional half), relational:       *)
(* exactly what the property states about each result.                       *)
(***************************************************************************)
EXTENDS Residues, F64
IsStop(a, b, c) == <<a, b, c>> \in {<<chT, chA, chA>>, <<chT, chG, chA>>, <<chT, chA, chG>>}
\* every ATG .. first in-frame stop of a sequence (upper-case A C G T): a set of <<start (1-based), end (inclusive)>>
ORFs(s) ==
  LET starts == {i \in 1..(Len(s) - 5) : s[i] = chA /\ s[i + 1] = chT /\ s[i + 2] = chG}
      stopsOf(i) == {k \in 1..((Len(s) - i - 2) \div 3) : IsStop(s[i + 3 * k], s[i + 3 * k + 1], s[i + 3 * k + 2])}
  IN {<<i, i + 3 * Min(stopsOf(i)) + 2>> : i \in {j \in starts : stopsOf(j) # {}}}
Strands(s, reverse) == IF reverse THEN {s, Strict(RevCompS(s))} ELSE {s}
MaxORFLen(seqs, reverse) ==
  LET lens == UNION {{p[2] - p[1] + 1 : p \in ORFs(x)} : x \in UNION {Strands(seqs[k], reverse) : k \in 1..Len(seqs)}}
  IN IF lens = {} THEN 0 ELSE Max(lens)
\* the reference found when none is given: an ORF of some sequence / strand, and none is longer
LongestORFOK(seqs, reverse, orf) ==
  /\ Len(orf) = MaxORFLen(seqs, reverse)
  /\ \E k \in 1..Len(seqs) : \E x \in Strands(seqs[k], reverse) : \E p \in ORFs(x) : SubSeq(x, p[1], p[2]) = orf
Occurrences(s, sub) == {i \in 1..(Len(s) - Len(sub) + 1) : SubSeq(s, i, i + Len(sub) - 1) = sub}
\* one result r = [pos, nt, codon, aa] for the input s under options o = [translate, reverse, cutend, code]
SubstringOK(s, o, r) == \E x \in Strands(s, o.reverse) :
                          /\ r.pos >= 0 /\ r.pos + Len(r.nt) <= Len(x) /\ r.nt = SubSeq(x, r.pos + 1, r.pos + Len(r.nt))
                          /\ (~o.cutend => r.pos + Len(r.nt) = Len(x))
InFrameOK(o, r) == \E k \in (IF o.translate THEN {0} ELSE {0, 1, 2}) : k <= Len(r.nt) /\ r.codon = SubSeq(r.nt, k + 1, Len(r.nt))
TranslationOK(o, r) == Len(r.codon) >= 3 => r.aa = TranslateS(r.codon, 0, o.code)
\* a read that holds a reference verbatim exactly once (over all references and the strands searched) is cut exactly at
\* that occurrence, is not discarded, and its codon sequence starts there (frame 0)
VerbatimHits(s, o, refs) == UNION {{<<x, i>> : i \in Occurrences(x, refs[k])} : x \in Strands(s, o.reverse), k \in 1..Len(refs)}
VerbatimOK(s, o, refs, r) ==
  LET hits == VerbatimHits(s, o, refs) IN
  Cardinality(hits) = 1 =>
     \E h \in hits : /\ ~r.removed /\ r.pos + 1 = h[2]
                     /\ r.nt = SubSeq(h[1], h[2], h[2] + Len(r.nt) - 1)
                     /\ r.codon = r.nt
=============================================================================
