------------------------------- MODULE Bytes -------------------------------
(***************************************************************************)
(* Shared vocabulary.  Residues and name characters are byte codes 0..127  *)
(* (TLC strings are atomic, so text is always Seq(Byte)).                  *)
(***************************************************************************)
EXTENDS Integers, Sequences, FiniteSets, SequencesExt, FiniteSetsExt, Functions

GAP   == 45   \* '-'
POINT == 46   \* '.'
STAR  == 42   \* '*'
QMARK == 63   \* '?'
UNDERSCORE == 95
ZERO  == 48

\* alphabet codes (align/const.go; part of the public API)
AMINOACIDS == 0
NUCLEOTIDS == 1
BOTH       == 2
UNKNOWN    == 3

chA == 65 chB == 66 chC == 67 chD == 68 chE == 69 chF == 70 chG == 71 chH == 72
chI == 73 chJ == 74 chK == 75 chL == 76 chM == 77 chN == 78 chO == 79 chP == 80
chQ == 81 chR == 82 chS == 83 chT == 84 chU == 85 chV == 86 chW == 87 chX == 88
chY == 89 chZ == 90

IsUpperL(c) == c >= 65 /\ c <= 90
IsLowerL(c) == c >= 97 /\ c <= 122
Up(c) == IF IsLowerL(c) THEN c - 32 ELSE c
Lo(c) == IF IsUpperL(c) THEN c + 32 ELSE c
SameCase(model, c) == IF IsLowerL(model) THEN Lo(c) ELSE Up(c)

MapS(f(_), s)   == [i \in 1..Len(s) |-> f(s[i])]
UpS(s)          == [i \in 1..Len(s) |-> Up(s[i])]
LoS(s)          == [i \in 1..Len(s) |-> Lo(s[i])]
Rev(s)          == [i \in 1..Len(s) |-> s[Len(s) + 1 - i]]
Idx(s)          == 1..Len(s)
Filter(s, P(_)) == SelectSeq(s, P)
Count(s, P(_))  == Cardinality({i \in 1..Len(s) : P(s[i])})
CountIdx(n, P(_)) == Cardinality({i \in 1..n : P(i)})
Member(s, e)    == \E i \in 1..Len(s) : s[i] = e
FirstIdx(s, P(_)) == IF \E i \in 1..Len(s) : P(s[i])
                     THEN CHOOSE i \in 1..Len(s) : P(s[i]) /\ \A j \in 1..(i-1) : ~P(s[j])
                     ELSE 0
Repeat(c, n)    == [i \in 1..n |-> c]
Gaps(n)         == Repeat(GAP, n)
Pick(s, idxs)   == [k \in 1..Len(idxs) |-> s[idxs[k]]]   \* idxs is a sequence of 1-based indices
NoDup(s)        == \A i, j \in 1..Len(s) : s[i] = s[j] => i = j
SumSeq(s)       == FoldLeft(LAMBDA acc, x : acc + x, 0, s)
Sorted(s)       == \A i \in 1..(Len(s)-1) : s[i] <= s[i+1]
SeqOfSet(S)     == SetToSortSeq(S, LAMBDA a, b : a < b)   \* ascending sequence of a set of integers
BagOf(s)        == [x \in Range(s) |-> Cardinality({i \in 1..Len(s) : s[i] = x})]  \* multiset of a sequence

\* byte-wise lexicographic order on sequences (what Go's string comparison does)
RECURSIVE LexLess(_, _)
LexLess(a, b) == IF Len(b) = 0 THEN FALSE
                 ELSE IF Len(a) = 0 THEN TRUE
                 ELSE IF a[1] < b[1] THEN TRUE
                 ELSE IF a[1] > b[1] THEN FALSE
                 ELSE LexLess(Tail(a), Tail(b))
LexLeq(a, b) == a = b \/ LexLess(a, b)

\* Go strings.Replace(s, old, new, -1) for non-empty old: leftmost non-overlapping occurrences
ReplaceAllLit(s, old, new) ==
  LET m == Len(old)
      step(acc, i) ==
        IF acc.skip > 0 THEN [acc EXCEPT !.skip = @ - 1]
        ELSE IF i + m - 1 <= Len(s) /\ SubSeq(s, i, i + m - 1) = old
             THEN [out |-> acc.out \o new, skip |-> m - 1]
             ELSE [out |-> Append(acc.out, s[i]), skip |-> 0]
  IN IF m = 0 THEN s
     ELSE FoldLeft(step, [out |-> <<>>, skip |-> 0], [i \in 1..Len(s) |-> i]).out

\* decimal digits of a natural number, zero-padded on the left to `width`
RECURSIVE Digits(_)
Digits(n) == IF n < 10 THEN <<ZERO + n>> ELSE Append(Digits(n \div 10), ZERO + (n % 10))
PadLeft(s, width, c) == IF Len(s) >= width THEN s ELSE Repeat(c, width - Len(s)) \o s
DecPad(n, width) == PadLeft(Digits(n), width, ZERO)
\* the decimal text of a natural number, and back
DecOf(n) == Digits(n)
IsDec(s) == Len(s) > 0 /\ \A i \in 1..Len(s) : s[i] >= ZERO /\ s[i] <= ZERO + 9
DecVal(s) == FoldLeft(LAMBDA acc, c : acc * 10 + (c - ZERO), 0, s)

=============================================================================
