------------------------------ MODULE Residues ------------------------------
(***************************************************************************)
(* Residue alphabets: IUPAC nucleotide sets, complement (derived from the  *)
(* sets, not tabulated), alphabet detection, genetic codes (from the NCBI  *)
(* strings in GeneticCodeTables).                                          *)
(***************************************************************************)
EXTENDS Bytes, GeneticCodeTables

Bases == {chA, chC, chG, chT}
IupacLetters == {chA, chC, chG, chT, chR, chY, chS, chW, chK, chM, chB, chD, chH, chV, chN}

\* base set of an upper-case IUPAC nucleotide code
IupacSet(c) ==
  CASE c = chA -> {chA} [] c = chC -> {chC} [] c = chG -> {chG} [] c = chT -> {chT}
    [] c = chR -> {chA, chG} [] c = chY -> {chC, chT} [] c = chS -> {chG, chC}
    [] c = chW -> {chA, chT} [] c = chK -> {chG, chT} [] c = chM -> {chA, chC}
    [] c = chB -> {chC, chG, chT} [] c = chD -> {chA, chG, chT}
    [] c = chH -> {chA, chC, chT} [] c = chV -> {chA, chC, chG}
    [] c = chN -> {chA, chC, chG, chT}
    [] OTHER -> {}
IsIupacNt(c) == Up(c) \in IupacLetters
CodeOfSet(S) == CHOOSE c \in IupacLetters : IupacSet(c) = S
BaseComp(b) == CASE b = chA -> chT [] b = chT -> chA [] b = chC -> chG [] b = chG -> chC

\* Complement of a residue: the IUPAC code of the complemented base set, same case;
\* '-', '.', '*' are fixed; U/u complements to A/a (and is therefore not an involution).
Complementable(c) == c \in {GAP, POINT, STAR} \/ Up(c) = chU \/ IsIupacNt(c)
Comp(c) == IF c \in {GAP, POINT, STAR} THEN c
           ELSE IF Up(c) = chU THEN SameCase(c, chA)
           ELSE SameCase(c, CodeOfSet({BaseComp(b) : b \in IupacSet(Up(c))}))
CompS(s)    == [i \in 1..Len(s) |-> Comp(s[i])]
RevCompS(s) == Rev(CompS(s))
ComplementableS(s) == \A i \in 1..Len(s) : Complementable(s[i])

\* ---- alphabet detection (Appendix A of DESIGN.md) -----------------------
BothLetters == {chA, chC, chB, chR, chG, QMARK, GAP, POINT, STAR, chD, chK, chS, chH, chM, chN, chV, chX, chT, chW, chY}
NtOnlyLetters == {chU, chO}
AaOnlyLetters == {chQ, chE, chI, chL, chF, chP, chZ}
CouldBeNt(c) == Up(c) \in BothLetters \cup NtOnlyLetters
CouldBeAa(c) == Up(c) \in BothLetters \cup AaOnlyLetters
DetectSeqs(seqs) ==   \* seqs: a sequence of residue sequences
  LET isnt == \A r \in 1..Len(seqs) : \A i \in 1..Len(seqs[r]) : CouldBeNt(seqs[r][i])
      isaa == \A r \in 1..Len(seqs) : \A i \in 1..Len(seqs[r]) : CouldBeAa(seqs[r][i])
  IN IF isnt THEN (IF isaa THEN BOTH ELSE NUCLEOTIDS) ELSE (IF isaa THEN AMINOACIDS ELSE UNKNOWN)
AutoAlpha(d) == IF d \in {BOTH, NUCLEOTIDS} THEN NUCLEOTIDS ELSE IF d = AMINOACIDS THEN AMINOACIDS ELSE UNKNOWN

\* ---- genetic codes -------------------------------------------------------
BaseIdx(b) == CASE b = chT -> 0 [] b = chC -> 1 [] b = chA -> 2 [] b = chG -> 3
CodonAA(b1, b2, b3, code) == NCBITable[code + 1][16 * BaseIdx(b1) + 4 * BaseIdx(b2) + BaseIdx(b3) + 1]
ValidCode(code) == code \in {0, 1, 2}
FoldNt(c) == IF Up(c) = chU THEN chT ELSE Up(c)
\* The amino acid of a codon: case folded, U->T; full-gap codon -> gap; IUPAC-ambiguous codon ->
\* the amino acid shared by all expansions, X otherwise; any other codon -> X.
TranslateCodon(c1, c2, c3, code) ==
  LET a == FoldNt(c1)  b == FoldNt(c2)  c == FoldNt(c3) IN
  IF a = GAP /\ b = GAP /\ c = GAP THEN GAP
  ELSE IF ~(a \in IupacLetters /\ b \in IupacLetters /\ c \in IupacLetters) THEN chX
  ELSE LET aas == {CodonAA(x, y, z, code) : x \in IupacSet(a), y \in IupacSet(b), z \in IupacSet(c)}
       IN IF Cardinality(aas) = 1 THEN CHOOSE x \in aas : TRUE ELSE chX
NtCompatibleS(s) == \A i \in 1..Len(s) : CouldBeNt(s[i])
\* translation of one sequence in one frame: floor((L-frame)/3) residues
TranslateLen(L, frame) == IF L - frame < 0 THEN 0 ELSE (L - frame) \div 3
TranslateS(s, frame, code) ==
  [k \in 1..TranslateLen(Len(s), frame) |-> TranslateCodon(s[frame + 3*k - 2], s[frame + 3*k - 1], s[frame + 3*k], code)]
TranslateErr(s, frame) == ~NtCompatibleS(s) \/ Len(s) < 3 + frame
=============================================================================
