-------------------------------- MODULE MC_Clean --------------------------------
(***************************************************************************)
(* Design-level lemmas behind C12, C13 and C15, checked exhaustively on the  *)
(* specification for every alignment of Rows x Cols over {A, a, N, -}:       *)
(* cleaning partitions the columns and equals the selection of the kept      *)
(* ones; 'ends' removes a subset of the plain mode, made of a prefix and a   *)
(* suffix; de-duplication is idempotent, keeps first occurrences and its     *)
(* groups partition the names; masking leaves everything outside the window *)
(* untouched.                                                               *)
(***************************************************************************)
EXTENDS Goalign
CONSTANTS Rows, Cols
VARIABLE al
R == {65, 97, 78, 45}
Names == <<<<97>>, <<98>>, <<99>>>>
Mk(ss) == [k |-> "align", al |-> NUCLEOTIDS, pol |-> 0, len |-> Cols, rows |-> [i \in 1..Rows |-> [n |-> Names[i], s |-> ss[i]]]]
Init == al \in {Mk(ss) : ss \in [1..Rows -> [1..Cols -> R]]}
Next == UNCHANGED al
W == Width(al)
Cut == {<<0, 1>>, <<1, 2>>, <<1, 1>>}
CleanPartition == \A c \in Cut : \A e \in {TRUE, FALSE} : \A ig \in {TRUE, FALSE} :
  LET QS == CharSitesQ(al, <<45>>, c[1], c[2], FALSE, ig, FALSE, FALSE)
      r == CleanSitesResult(al, QS, e)
  IN /\ Range(r.kept) \cap Range(r.rm) = {} /\ Range(r.kept) \cup Range(r.rm) = 0..(W - 1)
     /\ Sorted(r.kept) /\ Sorted(r.rm)
     /\ r.o.rows = SelectSitesOp(al, r.kept).new[1].rows
     /\ Range(r.rm) \subseteq {i - 1 : i \in QS}                                   \* only qualifying sites are removed
     /\ (e => \A i \in Range(r.rm) : i < r.first \/ i >= W - r.last)             \* ends: a prefix and a suffix
     /\ (~e => Range(r.rm) = {i - 1 : i \in QS})
EndsMaximal == \A c \in Cut :
  LET QS == CharSitesQ(al, <<45>>, c[1], c[2], FALSE, FALSE, FALSE, FALSE)  r == CleanSitesResult(al, QS, TRUE) IN
  /\ \A i \in 1..r.first : i \in QS
  /\ (r.first < W => (r.first + 1) \notin QS)
  /\ \A i \in (W - r.last + 1)..W : i \in QS
  /\ (r.last < W => (W - r.last) \notin QS)
DedupLemmas == \A ng \in {TRUE, FALSE} :
  LET d == DedupOp(al, ng)  dd == DedupOp(d.o, ng) IN
  /\ dd.o = d.o                                                                  \* idempotent
  /\ \A k \in 1..Len(d.o.rows) : \E i \in 1..Len(al.rows) : al.rows[i] = d.o.rows[k]
  /\ UNION {g[2] : g \in d.ret.groups} = Range(NamesOf(al))                       \* groups cover the names
  /\ \A g, h \in d.ret.groups : g # h => g[2] \cap h[2] = {}                      \* and are disjoint
  /\ {g[1] : g \in d.ret.groups} = Range(NamesOf(d.o))                            \* led by the kept rows
MaskFrame == \A st \in 0..W : \A n \in 0..(W + 1) :
  \A post \in {[al EXCEPT !.rows = [r \in 1..Rows |-> [al.rows[r] EXCEPT !.s = [i \in 1..W |-> IF i - 1 >= st /\ i - 1 < st + n THEN 78 ELSE al.rows[r].s[i]]]]]} :
     AllowedMask(al, post, <<>>, st, n, <<>>, FALSE, FALSE)
=============================================================================
