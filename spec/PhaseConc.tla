------------------------------- MODULE PhaseConc -------------------------------
(***************************************************************************)
(* The goroutine protocol of align.Phase (property C16, concurrency half),  *)
(* at the grain of the observation hooks (action = hook name, '.' -> '_').  *)
(*                                                                         *)
(*  feeder    (SequencesChan) sends the sequences 1..N over a channel of    *)
(*            capacity SCap, then closes it;                               *)
(*  worker w  receives a sequence or sees the channel closed; phases it;    *)
(*            if the alignment fails (a sequence of cfg.fail) it raises the *)
(*            shared flag, sends the error result and exits; if it sees     *)
(*            the flag raised after its own alignment it drops its result   *)
(*            and exits; otherwise it sends its result; it signals the      *)
(*            WaitGroup on every exit path;                                 *)
(*  closer    waits for the WaitGroup, closes the result stream, then       *)
(*            drains the sequence channel so that the feeder can finish;    *)
(*  consumer  (the caller) receives results until the stream is closed.     *)
(* SignalOnFail = FALSE models a worker that forgets the WaitGroup on its    *)
(* error path (sanity configuration: the stream is then never closed).      *)
(***************************************************************************)
EXTENDS Integers, Sequences, FiniteSets
CONSTANTS SignalOnFail
VARIABLES cfg, fpc, nxt, sch, sclosed, wpc, cur, failed, out, oclosed, wgc, cpc, got, gotErr
vars == <<cfg, fpc, nxt, sch, sclosed, wpc, cur, failed, out, oclosed, wgc, cpc, got, gotErr>>
N == cfg.n
Fails == {cfg.fail[i] : i \in 1..Len(cfg.fail)}       \* the sequences whose alignment fails (cfg.fail: a sequence of indexes)
Workers == 1..cfg.nw
SCap == cfg.scap
OCap == cfg.ocap
InitWith(c) == /\ cfg = c /\ fpc = "run" /\ nxt = 1 /\ sch = <<>> /\ sclosed = FALSE
               /\ wpc = [w \in 1..c.nw |-> "new"] /\ cur = [w \in 1..c.nw |-> 0] /\ failed = FALSE
               /\ out = <<>> /\ oclosed = FALSE /\ wgc = c.nw /\ cpc = "waiting" /\ got = <<>> /\ gotErr = FALSE
\* ---- feeder ----
ph_f_send(s) == /\ fpc = "run" /\ nxt = s /\ s <= N /\ Len(sch) < SCap
                /\ sch' = Append(sch, s) /\ nxt' = s + 1
                /\ UNCHANGED <<cfg, fpc, sclosed, wpc, cur, failed, out, oclosed, wgc, cpc, got, gotErr>>
ph_f_close == /\ fpc = "run" /\ nxt = N + 1 /\ sclosed' = TRUE /\ fpc' = "done"
              /\ UNCHANGED <<cfg, nxt, sch, wpc, cur, failed, out, oclosed, wgc, cpc, got, gotErr>>
\* ---- workers ----
ph_w_start(w) == wpc[w] = "new" /\ wpc' = [wpc EXCEPT ![w] = "idle"]
                 /\ UNCHANGED <<cfg, fpc, nxt, sch, sclosed, cur, failed, out, oclosed, wgc, cpc, got, gotErr>>
ph_w_recv(w, s) == /\ wpc[w] = "idle" /\ sch # <<>> /\ Head(sch) = s
                   /\ sch' = Tail(sch) /\ cur' = [cur EXCEPT ![w] = s] /\ wpc' = [wpc EXCEPT ![w] = "has"]
                   /\ UNCHANGED <<cfg, fpc, nxt, sclosed, failed, out, oclosed, wgc, cpc, got, gotErr>>
Send(x) == Len(out) < OCap /\ ~oclosed /\ out' = Append(out, x)
ph_w_result(w) == /\ wpc[w] = "has" /\ cur[w] \notin Fails /\ ~failed
                  /\ Send(cur[w]) /\ wpc' = [wpc EXCEPT ![w] = "idle"]
                  /\ UNCHANGED <<cfg, fpc, nxt, sch, sclosed, cur, failed, oclosed, wgc, cpc, got, gotErr>>
ph_w_fail(w) == /\ wpc[w] = "has" /\ cur[w] \in Fails
                /\ failed' = TRUE /\ Send(0 - cur[w]) /\ wpc' = [wpc EXCEPT ![w] = "leaving"]
                /\ UNCHANGED <<cfg, fpc, nxt, sch, sclosed, cur, oclosed, wgc, cpc, got, gotErr>>
ph_w_stop(w) == /\ wpc[w] = "has" /\ cur[w] \notin Fails /\ failed
                /\ wpc' = [wpc EXCEPT ![w] = "leaving"]
                /\ UNCHANGED <<cfg, fpc, nxt, sch, sclosed, cur, failed, out, oclosed, wgc, cpc, got, gotErr>>
ph_w_done(w) == /\ \/ wpc[w] = "leaving"
                   \/ (wpc[w] = "idle" /\ sch = <<>> /\ sclosed)
                /\ wpc' = [wpc EXCEPT ![w] = "exited"]
                /\ wgc' = IF wpc[w] = "leaving" /\ cur[w] \in Fails /\ ~SignalOnFail THEN wgc ELSE wgc - 1
                /\ UNCHANGED <<cfg, fpc, nxt, sch, sclosed, cur, failed, out, oclosed, cpc, got, gotErr>>
\* ---- closer ----
ph_c_wait == /\ cpc = "waiting" /\ wgc = 0 /\ cpc' = "joined"
             /\ UNCHANGED <<cfg, fpc, nxt, sch, sclosed, wpc, cur, failed, out, oclosed, wgc, got, gotErr>>
ph_c_close == /\ cpc = "joined" /\ oclosed' = TRUE /\ cpc' = "draining"
              /\ UNCHANGED <<cfg, fpc, nxt, sch, sclosed, wpc, cur, failed, out, wgc, got, gotErr>>
c_drain == /\ cpc = "draining" /\ sch # <<>> /\ sch' = Tail(sch)                      \* (no hook)
           /\ UNCHANGED <<cfg, fpc, nxt, sclosed, wpc, cur, failed, out, oclosed, wgc, cpc, got, gotErr>>
\* ---- consumer (the caller of Phase) ----
k_recv == /\ out # <<>>
          /\ out' = Tail(out)
          /\ IF Head(out) < 0 THEN gotErr' = TRUE /\ got' = got ELSE got' = Append(got, Head(out)) /\ gotErr' = gotErr
          /\ UNCHANGED <<cfg, fpc, nxt, sch, sclosed, wpc, cur, failed, oclosed, wgc, cpc>>
Finished == oclosed /\ out = <<>>
FSend == \E s \in 1..N : ph_f_send(s)
WStart == \E w \in Workers : ph_w_start(w)
WRecv == \E w \in Workers : \E s \in 1..N : ph_w_recv(w, s)
WResult == \E w \in Workers : ph_w_result(w)
WFail == \E w \in Workers : ph_w_fail(w)
WStop == \E w \in Workers : ph_w_stop(w)
WDone == \E w \in Workers : ph_w_done(w)
Stutter == Finished /\ UNCHANGED vars
Next == FSend \/ ph_f_close \/ WStart \/ WRecv \/ WResult \/ WFail \/ WStop \/ WDone \/ ph_c_wait \/ ph_c_close \/ c_drain \/ k_recv \/ Stutter
\* ---- properties ----
StreamClosed == <>Finished
NoSendAfterClose == oclosed => \A w \in Workers : wpc[w] \in {"exited"}
OneResultEach == (Finished /\ Fails = {}) => (Len(got) = N /\ {got[i] : i \in 1..Len(got)} = 1..N /\ ~gotErr)
NoDuplicate == \A i, j \in 1..Len(got) : got[i] = got[j] => i = j
\* (a failing sequence that was received by a worker before the others stopped is reported)
ErrorDelivered == (Finished /\ gotErr) => Fails # {}
ErrorSeen == (Finished /\ \E w \in Workers : cur[w] \in Fails) => gotErr
FeederFinishes == <>(fpc = "done")
=============================================================================
