-------------------------------- MODULE Weights --------------------------------
(***************************************************************************)
(* Random site weights, Dirichlet samples, discrete-gamma rate categories    *)
(* and the incomplete gamma ratio (property C20), as relations over what the *)
(* implementation returned; real arithmetic through F64.                     *)
(*   The incomplete gamma ratio is compared with its SERIES DEFINITION       *)
(*   P(a, x) = e^-x x^a sum_k x^k / Gamma(a+k+1), evaluated here term by     *)
(*   term (term_0 = exp(a ln x - x - lnGamma(a) - ln a), term_k+1 = term_k   *)
(*   x / (a+k+1)); lnGamma(a) is the value the caller passed to the routine. *)
(***************************************************************************)
EXTENDS Integers, Sequences, FiniteSets, SequencesExt, F64
Zero == FInt(0)
Un == FInt(1)
ParseV(v) == [i \in 1..Len(v) |-> FParse(v[i])]
RelClose(a, b, rel) == FLe(FAbs(FSub(a, b)), FMul(rel, FMax(FAbs(a), FAbs(b))))
\* one strictly positive finite weight per site, summing to the number of sites
WeightsOK(L, w) == /\ Len(w) = L
                   /\ \A i \in 1..Len(w) : FIsFinite(w[i]) /\ FLt(Zero, w[i])
                   /\ RelClose(FSum(w), FInt(L), FParse("1e-9"))
\* invalid parameters: fewer than three of them, or one that is not a positive finite number (zero, negative, NaN, infinite)
DirichletErr(alpha) == Len(alpha) <= 2 \/ \E i \in 1..Len(alpha) : ~FLt(Zero, alpha[i]) \/ ~FIsFinite(alpha[i])
DirichletOK(total, n, s) == /\ Len(s) = n /\ \A i \in 1..n : FIsFinite(s[i]) /\ FLe(Zero, s[i])
                            /\ FLe(FAbs(FSub(FSum(s), total)), FMul(FParse("1e-9"), FMax(Un, FAbs(total))))
\* rate categories: non-negative, non-decreasing (up to the routine's own rounding noise), mean 1
RatesOK(ncat, r) == LET tol == FParse("1e-9") IN
                    /\ Len(r) = ncat
                    /\ \A i \in 1..ncat : FLe(FNeg(tol), r[i])
                    /\ \A i \in 1..(ncat - 1) : FLe(FSub(r[i], tol), r[i + 1])
                    /\ FLe(FAbs(FSub(FDiv(FSum(r), FInt(ncat)), Un)), tol)
Series(a, x, lng) ==
  IF FEq(x, Zero) THEN Zero
  ELSE LET t0 == FExp(FSub(FSub(FSub(FMul(a, FLn(x)), x), lng), FLn(a)))
       IN FoldLeft(LAMBDA acc, k : LET t == FDiv(FMul(acc.t, x), FAdd(a, FInt(k))) IN [t |-> t, s |-> FAdd(acc.s, t)],
                   [t |-> t0, s |-> t0], [k \in 1..600 |-> k]).s
IncGammaOK(a, lng, xs, vals) ==
  [range    |-> \A i \in 1..Len(vals) : FLe(FNeg(FParse("1e-12")), vals[i]) /\ FLe(vals[i], FAdd(Un, FParse("1e-12"))),
   monotone |-> \A i \in 1..(Len(vals) - 1) : FLe(FSub(vals[i], FParse("1e-9")), vals[i + 1]),
   series   |-> \A i \in 1..Len(vals) : FLe(xs[i], FInt(150)) => FLe(FAbs(FSub(vals[i], Series(a, xs[i], lng))), FParse("1e-7"))]
=============================================================================
