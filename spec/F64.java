import tlc2.value.impl.*;
import tlc2.value.IValue;
import util.UniqueString;

public class F64 {
    private static double d(final Value v) {
        final TupleValue t = (TupleValue) v.toTuple();
        final long hi = ((IntValue) t.elems[0]).val;
        final long lo = ((IntValue) t.elems[1]).val;
        return Double.longBitsToDouble((hi << 32) | (lo & 0xffffffffL));
    }
    private static Value v(final double x) {
        final long b = Double.doubleToRawLongBits(x);
        return new TupleValue(new Value[] { IntValue.gen((int) (b >> 32)), IntValue.gen((int) b) });
    }
    private static Value b(final boolean x) { return x ? BoolValue.ValTrue : BoolValue.ValFalse; }

    public static Value FInt(final Value n) { return v((double) ((IntValue) n).val); }
    public static Value FRat(final Value n, final Value m) { return v(((double) ((IntValue) n).val) / ((double) ((IntValue) m).val)); }
    public static Value FParse(final Value s) {
        String t = ((StringValue) s).val.toString();
        if (t.equals("NaN")) return v(Double.NaN);
        if (t.equals("+Inf") || t.equals("Inf")) return v(Double.POSITIVE_INFINITY);
        if (t.equals("-Inf")) return v(Double.NEGATIVE_INFINITY);
        return v(Double.parseDouble(t));
    }
    public static Value FStr(final Value a) {
        final double x = d(a);
        if (Double.isNaN(x)) return new StringValue("NaN");
        if (Double.isInfinite(x)) return new StringValue(x > 0 ? "+Inf" : "-Inf");
        return new StringValue(Double.toString(x));
    }
    public static Value FAdd(final Value a, final Value c) { return v(d(a) + d(c)); }
    public static Value FSub(final Value a, final Value c) { return v(d(a) - d(c)); }
    public static Value FMul(final Value a, final Value c) { return v(d(a) * d(c)); }
    public static Value FDiv(final Value a, final Value c) { return v(d(a) / d(c)); }
    public static Value FNeg(final Value a) { return v(-d(a)); }
    public static Value FAbs(final Value a) { return v(Math.abs(d(a))); }
    public static Value FLn(final Value a) { return v(Math.log(d(a))); }
    public static Value FExp(final Value a) { return v(Math.exp(d(a))); }
    public static Value FPow(final Value a, final Value c) { return v(Math.pow(d(a), d(c))); }
    public static Value FSqrt(final Value a) { return v(Math.sqrt(d(a))); }
    public static Value FMin(final Value a, final Value c) { return v(Math.min(d(a), d(c))); }
    public static Value FMax(final Value a, final Value c) { return v(Math.max(d(a), d(c))); }
    public static Value FLt(final Value a, final Value c) { return b(d(a) < d(c)); }
    public static Value FLe(final Value a, final Value c) { return b(d(a) <= d(c)); }
    public static Value FEq(final Value a, final Value c) { return b(d(a) == d(c)); }
    public static Value FIsNaN(final Value a) { return b(Double.isNaN(d(a))); }
    public static Value FIsInf(final Value a) { return b(Double.isInfinite(d(a))); }
    public static Value FIsFinite(final Value a) { final double x = d(a); return b(!Double.isNaN(x) && !Double.isInfinite(x)); }
    public static Value FTrunc(final Value a) { return IntValue.gen((int) d(a)); }
    public static Value FSum(final Value s) {
        final TupleValue t = (TupleValue) s.toTuple();
        double acc = 0.0;
        for (int i = 0; i < t.elems.length; i++) acc += d(t.elems[i]);
        return v(acc);
    }
    public static Value FDot(final Value s, final Value u) {
        final TupleValue t = (TupleValue) s.toTuple();
        final TupleValue w = (TupleValue) u.toTuple();
        double acc = 0.0;
        for (int i = 0; i < t.elems.length; i++) acc += d(t.elems[i]) * d(w.elems[i]);
        return v(acc);
    }
    public static Value FClose(final Value a, final Value c, final Value rel, final Value abs) {
        final double x = d(a), y = d(c);
        if (Double.isNaN(x) || Double.isNaN(y)) return b(Double.isNaN(x) && Double.isNaN(y));
        if (Double.isInfinite(x) || Double.isInfinite(y)) return b(x == y);
        return b(Math.abs(x - y) <= d(abs) + d(rel) * Math.max(Math.abs(x), Math.abs(y)));
    }
    public static Value Strict(final Value x) { return deep(x); }

    private static Value deep(final Value x) {
        if (x instanceof IntValue || x instanceof BoolValue || x instanceof StringValue || x instanceof ModelValue) return x;
        if (x instanceof TupleValue) {
            final TupleValue t = (TupleValue) x;
            final Value[] e = new Value[t.elems.length];
            for (int i = 0; i < e.length; i++) e[i] = deep(t.elems[i]);
            return new TupleValue(e);
        }
        if (x instanceof RecordValue) {
            final RecordValue r = (RecordValue) x;
            final Value[] e = new Value[r.values.length];
            for (int i = 0; i < e.length; i++) e[i] = deep(r.values[i]);
            return new RecordValue(r.names, e, r.isNormalized());
        }
        if (x instanceof SetEnumValue) {
            final SetEnumValue s = (SetEnumValue) x;
            final ValueVec vv = new ValueVec(s.elems.size());
            for (int i = 0; i < s.elems.size(); i++) vv.addElement(deep(s.elems.elementAt(i)));
            return new SetEnumValue(vv, false);
        }
        final Value t = (Value) x.toTuple();
        if (t != null) return deep(t);
        final Value r = (Value) x.toRcd();
        if (r != null) return deep(r);
        final Value f = (Value) x.toFcnRcd();
        if (f != null && f instanceof FcnRcdValue) {
            final FcnRcdValue fr = (FcnRcdValue) f;
            final Value[] e = new Value[fr.values.length];
            for (int i = 0; i < e.length; i++) e[i] = deep(fr.values[i]);
            if (fr.intv != null) return new FcnRcdValue(fr.intv, e);
            return new FcnRcdValue(fr.domain, e, fr.isNormalized());
        }
        if (x instanceof Enumerable && !(x instanceof SetEnumValue)) {
            final Value s = (Value) x.toSetEnum();
            if (s != null && s instanceof SetEnumValue) return deep(s);
        }
        return x;
    }
}
