------------------------------ MODULE MC_DistConc ------------------------------
(* Exhaustive check of the DistMatrix protocol for every failure position, both failure kinds, 1..MaxWorkers workers  *)
(* and channel capacities 1..2: the configuration is chosen in Init so that one TLC run covers the whole family.      *)
EXTENDS DistMatrixConc, TLC
CONSTANTS MaxPairs, MaxWorkers
Init == \E np \in 1..MaxPairs, nw \in 1..MaxWorkers, cp \in {1, 2}, fs \in 0..(MaxPairs + 1) :
          \E fd \in {<<>>} \cup {<<a>> : a \in 1..np} \cup {<<a, a + 1>> : a \in 1..np} \cup {<<1, 2, 3>>} :
             /\ fs <= np + 1 /\ (fd = <<>> \/ fs = 0)
             /\ InitWith([np |-> np, nw |-> nw, cap |-> cp, fd |-> fd, fs |-> fs])
Spec == Init /\ [][Next]_vars /\ WF_vars(Next)
=============================================================================
