---------------------------- MODULE DistMatrixConc ----------------------------
(***************************************************************************)
(* The goroutine protocol of dna.DistMatrix (property C08, concurrency       *)
(* half), at the grain of the observation hooks (one action per hook point; *)
(* the action name is the hook name with '.' replaced by '_').              *)
(*                                                                         *)
(*  producer  sends the pairs 1..NPairs over a channel of capacity Cap; a   *)
(*            row request may fail (FailSeq = k: before sending pair k);    *)
(*            it records its error and ALWAYS closes the channel;           *)
(*  worker w  receives a pair or sees the channel closed; evaluates the     *)
(*            distance (FailDist = k: the k-th evaluation fails); on        *)
(*            failure records the first error under the mutex and goes on   *)
(*            consuming; otherwise writes its two cells, then updates the   *)
(*            running maximum under the mutex; signals the WaitGroup on     *)
(*            exit, on EVERY path;                                          *)
(*  main      waits for the WaitGroup, then reads the two error slots.      *)
(*                                                                         *)
(* DoneOnError = FALSE is the protocol of the pinned code (a failing worker *)
(* returned without signalling): TLC finds the hang; it is kept as a        *)
(* sanity configuration showing that the model is sharp.                    *)
(***************************************************************************)
EXTENDS Integers, Sequences, FiniteSets

CONSTANTS DoneOnError
\* cfg = [np, nw, cap, fd, fs] is the configuration of one run (number of pairs, workers, channel capacity, failing
\* evaluations as a sequence of indexes, failing row request or 0); it never changes (a variable so that one TLC run covers a family of runs)
VARIABLES cfg, ppc, nxt, chan, closed, wpc, cur, nd, mux, perr, werr, cells, wgc, mpc, ret
vars == <<cfg, ppc, nxt, chan, closed, wpc, cur, nd, mux, perr, werr, cells, wgc, mpc, ret>>
NPairs == cfg.np
NWorkers == cfg.nw
Cap == cfg.cap
FailDist == {cfg.fd[i] : i \in 1..Len(cfg.fd)}     \* the evaluations (in order of completion) that fail
FailSeq == cfg.fs
Workers == 1..NWorkers
Pairs == 1..NPairs

InitWith(c) ==
        /\ cfg = c
        /\ ppc = "new" /\ nxt = 1 /\ chan = <<>> /\ closed = FALSE
        /\ wpc = [w \in 1..c.nw |-> "new"] /\ cur = [w \in 1..c.nw |-> 0] /\ nd = 0 /\ mux = 0
        /\ perr = FALSE /\ werr = FALSE /\ cells = [p \in 1..c.np |-> 0] /\ wgc = c.nw
        /\ mpc = "waiting" /\ ret = "none"

\* ---- producer ----
dm_p_start == ppc = "new" /\ ppc' = "run"
              /\ UNCHANGED <<cfg, nxt, chan, closed, wpc, cur, nd, mux, perr, werr, cells, wgc, mpc, ret>>
dm_p_send(p) == /\ ppc = "run" /\ nxt = p /\ p <= NPairs /\ FailSeq # p
                /\ Len(chan) < Cap
                /\ chan' = Append(chan, p) /\ nxt' = p + 1
                /\ UNCHANGED <<cfg, ppc, closed, wpc, cur, nd, mux, perr, werr, cells, wgc, mpc, ret>>
dm_p_err(p) == /\ ppc = "run" /\ nxt = p /\ FailSeq = p
               /\ perr' = TRUE /\ ppc' = "closing"
               /\ UNCHANGED <<cfg, nxt, chan, closed, wpc, cur, nd, mux, werr, cells, wgc, mpc, ret>>
dm_p_close == /\ ppc = "closing" \/ (ppc = "run" /\ nxt = NPairs + 1 /\ FailSeq # nxt)
              /\ closed' = TRUE /\ ppc' = "done"
              /\ UNCHANGED <<cfg, nxt, chan, wpc, cur, nd, mux, perr, werr, cells, wgc, mpc, ret>>
\* ---- workers ----
dm_w_start(w) == wpc[w] = "new" /\ wpc' = [wpc EXCEPT ![w] = "idle"]
                 /\ UNCHANGED <<cfg, ppc, nxt, chan, closed, cur, nd, mux, perr, werr, cells, wgc, mpc, ret>>
dm_w_recv(w, p) == /\ wpc[w] = "idle" /\ chan # <<>> /\ Head(chan) = p
                   /\ chan' = Tail(chan) /\ cur' = [cur EXCEPT ![w] = p] /\ wpc' = [wpc EXCEPT ![w] = "got"]
                   /\ UNCHANGED <<cfg, ppc, nxt, closed, nd, mux, perr, werr, cells, wgc, mpc, ret>>
\* evaluation succeeded, both cells written (no lock: each pair is handled by one worker)
dm_w_dist(w) == /\ wpc[w] = "got" /\ nd + 1 \notin FailDist
                /\ nd' = nd + 1 /\ cells' = [cells EXCEPT ![cur[w]] = @ + 1] /\ wpc' = [wpc EXCEPT ![w] = "computed"]
                /\ UNCHANGED <<cfg, ppc, nxt, chan, closed, cur, mux, perr, werr, wgc, mpc, ret>>
\* evaluation failed: the first error is recorded under the mutex (lock .. unlock is one step: nothing else happens inside)
dm_w_err(w) == /\ wpc[w] = "got" /\ nd + 1 \in FailDist /\ mux = 0
               /\ nd' = nd + 1 /\ werr' = TRUE
               /\ wpc' = [wpc EXCEPT ![w] = IF DoneOnError THEN "idle" ELSE "dead"]
               /\ UNCHANGED <<cfg, ppc, nxt, chan, closed, cur, mux, perr, cells, wgc, mpc, ret>>
dm_w_lock(w) == /\ wpc[w] = "computed" /\ mux = 0
                /\ mux' = w /\ wpc' = [wpc EXCEPT ![w] = "locked"]
                /\ UNCHANGED <<cfg, ppc, nxt, chan, closed, cur, nd, perr, werr, cells, wgc, mpc, ret>>
dm_w_unlock(w) == /\ wpc[w] = "locked" /\ mux = w                   \* (hook after the release)
               /\ mux' = 0 /\ wpc' = [wpc EXCEPT ![w] = "idle"]
               /\ UNCHANGED <<cfg, ppc, nxt, chan, closed, cur, nd, perr, werr, cells, wgc, mpc, ret>>
dm_w_done(w) == /\ wpc[w] = "idle" /\ chan = <<>> /\ closed
                /\ wpc' = [wpc EXCEPT ![w] = "exited"] /\ wgc' = wgc - 1
                /\ UNCHANGED <<cfg, ppc, nxt, chan, closed, cur, nd, mux, perr, werr, cells, mpc, ret>>
\* ---- main ----
dm_m_wait == /\ mpc = "waiting" /\ wgc = 0 /\ mpc' = "joined"
             /\ UNCHANGED <<cfg, ppc, nxt, chan, closed, wpc, cur, nd, mux, perr, werr, cells, wgc, ret>>
dm_m_ret(flag) == /\ mpc = "joined" /\ flag = (IF perr \/ werr THEN 1 ELSE 0)
                  /\ ret' = (IF flag = 1 THEN "err" ELSE "ok") /\ mpc' = "done"
                  /\ UNCHANGED <<cfg, ppc, nxt, chan, closed, wpc, cur, nd, mux, perr, werr, cells, wgc>>

\* (one named disjunct per hook point, so that TLC's coverage report shows every one of them firing)
PSend == \E p \in 1..(NPairs + 1) : dm_p_send(p)
PErr == \E p \in 1..(NPairs + 1) : dm_p_err(p)
WStart == \E w \in Workers : dm_w_start(w)
WRecv == \E w \in Workers : \E p \in Pairs : dm_w_recv(w, p)
WDist == \E w \in Workers : dm_w_dist(w)
WErr == \E w \in Workers : dm_w_err(w)
WLock == \E w \in Workers : dm_w_lock(w)
WUnlock == \E w \in Workers : dm_w_unlock(w)
WDone == \E w \in Workers : dm_w_done(w)
MRet == \E f \in {0, 1} : dm_m_ret(f)
Finished == mpc = "done" /\ UNCHANGED vars
Next == dm_p_start \/ PSend \/ PErr \/ dm_p_close \/ WStart \/ WRecv \/ WDist \/ WErr \/ WLock \/ WUnlock \/ WDone \/ dm_m_wait \/ MRet \/ Finished

\* ---- properties ----
Termination == <>(mpc = "done")
\* the caller reads the error slots only after every writer is finished (no data race on them)
NoRaceOnErr == mpc \in {"joined", "done"} => (ppc = "done" /\ \A w \in Workers : wpc[w] \in {"exited", "dead"})
\* two workers never hold the same pair (their cell writes are not protected by the mutex)
NoRaceOnCells == \A w, v \in Workers : (w # v /\ wpc[w] \in {"got", "computed", "locked"} /\ wpc[v] \in {"got", "computed", "locked"}) => cur[w] # cur[v]
MutexOK == mux = 0 \/ wpc[mux] = "locked"
ErrorReturned == mpc = "done" => /\ (ret = "err") = (perr \/ werr)
                                 /\ (FailSeq \in 1..(NPairs + 1) => ret = "err")
                                 /\ ((FailSeq = 0 /\ FailDist \cap (1..NPairs) # {}) => ret = "err")
Determinate == (mpc = "done" /\ ret = "ok") => \A p \in Pairs : cells[p] = 1
OneResultPerPair == \A p \in Pairs : cells[p] <= 1
=============================================================================
