------------------------------ MODULE Gen_Formats ------------------------------
(***************************************************************************)
(* TLC as case generator for the byte channel: alignments whose length       *)
(* straddles every writer line / block width, residue rows that spell words   *)
(* a lexer knows, lists of alignments for the Phylip stream, and every chain  *)
(* of formats x writer options x transport x (explicit | auto-detected)       *)
(* parser up to the given depth.  MC part: along any chain the channel        *)
(* machine (state = the abstract alignment list) never changes its state.     *)
(***************************************************************************)
EXTENDS Formats, Json, TLC
CONSTANTS Scope
VARIABLES c

Bools == {TRUE, FALSE}
NtCyc == <<65, 67, 71, 84, 45, 97, 78, 116, 63, 42>>
AaCyc == <<65, 82, 78, 68, 81, 69, 73, 76, 88, 45, 113, 42, 70, 80>>
RowOf(cyc, r, len) == [j \in 1..len |-> cyc[((j * 7 + r * 3) % Len(cyc)) + 1]]
NameNo(r) == <<115, 101, 113, 95, ZERO + r>>                     \* seq_<r>
LongName(r) == <<116, 97, 120, 111, 110, 46, 110, 97, 109, 101, 124, ZERO + r>>   \* taxon.name|<r> (12 characters)
Al(n, len, cyc, long) == [rows |-> [r \in 1..n |-> [n |-> IF long THEN LongName(r) ELSE NameNo(r), s |-> RowOf(cyc, r, len)]]]
Lens == IF Scope = "full" THEN {1, 2, 9, 10, 11, 49, 50, 51, 59, 60, 61, 79, 80, 81, 100, 119, 120, 121, 160}
        ELSE {1, 10, 11, 50, 51, 60, 61, 80, 81, 120, 121}
\* rows that spell lexer keywords (they are residues: G A P E N D T R Y M ... are amino-acid codes)
WordRows == {<<<<71, 65, 80>>, <<69, 78, 68>>>>, <<<<68, 65, 84, 65>>, <<84, 82, 69, 69>>>>, <<<<84, 65, 88, 65>>, <<103, 97, 112, 45>>>>,
             <<<<77, 65, 84, 82, 73, 88>>, <<65, 67, 71, 84, 65, 67>>>>, <<<<77, 73, 83, 83, 73, 78, 71>>, <<84, 82, 69, 69, 45, 45, 45>>>>, <<<<69, 78, 68, 45, 65>>, <<65, 67, 71, 84, 65>>>>,
             \* ... and words a number parser knows (NAN, INF, nan / -INF, INFINITY, Infinity): residues and gaps, not numbers
             <<<<78, 65, 78>>, <<73, 78, 70>>>>, <<<<110, 97, 110, 45>>, <<45, 73, 78, 70>>>>,
             <<<<73, 78, 70, 73, 78, 73, 84, 89>>, <<73, 110, 102, 105, 110, 105, 116, 121>>>>, <<<<45, 105, 110, 102>>, <<78, 97, 78, 45>>>>}
WordAl(w) == [rows |-> [r \in 1..2 |-> [n |-> NameNo(r), s |-> w[r]]]]

Hop(f, st, ol, nb, via, auto) == [fmt |-> f, strict |-> st, oneline |-> ol, noblock |-> nb, via |-> via, auto |-> auto]
Plain(f) == Hop(f, FALSE, FALSE, FALSE, "mem", FALSE)
\* names that only start or end with a word some lexer knows (any case): ordinary names, the channel is the identity on them
KeyWords == NexusKeywords \cup {ClustalWord, ClustalWord \o <<119>>, <<115, 116, 111, 99, 107, 104, 111, 108, 109>>, <<109, 117, 115, 99, 108, 101>>}
AffixAl(k) == [rows |-> <<[n |-> k \o <<120, 49>>, s |-> RowOf(NtCyc, 1, 5)], [n |-> <<120>> \o k, s |-> RowOf(NtCyc, 2, 5)],
                         [n |-> UpS(k) \o <<87, 50>>, s |-> RowOf(NtCyc, 3, 5)], [n |-> <<Up(k[1])>> \o Tail(k) \o <<95>>, s |-> RowOf(NtCyc, 4, 5)]>>]
AffixCases == {x \in {[als |-> <<AffixAl(k)>>, chain |-> <<Hop(f, FALSE, FALSE, FALSE, "mem", a)>>] : k \in KeyWords, f \in FormatNames, a \in Bools} :
                 /\ (x.chain[1].fmt = "stockholm" => ~x.chain[1].auto)
                 /\ Representable(x.chain[1].fmt, FALSE, x.als[1])}

PhylipHops(vias, autos) == {Hop("phylip", st, ol, nb, v, a) : st \in Bools, ol \in Bools, nb \in Bools, v \in vias, a \in autos}
AllHops(vias) == {Hop(f, FALSE, FALSE, FALSE, v, a) : f \in {"fasta", "nexus", "clustal"}, v \in vias, a \in Bools}
                 \cup {Hop("stockholm", FALSE, FALSE, FALSE, v, FALSE) : v \in vias}
                 \cup PhylipHops(vias, Bools)
Chains1 == {<<h>> : h \in AllHops({"mem"})} \cup {<<h>> : h \in AllHops({"file", "gz", "xz"}) \cap {x \in AllHops({"file", "gz", "xz"}) : ~x.oneline /\ ~x.noblock}}
Chains2 == {<<Plain(f), h>> : f \in FormatNames, h \in AllHops({"mem"})}
Chains3 == {<<Plain(f), Plain(g), Plain(k)>> : f \in FormatNames, g \in FormatNames, k \in FormatNames}
NoStrict(ch) == \A i \in 1..Len(ch) : ~ch[i].strict

Cases ==
  {[als |-> <<Al(2, len, NtCyc, FALSE)>>, chain |-> ch] : len \in Lens, ch \in Chains1}
  \cup {[als |-> <<Al(3, len, AaCyc, TRUE)>>, chain |-> ch] : len \in {1, 60, 61, 121}, ch \in {x \in Chains1 : NoStrict(x)}}
  \cup {[als |-> <<Al(2, len, AaCyc, FALSE)>>, chain |-> ch] : len \in {10, 51, 61, 81}, ch \in Chains2}
  \cup {[als |-> <<WordAl(w)>>, chain |-> <<h>>] : w \in WordRows, h \in AllHops({"mem"})}
  \cup {[als |-> [k \in 1..m |-> Al(1 + (k % 3), IF k = 2 THEN 61 ELSE 5 * k, IF k = 2 THEN AaCyc ELSE NtCyc, FALSE)], chain |-> <<h>>] :
          m \in 1..4, h \in PhylipHops({"mem", "gz"}, Bools)}
  \cup {[als |-> [k \in 1..m |-> Al(m - k + 1, 7, IF k = 2 THEN AaCyc ELSE NtCyc, FALSE)], chain |-> <<h>>] : m \in 2..3, h \in PhylipHops({"mem"}, Bools)}
  \cup {[als |-> <<[rows |-> <<[n |-> <<116, 101, 110, 99, 104, 97, 114, 115, 95, 49>>, s |-> RowOf(NtCyc, 1, len)], [n |-> <<98>>, s |-> RowOf(NtCyc, 2, len)]>>]>>,
          chain |-> <<h>>] : len \in {9, 60, 61}, h \in PhylipHops({"mem", "file"}, Bools)}
  \* more alignments in one stream than the reader's channel holds (its capacity is 15): bootstrap replicates in one file
  \cup {[als |-> [k \in 1..m |-> Al(1 + (k % 3), 5, NtCyc, FALSE)], chain |-> <<h>>] : m \in {15, 16, 17, 40}, h \in PhylipHops({"mem"}, {TRUE})}
  \cup AffixCases
  \cup (IF Scope = "full" THEN {[als |-> <<Al(1, len, NtCyc, FALSE)>>, chain |-> ch] : len \in {1, 60, 121}, ch \in Chains3}
                                \cup {[als |-> <<Al(3, len, AaCyc, FALSE)>>, chain |-> ch] : len \in Lens, ch \in Chains1}
        ELSE {})

Init == c \in Cases
Next == UNCHANGED c
Emit == PrintT(ToJson(c))
\* design level: every generated input is representable in every format of its chain, so the channel must be the identity on it
AllRepresentable == \A i \in 1..Len(c.chain) : \A k \in 1..Len(c.als) : Representable(c.chain[i].fmt, c.chain[i].strict, c.als[k])
=============================================================================
