------------------------------ MODULE Trace_Markov ------------------------------
(* Total trace validation of transition-matrix events (C18): e = [model, p, pi, R, ts, P, Pe, sums, kind]. *)
EXTENDS Markov, Json, IOUtils, TLC
Trace == ndJsonDeserialize(IOEnv.TRACE)
VARIABLES l, bad
Init == l = 1 /\ bad = <<>>
ParseV(v) == [i \in 1..Len(v) |-> FParse(v[i])]
ParseM(m) == Strict([i \in 1..Len(m) |-> [j \in 1..Len(m[i]) |-> FParse(m[i][j])]])
Checks(e) ==
  LET n == Len(e.pi)
      pi == ParseV(e.pi)
      p == ParseV(e.p)
      st == StationaryOf(e.model, pi)
      ts == ParseV(e.ts)
      P == Strict([k \in 1..Len(e.P) |-> ParseM(e.P[k])])
      small == n = 4
      tol == IF small THEN FParse("1e-9") ELSE FParse("1e-6")
      R == IF small THEN <<>> ELSE ParseM(e.R)
      Q == RateMatrix(e.model, p, pi, R)
  IN [stochastic |-> \A k \in 1..Len(P) : Stochastic(P[k], tol),
      identityAtZero |-> \A k \in 1..Len(P) : FEq(ts[k], Zero) => CloseM(P[k], Ident(n), Zero, tol),
      semigroup  |-> \A q \in 1..Len(e.sums) : LET s == e.sums[q] IN CloseM(P[s[3]], MatMul(P[s[1]], P[s[2]]), tol, tol),
      detailedBalance |-> \A k \in 1..Len(P) : DetailedBalance(P[k], st, tol),
      \* (a chain whose slowest eigenvalue is small has not converged at t = 100: the law is asked where the textbook
      \* chain itself is within 1e-6 of its stationary distribution at that length)
      converges  |-> \A k \in 1..Len(P) : (FLe(FInt(100), ts[k]) /\ (~small \/ Converged(Expm(MatScale(Q, ts[k])), st, FParse("1e-6"))))
                                              => Converged(P[k], st, FParse("1e-5")),
      expm       |-> \A q \in 1..Len(e.expm) : LET k == e.expm[q] IN CloseM(P[k], Expm(MatScale(Q, ts[k])), tol, tol),
      analyticalIsEigen |-> Len(e.Pe) > 0 => \A k \in 1..Len(P) : CloseM(P[k], ParseM(e.Pe[k]), tol, tol)]
Failing(e) == IF e.kind = "panic" THEN {"noPanic"} ELSE IF e.kind = "err" THEN {"noError"} ELSE LET ch == Checks(e) IN {k \in DOMAIN ch : ~ch[k]}
Next == /\ l <= Len(Trace)
        /\ LET f == Failing(Trace[l]) IN bad' = IF f = {} THEN bad ELSE Append(bad, [i |-> l, failing |-> SetToSeq(f)])
        /\ l' = l + 1
Spec == Init /\ [][Next]_<<l, bad>>
Done == l = Len(Trace) + 1 => PrintT(<<"RESULT", ToJson([consumed |-> l - 1, bad |-> bad])>>)
=============================================================================
