------------------------------- MODULE Goalign -------------------------------
(***************************************************************************)
(* The heap machine: a heap is a sequence of objects (Container.tla); one   *)
(* action per public operation.  Step(h, op, recv, a) gives the meaning of  *)
(* a deterministic operation; Allowed(...) the relation of a relational     *)
(* one.  The same operators serve                                           *)
(*   - MC_Heap   (exhaustive invariants and lemmas on the specification),   *)
(*   - Gen_Heap  (TLC enumerates / simulates histories that are replayed    *)
(*                into the real code), and                                  *)
(*   - Trace_Heap (events logged by the real code are validated).           *)
(***************************************************************************)
EXTENDS Random, TLC

\* ---- reference-guided translation and codon alignment (C05), relational: exactly what the property states ----
Ungap(s) == SelectSeq(s, LAMBDA c : c # GAP)
NoGapAnywhere(o) == \A r \in 1..Len(o.rows) : \A i \in 1..Len(o.rows[r].s) : o.rows[r].s[i] # GAP
AllowedTBR(pre, post, ref, frame, code) ==
  /\ post.k = pre.k /\ NamesOf(post) = NamesOf(pre)
  \* without gaps it coincides with plain translation, in every frame
  /\ (NoGapAnywhere(pre) /\ Width(pre) - frame >= 3) =>
        \A r \in 1..Len(pre.rows) : post.rows[r].s = TranslateS(pre.rows[r].s, frame, code)
  \* frame 0: rectangular, and the reference row without gaps is a prefix of the translation of the ungapped reference
  /\ frame = 0 =>
        /\ \A r \in 1..Len(post.rows) : Len(post.rows[r].s) = Len(post.rows[1].s)
        /\ Len(post.rows) > 0 => post.len = Len(post.rows[1].s)
        /\ IsPrefix(Ungap(RowOfName(post, ref).s), TranslateS(Ungap(RowOfName(pre, ref).s), 0, code))
\* threading nucleotide sequences onto a protein alignment: the documented failure conditions ...
CodonAlignFits(aa, nt) ==
  \A r \in 1..Len(aa.rows) :
     /\ HasName(nt, aa.rows[r].n)
     /\ LET need == 3 * Len(Ungap(aa.rows[r].s))  have == Len(RowOfName(nt, aa.rows[r].n).s)
        IN need <= have /\ have - need <= 2
\* ... and the promise when the protein rows are the translations of the nucleotide rows (else only the shape is judged)
AllowedCodonAlign(aa, nt, new, code) ==
  /\ new.k = "align" /\ new.al = NUCLEOTIDS /\ NamesOf(new) = NamesOf(aa)
  /\ \A r \in 1..Len(aa.rows) :
       LET ntrow == RowOfName(nt, aa.rows[r].n).s  out == new.rows[r].s IN
       /\ Len(out) = 3 * Len(aa.rows[r].s)
       \* (nucleotide sequences to thread are unaligned: with gaps inside them only the shape is judged)
       /\ NoGapAnywhere(nt) => (IsPrefix(Ungap(out), ntrow) /\ Len(ntrow) - Len(Ungap(out)) <= 2)
       /\ (NoGapAnywhere(nt) /\ Ungap(aa.rows[r].s) = TranslateS(ntrow, 0, code)) => TranslateS(out, 0, code) = aa.rows[r].s
  /\ Len(aa.rows) > 0 => new.len = 3 * Width(aa)

RelationalOps == {"ShuffleSequences", "Sample", "SampleSeqBag", "CleanNames", "TrimNames", "TrimNamesAuto",
                  "Compress", "Mask", "MaskPositions", "MaskOccurences", "MaskUnique", "MaxCharStats", "Consensus",
                  "ShuffleSites", "Swap", "SimulateRogue", "BuildBootstrap", "RandSubAlign", "Mutate",
                  "AddGaps", "Recombine", "Rarefy", "TranslateByReference", "CodonAlign"}
\* operations that never change any existing object (queries and copy-producing operations, C19)
ReadOnlyOps == {"Clone", "CloneSeqBag", "Unalign", "Sample", "SampleSeqBag", "SubAlign", "Extract", "SelectSites",
                "InverseCoordinates", "InversePositions", "RefCoordinates", "RefSites", "Split", "Transpose",
                "MaxCharStats", "Consensus", "CharStats", "CharStatsSite", "CharStatsSeq", "UniqueCharacters",
                "Entropy", "EntropyAll", "NbVariableSites", "InformativeSites", "AvgAllelesPerSite", "Pssm", "CountDifferences",
                "NumGapsUnique", "NumMutationsUnique", "NumMutRef", "ListMutRef", "CountProfile", "ProfileOnly", "SiteConservation", "AlphabetInfo",
                "BuildBootstrap", "RandSubAlign", "Rarefy", "DetectAlphabet", "Identical", "Describe", "Query", "New", "NewFromFasta", "CodonAlign", "LongestORFObj"}

\* `goalign extract`: one named region made of blocks [s, e) - in any order, possibly overlapping - taken in the order
\* given and glued side by side, on the minus strand when asked (reverse complement of the glued region), translated
\* when asked (nucleotides only): a composition of SubAlign, Concat, ReverseComplement and Translate.  With a reference
\* row the blocks are coordinates on its residues (RefCoordinates first).
ExtractOp(o, a) ==
  LET B == a.blocks
      badBlock == \E k \in 1..Len(B) : B[k].s < 0 \/ B[k].e > o.len \/ B[k].s >= B[k].e
      win(k) == IF a.ref = <<>> THEN Res(FALSE, o, <<>>, [start |-> B[k].s, len |-> B[k].e - B[k].s], TRUE)
                ELSE RefCoordinatesOp(o, a.ref, B[k].s, B[k].e - B[k].s)
      badRef == \E k \in 1..Len(B) : win(k).err
      part(k) == SubAlignOp(o, win(k).ret.start, win(k).ret.len).new[1]
      glued == FoldLeft(LAMBDA acc, k : ConcatOp(acc, part(k)).o, part(1), [k \in 1..(Len(B) - 1) |-> k + 1])
      rc == IF a.minus THEN RevCompOp(glued) ELSE Ok(glued)
      tr == IF rc.err THEN rc ELSE IF o.al = NUCLEOTIDS /\ a.code >= 0 THEN TranslateOp(rc.o, 0, a.code) ELSE rc
  IN IF ~IsAlign(o) \/ Len(B) = 0 \/ badBlock THEN Fail(o)
     ELSE IF badRef THEN Fail(o)
     ELSE IF tr.err THEN Res(TRUE, o, <<>>, NoRet, tr.j)
     ELSE Res(FALSE, o, <<tr.o>>, NoRet, tr.j)

Ret(r) == Res(FALSE, r.o, <<>>, r.ret, TRUE)
Q(o, ret) == Res(FALSE, o, <<>>, ret, TRUE)            \* a query: receiver unchanged, returns ret

\* ---- deterministic operations -------------------------------------------------------------------
Step(h, op, recv, a) ==
  LET o == IF recv = 0 THEN EmptyObj("bag", 3, 0) ELSE h[recv] IN
  CASE op = "New" -> Res(FALSE, o, <<FromRows(a.k, a.al, a.pol, a.rows)>>, NoRet, TRUE)
    \* an alignment read from a FASTA file holding these rows: the rows are added one by one, and a row the alignment
    \* refuses (a different length) makes the whole reading fail - wherever it stands in the file
    [] op = "NewFromFasta" ->
         LET step(acc, r) == IF acc.err THEN acc ELSE AddSeq(acc.o, r.n, r.s)
             R == FoldLeft(step, Ok(EmptyObj("align", a.al, 0)), a.rows)
         IN IF R.err \/ Len(a.rows) = 0 THEN Fail(o) ELSE Res(FALSE, o, <<R.o>>, NoRet, TRUE)
    [] op = "Add" -> AddSeq(o, a.name, a.seq)
    [] op = "AddString" -> AddSeq(o, a.name, a.seq)
    [] op = "IgnoreIdentical" -> Ok([o EXCEPT !.pol = NormPol(a.pol)])
    [] op = "Append" -> AppendOp(o, h[a.other])
    [] op = "Concat" -> ConcatOp(o, h[a.other])
    [] op = "Rename" -> RenameOp(o, a.map)
    [] op = "RenameRegexp" -> RenameLitOp(o, a.lit, a.repl)
    [] op = "AppendSeqIdentifier" -> AppendIdOp(o, a.id, a.right)
    [] op = "Sort" -> SortOp(o)
    [] op = "FilterLength" -> FilterLengthOp(o, a.min, a.max)
    [] op = "Deduplicate" -> DedupOp(o, a.nasgap)
    [] op = "Translate" -> TranslateOp(o, a.frame, a.code)
    [] op = "Clone" -> CloneOp(o)
    [] op = "CloneSeqBag" -> CloneBagOp(o)
    [] op = "Clear" -> ClearOp(o)
    [] op = "SetSequenceChar" -> SetCharOp(o, a.i, a.j, a.c)
    [] op = "ReplaceChar" -> ReplaceCharOp(o, a.name, a.site, a.c)
    [] op = "Replace" -> ReplaceLitOp(o, a.old, a.new)
    [] op = "AutoAlphabet" -> AutoAlphabetOp(o)
    [] op = "SetAlphabet" -> SetAlphabetOp(o, a.al)
    [] op = "DetectAlphabet" -> Q(o, [v |-> DetectObj(o)])
    [] op = "Unalign" -> UnalignOp(o)
    [] op = "ToUpper" -> ToUpperOp(o)
    [] op = "ToLower" -> ToLowerOp(o)
    [] op = "ReverseComplement" -> RevCompOp(o)
    [] op = "ReverseComplementSequences" -> RevCompNamesOp(o, a.names)
    [] op = "SubAlign" -> SubAlignOp(o, a.start, a.len)
    [] op = "Extract" -> ExtractOp(o, a)
    [] op = "SelectSites" -> SelectSitesOp(o, a.sites)
    [] op = "InverseCoordinates" -> InverseCoordinatesOp(o, a.start, a.len)
    [] op = "InversePositions" -> InversePositionsOp(o, a.sites)
    [] op = "TrimSequences" -> TrimSequencesOp(o, a.n, a.fromstart)
    [] op = "RefCoordinates" -> RefCoordinatesOp(o, a.name, a.start, a.len)
    [] op = "RefSites" -> RefSitesOp(o, a.name, a.sites)
    [] op = "Split" -> LET part == PartitionOf(a.plen, a.ranges) IN
                       IF part.err THEN Fail(o) ELSE SplitOp(o, a.plen, part)
    [] op = "Transpose" -> TransposeOp(o)
    [] op = "DiffWithFirst" -> DiffWithFirstOp(o)
    [] op = "ReplaceMatchChars" -> ReplaceMatchCharsOp(o)
    [] op = "RemoveGapSites" ->
         LET r == CleanSitesResult(o, CharSitesQ(o, <<GAP>>, a.p, a.q, FALSE, FALSE, FALSE, FALSE), a.ends)
         IN Res(FALSE, r.o, <<>>, r, ~CharSitesUnjudgeable(o, <<GAP>>, a.p, a.q, FALSE, FALSE, FALSE, FALSE) /\ Len(o.rows) > 0)
    [] op = "RemoveCharacterSites" ->
         LET r == CleanSitesResult(o, CharSitesQ(o, a.chars, a.p, a.q, a.icase, a.igaps, a.ins, a.rev), a.ends)
         IN Res(FALSE, r.o, <<>>, r, ~CharSitesUnjudgeable(o, a.chars, a.p, a.q, a.icase, a.igaps, a.ins, a.rev) /\ Len(o.rows) > 0)
    [] op = "RemoveMajorityCharacterSites" ->
         LET r == CleanSitesResult(o, MajSitesQ(o, a.p, a.q, a.igaps, a.ins), a.ends)
         \* a cutoff outside [0,1] is outside the property's quantifier (doc comment: "set to 0"; the code keeps it): not judged
         IN Res(FALSE, r.o, <<>>, r, ~MajSitesUnjudgeable(o, a.p, a.q, a.igaps, a.ins) /\ Len(o.rows) > 0 /\ a.p >= 0 /\ a.p <= a.q)
    [] op = "RemoveGapSeqs" ->
         LET r == CharSeqsOp(o, GAP, a.p, a.q, FALSE, FALSE, a.ins)
         IN [r EXCEPT !.j = ~CharSeqsUnjudgeable(o, GAP, a.p, a.q, FALSE, FALSE, a.ins)]
    [] op = "RemoveCharacterSeqs" ->
         LET r == CharSeqsOp(o, a.c, a.p, a.q, a.icase, a.igaps, a.ins)
         IN [r EXCEPT !.j = ~CharSeqsUnjudgeable(o, a.c, a.p, a.q, a.icase, a.igaps, a.ins)]
    \* ---- statistics (queries)
    [] op = "CharStats" -> Q(o, [m |-> CharStatsAll(o)])
    [] op = "UniqueCharacters" -> Q(o, [v |-> UniqueChars(o)])
    [] op = "CharStatsSite" -> IF CharStatsSiteErr(o, a.site) THEN Fail(o) ELSE Q(o, [m |-> CharStatsSite(o, a.site)])
    [] op = "CharStatsSeq" -> IF CharStatsSeqErr(o, a.idx) THEN Fail(o) ELSE Q(o, [m |-> CharStatsSeq(o, a.idx)])
    [] op = "Entropy" -> IF EntropyErr(o, a.site) THEN Fail(o) ELSE Q(o, [f |-> Entropy(o, a.site, a.rmgaps)])
    \* `goalign compute entropy`: the entropy of every site, or (-a) their average over the sites where it is defined
    [] op = "EntropyAll" ->
         LET es == [i \in 1..Width(o) |-> Entropy(o, i - 1, a.rmgaps)]
             def == SelectSeq(es, LAMBDA x : ~FIsNaN(x))
         IN Q(o, [f |-> es, avg |-> FDiv(FSum(def), FInt(Len(def)))])
    [] op = "NbVariableSites" -> Q(o, [v |-> NbVariableSites(o)])
    [] op = "InformativeSites" -> Q(o, [v |-> InformativeSites(o)])
    [] op = "AvgAllelesPerSite" -> Q(o, [f |-> AvgAlleles(o)])
    [] op = "Pssm" -> IF PssmErr(o, a.norm) THEN Fail(o) ELSE Q(o, [cells |-> [k \in 1..Len(AlphaChars(o)) |->
                         [c |-> AlphaChars(o)[k],
                          v |-> [i \in 1..Width(o) |-> PssmCell(o, AlphaChars(o)[k], i, a.log, FParse(a.pc), a.norm)]]]])
    [] op = "CountDifferences" -> Q(o, [all |-> CountDiffAll(o), rows |-> [r \in 1..(Len(o.rows) - 1) |-> CountDiffRow(o, r + 1)]])
    [] op = "NumGapsUnique" ->
         IF a.prof # 0 /\ Width(h[a.prof]) # Width(o) /\ Len(h[a.prof].rows) > 0 THEN Fail(o)
         ELSE IF a.prof = 0 THEN Q(o, [uniq |-> GapsUnique(o), hasprof |-> FALSE])
         ELSE Q(o, [uniq |-> GapsUnique(o), new |-> GapsNew(o, ProfileOf(h[a.prof])), both |-> GapsBoth(o, ProfileOf(h[a.prof])), hasprof |-> TRUE])
    [] op = "NumMutationsUnique" ->
         IF a.prof # 0 /\ Width(h[a.prof]) # Width(o) /\ Len(h[a.prof].rows) > 0 THEN Fail(o)
         ELSE IF a.prof = 0 THEN Q(o, [uniq |-> MutsUnique(o), hasprof |-> FALSE])
         ELSE Q(o, [uniq |-> MutsUnique(o), new |-> MutsNew(o, ProfileOf(h[a.prof])), both |-> MutsBoth(o, ProfileOf(h[a.prof])), hasprof |-> TRUE])
    [] op = "NumMutRef" ->
         IF NumMutErr(o.al, o.rows[a.i + 1].s, o.rows[a.refi + 1].s) THEN Fail(o)
         ELSE Q(o, [v |-> NumMut(o.al, o.rows[a.i + 1].s, o.rows[a.refi + 1].s)])
    [] op = "ListMutRef" ->
         IF NumMutErr(o.al, o.rows[a.i + 1].s, o.rows[a.refi + 1].s) THEN Fail(o)
         ELSE Q(o, [muts |-> ListMut(o.al, o.rows[a.i + 1].s, o.rows[a.refi + 1].s)])
    [] op = "CountProfile" -> Q(o, [prof |-> ProfileCounts(o)])
    [] op = "ProfileOnly" -> Q(o, [raw |-> [i \in 1..Width(o) |-> Occ(Col(o, i), a.c)],
                                   fold |-> [i \in 1..Width(o) |-> Occ(ColUp(o, i), Up(a.c))]])
    [] op = "SiteConservation" -> IF SiteConservationErr(o, a.site) THEN Fail(o) ELSE Q(o, [v |-> SiteConservation(o, a.site)])
    [] op = "AlphabetInfo" -> Q(o, [chars |-> AlphaChars(o), idx |-> [k \in 1..Len(a.chars) |-> AlphabetIndex(o, a.chars[k])]])
    [] op = "Identical" -> Q(o, [v |-> /\ Len(o.rows) = Len(h[a.other].rows)
                                       /\ \A r \in 1..Len(o.rows) : HasName(h[a.other], o.rows[r].n)
                                             /\ RowOfName(h[a.other], o.rows[r].n).s = o.rows[r].s])
    \* `goalign stats length | nseq | taxa`: what the container says about itself
    [] op = "Describe" -> Q(o, [len |-> IF IsAlign(o) THEN o.len ELSE -2, nb |-> Len(o.rows),
                                names |-> [i \in 1..Len(o.rows) |-> o.rows[i].n], lens |-> [i \in 1..Len(o.rows) |-> Len(o.rows[i].s)]])
    [] op = "Query" -> Q(o, NoRet)
    \* the ORF search as a producer of an object: which ORF comes back is C16's matter (Phase.tla); here the object only
    \* enters the heap, so that later steps show whether it shares anything with its source (not judged: j = FALSE)
    [] op = "LongestORFObj" -> Res(FALSE, o, <<>>, NoRet, FALSE)

\* comparison of an observed return record with the specified one
RetOK(op, a, exp, obs) ==
  CASE op = "RenameRegexp" -> PairSet(obs.map) = exp.map
    [] op = "Deduplicate" -> ObservedGroups(obs.groups) = exp.groups /\ ObservedGroupTotal(obs.groups) = exp.total
    [] op \in {"InverseCoordinates"} -> obs.starts = exp.starts /\ obs.lens = exp.lens
    [] op \in {"InversePositions"} -> obs.sites = exp.sites
    [] op = "RefSites" -> obs.sites = exp.sites
    [] op = "RefCoordinates" -> obs.start = exp.start /\ obs.len = exp.len
    [] op \in {"RemoveGapSites", "RemoveCharacterSites", "RemoveMajorityCharacterSites"} ->
         /\ Range(obs.kept) = Range(exp.kept) /\ Len(obs.kept) = Len(exp.kept)
         /\ Range(obs.rm) = Range(exp.rm) /\ Len(obs.rm) = Len(exp.rm)
         /\ (Len(exp.kept) = 0 \/ (obs.first = exp.first /\ obs.last = exp.last))
    [] op \in {"RemoveGapSeqs", "RemoveCharacterSeqs"} -> obs.n = exp.n
    [] op \in {"CharStats", "CharStatsSite", "CharStatsSeq"} -> ObsMap(obs.m) = exp.m /\ Len(obs.m) = Cardinality(exp.m)
    [] op \in {"UniqueCharacters", "NbVariableSites", "DetectAlphabet", "Identical", "NumMutRef", "SiteConservation"} -> obs.v = exp.v
    [] op = "AlphabetInfo" -> obs.chars = exp.chars /\ obs.idx = exp.idx
    [] op = "Describe" -> CASE a.what = "nseq" -> obs.nb = exp.nb
                            [] a.what = "taxa" -> obs.names = exp.names
                            [] OTHER -> IF exp.len = -2 THEN obs.names = exp.names /\ obs.lens = exp.lens ELSE obs.len = exp.len
    [] op = "InformativeSites" -> obs.v = exp.v
    [] op \in {"Entropy", "AvgAllelesPerSite"} -> FClose(FParse(obs.f), exp.f, FParse("1e-9"), FParse("1e-12"))
    \* (the command prints three decimals: half a unit of the last one, whoever is asked)
    [] op = "EntropyAll" ->
         LET near(x, y) == FClose(FParse(x), y, FInt(0), FParse("5.0001e-4")) IN
         IF a.avg THEN near(obs.avg, exp.avg)
         ELSE Len(obs.f) = Len(exp.f) /\ \A i \in 1..Len(exp.f) : near(obs.f[i], exp.f[i])
    \* (through the command line the table is printed with three decimals: obs.prec = 3)
    [] op = "Pssm" ->
         LET near(x, y) == IF "prec" \in DOMAIN obs THEN FClose(FParse(x), y, FInt(0), FParse("5.0001e-4"))
                           ELSE FClose(FParse(x), y, FParse("1e-9"), FParse("1e-12")) IN
         /\ Len(obs.m) = Len(exp.cells)
         /\ \A k \in 1..Len(exp.cells) : \E j \in 1..Len(obs.m) :
               /\ obs.m[j].c = exp.cells[k].c /\ Len(obs.m[j].v) = Len(exp.cells[k].v)
               /\ \A i \in 1..Len(exp.cells[k].v) : near(obs.m[j].v[i], exp.cells[k].v[i])
    [] op = "CountDifferences" ->
         /\ {<<obs.all[k][1], obs.all[k][2]>> : k \in 1..Len(obs.all)} = exp.all /\ Len(obs.all) = Cardinality(exp.all)
         /\ Len(obs.rows) = Len(exp.rows)
         /\ \A r \in 1..Len(exp.rows) : {<<obs.rows[r][k][1], obs.rows[r][k][2], obs.rows[r][k][3]>> : k \in 1..Len(obs.rows[r])} = exp.rows[r]
    [] op \in {"NumGapsUnique", "NumMutationsUnique"} ->
         /\ obs.uniq = exp.uniq
         /\ exp.hasprof => obs.new = exp.new /\ obs.both = exp.both
    [] op = "ListMutRef" -> {<<obs.muts[k].r, obs.muts[k].p, obs.muts[k].a>> : k \in 1..Len(obs.muts)} = exp.muts
                            /\ Len(obs.muts) = Cardinality(exp.muts)
    \* one row per distinct character, all rows as long as the alignment, and case-folding the rows gives the folded counts
    \* (that the rows themselves are case-folded is the separate conjunct "folded")
    \* the counts of one character per site: those of the bytes, or the case-folded ones (see "folded"); through the
    \* command line a table "site <TAB> c" / "i <TAB> count": exactly two cells per line
    [] op = "ProfileOnly" ->
         LET n == IF "table" \in DOMAIN obs
                  THEN IF /\ Len(obs.table) = Len(exp.raw) + 1
                          /\ \A k \in 1..Len(obs.table) : Len(obs.table[k]) = 2
                          /\ obs.table[1] = <<<<115, 105, 116, 101>>, <<a.c>>>>
                          /\ \A k \in 2..Len(obs.table) : obs.table[k][1] = DecOf(k - 2) /\ IsDec(obs.table[k][2])
                       THEN [k \in 1..Len(exp.raw) |-> DecVal(obs.table[k + 1][2])] ELSE <<-1>>
                  ELSE obs.n
         IN n = exp.raw \/ n = exp.fold
    [] op = "CountProfile" -> /\ Cardinality({obs.prof[k].c : k \in 1..Len(obs.prof)}) = Len(obs.prof)
                              /\ \A k \in 1..Len(obs.prof) : Len(obs.prof[k].n) = Len(obs.prof[1].n)
                              /\ FoldObservedProfile(obs.prof) = exp.prof
    [] OTHER -> TRUE

\* operations that create an object the machine does not predict (the object is taken as observed)
UnjudgedCreators == {"LongestORFObj"}

\* ---- the command-line front ---------------------------------------------------------------------------
\* `goalign <command>` reads the receiver from a file, applies the operation it fronts and prints the outcome:
\* from the heap's point of view a read-only step that creates one object -- what the operation leaves in the
\* receiver (or the object it creates), read back with the receiver's alphabet and the default duplicate policy --
\* and that fails exactly when the operation fails.  R is the transition of the fronted operation.
CliObj(x, o) == [x EXCEPT !.pol = 0, !.al = o.al,
                          !.len = IF x.k = "align" THEN (IF Len(x.rows) = 0 THEN -1 ELSE Len(x.rows[1].s)) ELSE x.len]
\* `goalign split`: the partition file is read against the alignment's own length, every site must belong to a partition
\* (CheckSites), and one file per partition is written
CliSplit(o, a) ==
  LET part == PartitionOf(o.len, a.ranges) IN
  IF part.err \/ (\E i \in 1..o.len : part.vec[i] = -1) THEN Fail(o)
  ELSE LET R == SplitOp(o, o.len, part) IN
       IF R.err THEN Fail(o) ELSE Res(FALSE, o, [k \in 1..Len(R.new) |-> CliObj(R.new[k], o)], NoRet, TRUE)
\* commands that print numbers (tables of counts, majority characters, ...): nothing is read back, the printed values
\* are the return record of the query
CliQueryOps == {"CharStats", "CharStatsSeq", "CountProfile", "ProfileOnly", "MaxCharStats", "AvgAllelesPerSite",
                "NumMutRef", "ListMutRef", "NumGapsUnique", "NumMutationsUnique", "CountDifferences", "NbVariableSites", "EntropyAll", "Pssm", "Describe"}
CliOf(op, o, R) ==
  IF R.err THEN Fail(o)
  ELSE IF op \in CliQueryOps THEN Res(FALSE, o, <<>>, R.ret, R.j)
  ELSE Res(FALSE, o, <<CliObj(IF Len(R.new) > 0 THEN R.new[1] ELSE R.o, o)>>, R.ret, R.j)
\* operations that have a command-line twin in the harness (harness/heap_cli.go)
CliOps == {"RemoveGapSites", "RemoveCharacterSites", "RemoveMajorityCharacterSites", "RemoveGapSeqs", "RemoveCharacterSeqs",
           "ReverseComplement", "ReverseComplementSequences", "Sort", "Consensus", "DiffWithFirst", "ReplaceMatchChars", "Translate", "TranslateByReference",
           "Deduplicate", "Compress", "Mask", "MaskPositions", "MaskOccurences", "MaskUnique", "SubAlign", "Replace",
           "ShuffleSequences", "Swap", "Recombine", "Mutate", "AddGaps", "Sample", "SampleSeqBag", "RandSubAlign",
           "Rename", "RenameRegexp", "CleanNames", "TrimNames", "TrimNamesAuto", "AppendSeqIdentifier", "TrimSequences",
           "Unalign", "Transpose", "RefCoordinates", "Split", "SelectSites", "RefSites", "InversePositions", "CodonAlign", "InverseCoordinates",
           "Concat", "Append", "ToUpper", "ToLower", "ShuffleSites", "SimulateRogue", "BuildBootstrap", "Extract", "Rarefy"} \cup CliQueryOps
\* relations that need the part of the return record the command writes to a side file
CliNeedsRet == {"Compress", "CleanNames", "TrimNames", "TrimNamesAuto", "ShuffleSites", "SimulateRogue"}

CliCreators == {"Consensus", "SubAlign", "Sample", "SampleSeqBag", "RandSubAlign", "Unalign", "Transpose", "CodonAlign", "BuildBootstrap", "Extract", "Rarefy"}      \* the command prints the object the operation creates, not the receiver

\* the clauses of the properties that a return value meets only in case-folded form
FoldedOK(op, a, exp, obs) ==
  CASE op = "CountProfile" -> {<<obs.prof[k].c, obs.prof[k].n>> : k \in 1..Len(obs.prof)} = exp.prof
    [] OTHER -> TRUE

\* ---- relational operations: is the observed outcome allowed? ---------------------------------------
\* pre = receiver before, post = receiver after, new = sequence of created objects, ret = observed return
ErrRel(h, op, recv, a) ==      \* must the call fail?
  LET o == h[recv] IN
  CASE op \in {"Sample", "SampleSeqBag"} -> SampleErr(o, a.nb)
    [] op = "TrimNames" -> TrimNamesErr(o, a.size)
    [] op = "Mask" -> MaskErr(o, a.ref, a.start, a.repl, a.noref)
    [] op = "MaskPositions" -> MaskPosErr(o, a.ref, a.pos, a.repl, a.noref)
    [] op = "MaskOccurences" -> MaskOccErr(o, a.ref, a.repl)
    [] op = "MaskUnique" -> MaskOccErr(o, a.ref, a.repl)
    [] op = "Swap" -> a.rp < 0 \/ a.rp > a.rq
    [] op = "RandSubAlign" -> RandSubErr(o, a.len)
    [] op = "Recombine" -> RecombineErr(a.pp, a.pq, a.lp, a.lq)
    [] op = "TranslateByReference" -> a.ref = <<>> \/ ~HasName(o, a.ref) \/ o.al # NUCLEOTIDS \/ ~ValidCode(a.code) \/ a.frame < 0
    [] op = "CodonAlign" -> o.al # AMINOACIDS \/ h[a.nt].al # NUCLEOTIDS \/ ~CodonAlignFits(o, h[a.nt])
    [] OTHER -> FALSE
Allowed(h, op, recv, a, post, new, ret) ==
  LET pre == h[recv] IN
  CASE op = "ShuffleSequences" -> IsRowPermutation(pre, post) /\ new = <<>>
    [] op \in {"Sample", "SampleSeqBag"} -> post = pre /\ Len(new) = 1 /\ AllowedSample(pre, a.nb, new[1])
    [] op = "CleanNames" -> AllowedCleanNames(pre, post, PairSet(ret.map)) /\ new = <<>>
    [] op = "TrimNames" -> new = <<>> /\ (IF "prev" \in DOMAIN a THEN AllowedTrimShared(pre, post, PairSet(ret.map), a.size, PairSet(a.prev))
                                          ELSE AllowedTrim(pre, post, PairSet(ret.map), a.size))
    [] op = "TrimNamesAuto" -> AllowedTrim(pre, post, PairSet(ret.map), -1) /\ new = <<>>
    [] op = "Compress" -> AllowedCompress(pre, post, ret.w) /\ new = <<>>
    [] op = "Mask" -> AllowedMask(pre, post, a.ref, a.start, a.len, a.repl, a.nogap, a.noref) /\ new = <<>>
    [] op = "MaskPositions" -> AllowedMaskPos(pre, post, a.ref, a.pos, a.repl, a.nogap, a.noref) /\ new = <<>>
    [] op = "MaskOccurences" -> AllowedMaskOcc(pre, post, a.ref, a.max, a.repl) /\ new = <<>>
    [] op = "MaskUnique" -> AllowedMaskOcc(pre, post, a.ref, 1, a.repl) /\ new = <<>>
    [] op = "MaxCharStats" -> post = pre /\ new = <<>> /\ AllowedMaxChar(pre, a.igaps, a.ins, ret.out, ret.occur, ret.total)
    [] op = "Consensus" -> post = pre /\ Len(new) = 1 /\ AllowedConsensus(pre, a.igaps, a.ins, new[1])
    [] op = "ShuffleSites" -> AllowedShuffleSites(pre, post, ret.rogues, IntOfFrac(a.gp, a.gq, Len(pre.rows))) /\ new = <<>>
    [] op = "Swap" -> AllowedSwap(pre, post) /\ new = <<>>
    [] op = "SimulateRogue" ->
         /\ new = <<>>
         /\ IF a.pp < 0 \/ a.pp > a.pq \/ a.lp < 0 \/ a.lp > a.lq THEN post = pre /\ ret.nil
            ELSE ~ret.nil /\ AllowedRogue(pre, post, ret.rogue, ret.intact,
                                          IF a.lp = 0 THEN 0 ELSE IntOfFrac(a.pp, a.pq, Len(pre.rows)))
    [] op = "BuildBootstrap" ->
         post = pre /\ Len(new) = 1 /\
         AllowedBootstrap(pre, new[1], IF a.fp <= 0 \/ a.fp > a.fq THEN Width(pre) ELSE IntOfFrac(a.fp, a.fq, Width(pre))) /\
         \* `build seqboot --partition` (two blocks, the first a.part columns and the rest): each block of the replicate is
         \* a bootstrap of the same block of the alignment
         ("part" \in DOMAIN a =>
            LET k == a.part  W == Width(pre)
                blk(o, s, n) == SubAlignOp(o, s, n).new[1] IN
            /\ Width(new[1]) = W
            /\ AllowedBootstrap(blk(pre, 0, k), blk(new[1], 0, k), k)
            /\ AllowedBootstrap(blk(pre, k, W - k), blk(new[1], k, W - k), W - k))
    [] op = "RandSubAlign" -> post = pre /\ Len(new) = 1 /\ AllowedRandSub(pre, new[1], a.len, a.consecutive)
    [] op = "Mutate" -> AllowedMutate(pre, post) /\ new = <<>> /\ (a.rp <= 0 => post = pre)
    [] op = "AddGaps" ->
         /\ new = <<>>
         /\ IF a.pp < 0 \/ a.pp > a.pq \/ a.lp < 0 \/ a.lp > a.lq THEN post = pre
            ELSE AllowedAddGaps(pre, post, IntOfFrac(a.pp, a.pq, Len(pre.rows)), IntOfFrac(a.lp, a.lq, Width(pre)))
    [] op = "Recombine" -> AllowedRecombine(pre, post) /\ new = <<>>
    [] op = "Rarefy" -> post = pre /\ Len(new) = 1 /\ AllowedRarefy(pre, new[1], {a.counts[k].n : k \in 1..Len(a.counts)})
    [] op = "TranslateByReference" -> new = <<>> /\ AllowedTBR(pre, post, a.ref, a.frame, a.code)
    [] op = "CodonAlign" -> post = pre /\ Len(new) = 1 /\ AllowedCodonAlign(pre, h[a.nt], new[1], a.code)

\* ---- duplicate-name policy of the objects after a step (not observable through the API) ------------
PolAfter(h, op, recv, a, n) ==     \* n = number of objects afterwards
  [i \in 1..n |->
     IF i <= Len(h) THEN (IF op = "IgnoreIdentical" /\ i = recv THEN NormPol(a.pol) ELSE h[i].pol)
     ELSE IF op \in {"Clone", "CloneSeqBag"} THEN h[recv].pol
     ELSE IF op = "New" THEN NormPol(a.pol) ELSE 0]
=============================================================================
