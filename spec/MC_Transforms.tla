---------------------------- MODULE MC_Transforms ----------------------------
(***************************************************************************)
(* Design-level lemmas behind property C06, checked exhaustively by TLC on  *)
(* the specification alone: for every sequence of length <= 3 over the      *)
(* 33-symbol DNA domain (IUPAC codes in both cases, '-', '.', '*'; U is      *)
(* outside the property's quantifier because it complements to A).          *)
(***************************************************************************)
EXTENDS Goalign

CONSTANT MaxLen
VARIABLE s
Dna == {65,67,71,84,82,89,83,87,75,77,66,68,72,86,78, 97,99,103,116,114,121,115,119,107,109,98,100,104,118,110, 45,46,42}
Init == s \in UNION {[1..k -> Dna] : k \in 0..MaxLen}
Next == UNCHANGED s
Obj(x) == [k |-> "align", al |-> NUCLEOTIDS, pol |-> 0, len |-> Len(x), rows |-> <<[n |-> <<97>>, s |-> x], [n |-> <<98>>, s |-> Rev(x)]>>]

Involution   == RevCompS(RevCompS(s)) = s
KeepsShape   == /\ Len(RevCompS(s)) = Len(s)
                /\ \A i \in 1..Len(s) : LET c == s[i]  d == RevCompS(s)[Len(s) + 1 - i] IN
                     /\ (c = GAP) <=> (d = GAP)
                     /\ IsLowerL(c) <=> IsLowerL(d)
                     /\ IsUpperL(c) <=> IsUpperL(d)
                     /\ IsIupacNt(c) => IupacSet(Up(d)) = {BaseComp(b) : b \in IupacSet(Up(c))}
CaseIdem     == UpS(UpS(s)) = UpS(s) /\ LoS(LoS(s)) = LoS(s) /\ Len(UpS(s)) = Len(s)
CaseOnly     == \A i \in 1..Len(s) : Up(UpS(s)[i]) = Up(s[i]) /\ Up(LoS(s)[i]) = Up(s[i])
UngapKept    == /\ Ungap(UpS(s)) = UpS(Ungap(s)) /\ Ungap(LoS(s)) = LoS(Ungap(s))
                /\ Ungap(RevCompS(s)) = RevCompS(Ungap(s))
                /\ \A i \in 1..Len(Ungap(s)) : Ungap(s)[i] # GAP
\* object level: whole-alignment and named-subset variants agree; naming a row twice is the identity;
\* unknown names change nothing
ObjLevel     == LET o == Obj(s) IN
                /\ RevCompOp(RevCompOp(o).o).o = o
                /\ RevCompNamesOp(o, <<<<97>>, <<98>>>>).o = RevCompOp(o).o
                /\ RevCompNamesOp(o, <<<<97>>, <<97>>>>).o = o
                /\ RevCompNamesOp(o, <<<<122>>>>).o = o
                /\ RevCompNamesOp(o, <<<<97>>>>).o.rows[2] = o.rows[2]
                /\ SeqsOf(UnalignOp(o).new[1]) = <<Ungap(s), Ungap(Rev(s))>>
=============================================================================
