-------------------------------- MODULE Gen_Parse --------------------------------
(***************************************************************************)
(* TLC as generator of parser inputs at the token level (property C03): for  *)
(* every parser, every prefix of a valid file (cut at a token boundary),     *)
(* followed by up to MaxExtra tokens of that parser's vocabulary, followed    *)
(* either by nothing (truncation) or by the rest of the valid file (splice).  *)
(* The bytes are given to the real parser with every option combination the   *)
(* case carries; Trace_Parse validates the outcome.                          *)
(***************************************************************************)
EXTENDS Integers, Sequences, FiniteSets, SequencesExt, ParseTokens, Json, TLC
CONSTANT MaxExtra
VARIABLES c
Flat(ts) == FoldLeft(LAMBDA acc, t : acc \o t, <<>>, ts)
ExtraSeqs(p) == UNION {[1..k -> 1..Len(ExtraTokens(p))] : k \in 0..MaxExtra}
Bytes(p, k, ex, rest) ==
  Flat(SubSeq(ValidTokens(p), 1, k)) \o Flat([i \in 1..Len(ex) |-> ExtraTokens(p)[ex[i]]])
     \o (IF rest THEN Flat(SubSeq(ValidTokens(p), k + 1, Len(ValidTokens(p)))) ELSE <<>>)
FmtOf(p) == IF p = "phylip" THEN {"phylip", "phylipmulti"} ELSE IF p = "fasta" THEN {"fasta", "fastaseq"} ELSE {p}
Cases == UNION {{[fmt |-> f, strict |-> st, pol |-> pol, alpha |-> 2, plen |-> 6, bytes |-> Bytes(p, k, ex, rest), decl |-> <<>>] :
                    f \in FmtOf(p), st \in (IF p = "phylip" THEN {TRUE, FALSE} ELSE {FALSE}), pol \in {0, 1},
                    k \in 0..Len(ValidTokens(p)), ex \in ExtraSeqs(p), rest \in {TRUE, FALSE}} : p \in Parsers}
Init == c \in Cases
Next == UNCHANGED c
Emit == PrintT(ToJson(c))
=============================================================================
