-------------------------------- MODULE Trace_Runs --------------------------------
(* Total trace validation of a history of command-line runs against RunHistory. e = [key, out, cmd, threads, rep, procs] *)
EXTENDS RunHistory, Json, IOUtils
Trace == ndJsonDeserialize(IOEnv.TRACE)
VARIABLES l, bad
Init == l = 1 /\ bad = <<>> /\ seen = <<>>
Next == /\ l <= Len(Trace)
        /\ LET e == Trace[l] IN
           /\ Run(e.key, e.out, l)
           /\ bad' = IF e.kind = "ok" /\ Reproduces(e.key, e.out) THEN bad
                     ELSE Append(bad, [i |-> l, failing |-> IF e.kind # "ok" THEN <<"runs">> ELSE <<"reproducible">>, first |-> IF Known(e.key) THEN seen[e.key].at ELSE 0])
        /\ l' = l + 1
Spec == Init /\ [][Next]_<<l, bad, seen>>
Done == l = Len(Trace) + 1 => PrintT(<<"RESULT", ToJson([consumed |-> l - 1, bad |-> bad, keys |-> Cardinality(DOMAIN seen)])>>)
=============================================================================
