---------------------------- MODULE Trace_PhaseConc ----------------------------
(* Validation of free-running executions of align.Phase against PhaseConc: per-goroutine hook logs, interleaving search, *)
(* the consumer's receptions and the closer's draining are silent steps.  Same acceptance idiom as Trace_Conc.          *)
EXTENDS PhaseConc, Json, IOUtils, TLC
Runs == ndJsonDeserialize(IOEnv.TRACE)
VARIABLES t, pos
tvars == <<t, pos>>
Logs == Runs[t].logs
Consumed == \A g \in 1..Len(Logs) : pos[g] = Len(Logs[g].ev) + 1
InitPos(k) == [g \in 1..Len(Runs[k].logs) |-> 1]
TInit == t = 1 /\ pos = InitPos(1) /\ InitWith(Runs[1].cfg)
Event(g) ==
  LET e == Logs[g].ev[pos[g]]  w == Logs[g].w IN
  CASE e.pt = "ph.f.send"   -> ph_f_send(e.a)
    [] e.pt = "ph.f.close"  -> ph_f_close
    [] e.pt = "ph.w.start"  -> ph_w_start(w)
    [] e.pt = "ph.w.recv"   -> ph_w_recv(w, e.a)
    [] e.pt = "ph.w.result" -> ph_w_result(w) /\ cur[w] = e.a
    \* (the hook after the send: the model delivers the result in the same step as the decision, nothing is left to do)
    [] e.pt = "ph.w.sent"   -> wpc[w] = "idle" /\ cur[w] = e.a /\ UNCHANGED vars
    [] e.pt = "ph.w.fail"   -> ph_w_fail(w) /\ cur[w] = e.a
    [] e.pt = "ph.w.stop"   -> ph_w_stop(w) /\ cur[w] = e.a
    [] e.pt = "ph.w.done"   -> ph_w_done(w)
    [] e.pt = "ph.c.wait"   -> ph_c_wait
    [] e.pt = "ph.c.close"  -> ph_c_close
    [] OTHER -> FALSE
Step == \E g \in 1..Len(Logs) : pos[g] <= Len(Logs[g].ev) /\ Event(g) /\ pos' = [pos EXCEPT ![g] = @ + 1] /\ t' = t
Silent == (k_recv \/ c_drain) /\ UNCHANGED tvars
\* the run is explained and the caller observed what the model delivers: the same results, the same error flag
NextRun ==
  /\ Consumed /\ Finished
  /\ {got[i] : i \in 1..Len(got)} = {Runs[t].got[i] : i \in 1..Len(Runs[t].got)} /\ Len(got) = Len(Runs[t].got) /\ gotErr = Runs[t].goterr
  /\ PrintT(<<"ACCEPTED", t>>)
  /\ t' = t + 1
  /\ IF t + 1 <= Len(Runs)
     THEN LET c == Runs[t + 1].cfg IN
          /\ pos' = InitPos(t + 1) /\ cfg' = c /\ fpc' = "run" /\ nxt' = 1 /\ sch' = <<>> /\ sclosed' = FALSE
          /\ wpc' = [w \in 1..c.nw |-> "new"] /\ cur' = [w \in 1..c.nw |-> 0] /\ failed' = FALSE
          /\ out' = <<>> /\ oclosed' = FALSE /\ wgc' = c.nw /\ cpc' = "waiting" /\ got' = <<>> /\ gotErr' = FALSE
     ELSE UNCHANGED <<pos, cfg, fpc, nxt, sch, sclosed, wpc, cur, failed, out, oclosed, wgc, cpc, got, gotErr>>
TNext == t <= Len(Runs) /\ (Step \/ Silent \/ NextRun)
NotAllAccepted == t <= Len(Runs)
=============================================================================
