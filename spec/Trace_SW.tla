------------------------------- MODULE Trace_SW -------------------------------
(* Total trace validation for pairwise alignment events (C09): every event is judged against SWChecks; the names of *)
(* the violated conjuncts are collected, nothing blocks.                                                            *)
EXTENDS SW, Json, IOUtils, TLC
Trace == ndJsonDeserialize(IOEnv.TRACE)
VARIABLES l, bad
Init == l = 1 /\ bad = <<>>
\* the aligner picks its table from the detected alphabets of the two inputs: the event is judged when that choice is
\* the scheme's (both nucleotide-compatible for "dna"; both protein-compatible and not both nucleotide-compatible for "prot")
ModeOK(e) ==
  LET d1 == DetectSeqs(<<e.s1>>)  d2 == DetectSeqs(<<e.s2>>)
      nt == d1 \in {NUCLEOTIDS, BOTH} /\ d2 \in {NUCLEOTIDS, BOTH}
      aa == d1 \in {AMINOACIDS, BOTH} /\ d2 \in {AMINOACIDS, BOTH}
  IN CASE e.sch.mode = "dna" -> nt [] e.sch.mode = "prot" -> aa /\ ~nt [] OTHER -> nt \/ aa
Failing(e) ==
  IF ~ModeOK(e) \/ Len(e.s1) = 0 \/ Len(e.s2) = 0 THEN {}
  ELSE IF e.kind = "panic" THEN {"noPanic"}
  ELSE IF e.kind = "err" THEN (IF InAlphabet(e.sch, e.s1) /\ InAlphabet(e.sch, e.s2) /\ Len(e.s1) > 0 /\ Len(e.s2) > 0 THEN {"noError"} ELSE {})
  ELSE IF ~(InAlphabet(e.sch, e.s1) /\ InAlphabet(e.sch, e.s2)) THEN {"errClass"}
  ELSE LET ch == SWChecks(e.sch, e.s1, e.s2, e.obs) IN {k \in DOMAIN ch : ~ch[k]}
Next == /\ l <= Len(Trace)
        /\ LET f == Failing(Trace[l]) IN bad' = IF f = {} THEN bad ELSE Append(bad, [i |-> l, failing |-> SetToSeq(f)])
        /\ l' = l + 1
Spec == Init /\ [][Next]_<<l, bad>>
Done == l = Len(Trace) + 1 => PrintT(<<"RESULT", ToJson([consumed |-> l - 1, bad |-> bad])>>)
=============================================================================
