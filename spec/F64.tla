------------------------------- MODULE F64 -------------------------------
(***************************************************************************)
(* IEEE-754 binary64 arithmetic for TLC.  A double is the pair <<hi, lo>>  *)
(* of the two signed 32-bit halves of its bit pattern.  Every operator is  *)
(* overridden by F64.class (next to this file, built by setup from         *)
(* F64.java): one java.lang.Math / primitive call each, so results are     *)
(* correctly rounded doubles, the same arithmetic the Go code under test   *)
(* uses.  The TLA+ bodies below are never evaluated; they only give SANY   *)
(* the arities.                                                            *)
(***************************************************************************)
LOCAL INSTANCE Integers
LOCAL INSTANCE Sequences

FInt(n)      == <<0, n>>          \* int -> double
FRat(n, d)   == <<n, d>>          \* n/d as double
FParse(s)    == <<0, 0>>          \* decimal string (Go 'g' -1 format, "NaN", "+Inf", "-Inf") -> double
FStr(x)      == "0"               \* double -> shortest round-trip decimal string
FAdd(a, b)   == a
FSub(a, b)   == a
FMul(a, b)   == a
FDiv(a, b)   == a
FNeg(a)      == a
FAbs(a)      == a
FLn(a)       == a
FExp(a)      == a
FPow(a, b)   == a
FSqrt(a)     == a
FMin(a, b)   == a
FMax(a, b)   == a
FLt(a, b)    == TRUE
FLe(a, b)    == TRUE
FEq(a, b)    == TRUE              \* numeric equality (NaN # NaN, -0 = +0)
FIsNaN(a)    == TRUE
FIsInf(a)    == TRUE
FIsFinite(a) == TRUE
FTrunc(a)    == 0                 \* Go int(x): truncation toward zero (|x| < 2^31)
FSum(s)      == <<0, 0>>          \* left-to-right sum of a sequence of doubles
FDot(u, v)   == <<0, 0>>          \* left-to-right sum of products
FClose(a, b, rel, abs) == TRUE    \* |a-b| <= abs + rel*max(|a|,|b|), both finite; or same NaN/Inf class
Strict(v)    == v                 \* identity that forces a value into explicit tuples/records (defeats laziness)
=============================================================================
