-------------------------------- MODULE DnaDist --------------------------------
(***************************************************************************)
(* Nucleotide evolutionary distances (properties C07, C08).                  *)
(*                                                                          *)
(* Counting layer - exact integers.  A residue is its IUPAC base set ({} for *)
(* '-', '*', 'X', '.'); site weights are integers in quarter units (no       *)
(* weights = 4 everywhere), ambiguity shares are counted in twelfths.        *)
(* Estimator layer - IEEE doubles through F64: the published closed forms    *)
(* (Jukes-Cantor 1969, Kimura 1980, Felsenstein 1981, Felsenstein 1984 in    *)
(* PHYLIP's a/b/c form, Tamura-Nei 1993) and their gamma variants            *)
(* (-ln x  |->  alpha (x^(-1/alpha) - 1)).                                   *)
(* Matrix layer - symmetry, zero diagonal, sequence ranges, and the class    *)
(* of an undefined estimate (NaN, or twice the largest defined entry).       *)
(***************************************************************************)
EXTENDS Residues, F64

NtSet(c) == IF Up(c) \in IupacLetters THEN IupacSet(Up(c)) ELSE {}
Encodable(c) == Up(c) \in IupacLetters \/ c \in {GAP, STAR, POINT} \/ Up(c) = chX
Nuc(S) == S # {}
Ambig(S) == Cardinality(S) > 1
Pur == {chA, chG}
Pyr == {chC, chT}
SumOver(S, f(_)) == FoldLeft(LAMBDA acc, x : acc + f(x), 0, SetToSeq(S))

\* ---- site selection and weights ------------------------------------------------------------------
\* rm-gaps keeps the sites where every row is one of A C G T (either case)
SelectedSites(rows, rmgaps) ==
  {l \in 1..Len(rows[1]) : ~rmgaps \/ \A r \in 1..Len(rows) : Up(rows[r][l]) \in Bases}
Wq(wts, l) == IF wts = <<>> THEN 4 ELSE wts[l]

\* ---- pairwise counters ---------------------------------------------------------------------------
Differ(S1, S2) == S1 # S2 /\ S1 \cap S2 = {}          \* a counted difference: the two base sets are disjoint
FirstNuc(s) == IF \E l \in 1..Len(s) : Nuc(NtSet(s[l])) THEN CHOOSE l \in 1..Len(s) : Nuc(NtSet(s[l])) /\ \A k \in 1..(l - 1) : ~Nuc(NtSet(s[k])) ELSE Len(s) + 1
LastNuc(s)  == IF \E l \in 1..Len(s) : Nuc(NtSet(s[l])) THEN CHOOSE l \in 1..Len(s) : Nuc(NtSet(s[l])) /\ \A k \in (l + 1)..Len(s) : ~Nuc(NtSet(s[k])) ELSE 0
\* sites compared by the three gap-counting modes: 0 = both residues are nucleotides; 2 = at least one is;
\* 1 = at least one is, between the later first nucleotide and the earlier last nucleotide of the two rows
Eligible(s1, s2, sel, mode) ==
  {l \in sel : LET a == Nuc(NtSet(s1[l]))  b == Nuc(NtSet(s2[l])) IN
               CASE mode = 0 -> a /\ b
                 [] mode = 2 -> a \/ b
                 [] mode = 1 -> (a \/ b) /\ l >= FirstNuc(s1) /\ l >= FirstNuc(s2) /\ l <= LastNuc(s1) /\ l <= LastNuc(s2)}
DiffCounts(s1, s2, sel, wts, mode, rmamb) ==      \* [diff, total] in quarter units
  LET E == Eligible(s1, s2, sel, mode)
      D == {l \in E : Differ(NtSet(s1[l]), NtSet(s2[l]))}
      X == {l \in E \ D : rmamb /\ (Ambig(NtSet(s1[l])) \/ Ambig(NtSet(s2[l])))}      \* undecidable sites are not counted in the length
  IN [diff |-> SumOver(D, LAMBDA l : Wq(wts, l)), total |-> SumOver(E \ X, LAMBDA l : Wq(wts, l))]
\* transitions, transversions, A<->G, C<->T among the sites where both residues are nucleotides
MutCounts(s1, s2, sel, wts) ==
  LET E == Eligible(s1, s2, sel, 0)
      S(l) == <<NtSet(s1[l]), NtSet(s2[l])>>
      tv(l) == S(l)[1] # S(l)[2] /\ ((S(l)[1] \subseteq Pur /\ S(l)[2] \subseteq Pyr) \/ (S(l)[1] \subseteq Pyr /\ S(l)[2] \subseteq Pur))
      ag(l) == {S(l)[1], S(l)[2]} = {{chA}, {chG}}
      ct(l) == {S(l)[1], S(l)[2]} = {{chC}, {chT}}
      w(l) == Wq(wts, l)
  IN [ts |-> SumOver({l \in E : ag(l) \/ ct(l)}, w), tv |-> SumOver({l \in E : tv(l)}, w),
      ag |-> SumOver({l \in E : ag(l)}, w), ct |-> SumOver({l \in E : ct(l)}, w), total |-> SumOver(E, w)]

\* ---- base frequencies of the alignment: ambiguity codes share their weight among their bases ---------
BaseOrder == <<chA, chC, chG, chT>>
FreqNum(rows, sel, wts, b) ==
  SumOver({<<r, l>> \in (1..Len(rows)) \X sel : b \in NtSet(rows[r][l])},
          LAMBDA c : Wq(wts, c[2]) * (12 \div Cardinality(NtSet(rows[c[1]][c[2]]))))
FreqDen(rows, sel, wts) ==
  SumOver({<<r, l>> \in (1..Len(rows)) \X sel : Nuc(NtSet(rows[r][l]))}, LAMBDA c : Wq(wts, c[2]) * 12)
Freqs(rows, sel, wts) == LET d == FreqDen(rows, sel, wts) IN [k \in 1..4 |-> FRat(FreqNum(rows, sel, wts, BaseOrder[k]), d)]

\* ---- estimators ------------------------------------------------------------------------------------
One == FInt(1)
\* -ln(x), or its gamma-corrected counterpart alpha (x^(-1/alpha) - 1)
\* (undefined - NaN - for a negative argument in both forms: the pair is saturated; +Inf at 0)
NaN == FParse("NaN")
NegLn(x, gamma, alpha) == IF FLt(x, FInt(0)) THEN NaN
                          ELSE IF gamma THEN FMul(alpha, FSub(FPow(x, FDiv(FInt(-1), alpha)), One)) ELSE FNeg(FLn(x))
Ratio(n, d) == FRat(n, d)
JC69(p, g, a) == FMul(FRat(3, 4), NegLn(FSub(One, FMul(FRat(4, 3), p)), g, a))
K2P(P, Q, g, a) == FAdd(FMul(FRat(1, 2), NegLn(FSub(FSub(One, FMul(FInt(2), P)), Q), g, a)),
                        FMul(FRat(1, 4), NegLn(FSub(One, FMul(FInt(2), Q)), g, a)))
F81(p, pi, g, a) == LET B == FSub(One, FSum([k \in 1..4 |-> FMul(pi[k], pi[k])])) IN FMul(B, NegLn(FSub(One, FDiv(p, B)), g, a))
F84(P, Q, pi, g, a) ==
  LET piR == FAdd(pi[1], pi[3])  piY == FAdd(pi[2], pi[4])
      A == FAdd(FDiv(FMul(pi[1], pi[3]), piR), FDiv(FMul(pi[2], pi[4]), piY))
      B == FAdd(FMul(pi[1], pi[3]), FMul(pi[2], pi[4]))
      C == FMul(piR, piY)
      x1 == FSub(FSub(One, FDiv(P, FMul(FInt(2), A))), FDiv(FMul(FSub(A, B), Q), FMul(FMul(FInt(2), A), C)))
      x2 == FSub(One, FDiv(Q, FMul(FInt(2), C)))
  IN FAdd(FMul(FMul(FInt(2), A), NegLn(x1, g, a)), FMul(FMul(FInt(2), FSub(FAdd(B, C), A)), NegLn(x2, g, a)))
TN93(P1, P2, Q, pi, g, a) ==
  LET piR == FAdd(pi[1], pi[3])  piY == FAdd(pi[2], pi[4])
      ag == FMul(pi[1], pi[3])  ct == FMul(pi[2], pi[4])
      x1 == FSub(FSub(One, FDiv(FMul(piR, P1), FMul(FInt(2), ag))), FDiv(Q, FMul(FInt(2), piR)))
      x2 == FSub(FSub(One, FDiv(FMul(piY, P2), FMul(FInt(2), ct))), FDiv(Q, FMul(FInt(2), piY)))
      x3 == FSub(One, FDiv(Q, FMul(FInt(2), FMul(piR, piY))))
      k3 == FSub(FSub(FMul(piR, piY), FDiv(FMul(ag, piY), piR)), FDiv(FMul(ct, piR), piY))
  IN FAdd(FAdd(FMul(FDiv(FMul(FInt(2), ag), piR), NegLn(x1, g, a)), FMul(FDiv(FMul(FInt(2), ct), piY), NegLn(x2, g, a))),
          FMul(FMul(FInt(2), k3), NegLn(x3, g, a)))

\* o = [model, gamma, alpha, rmgaps, gapmode, rmamb, wts]; the estimate for rows i, j
Estimate(rows, o, pi, sel, i, j) ==
  LET s1 == rows[i]  s2 == rows[j]
      mode == IF o.model \in {"pdist", "rawdist"} THEN o.gapmode ELSE 0
      dc == DiffCounts(s1, s2, sel, o.wts, mode, o.model = "pdist" /\ o.rmamb)
      mc == MutCounts(s1, s2, sel, o.wts)
      p  == Ratio(dc.diff, dc.total)
      a  == FParse(o.alpha)
  IN CASE o.model = "rawdist" -> FRat(dc.diff, 4)
       [] o.model = "pdist" -> p
       [] o.model = "jc" -> JC69(p, o.gamma, a)
       [] o.model = "f81" -> F81(p, pi, o.gamma, a)
       [] o.model = "k2p" -> K2P(Ratio(mc.ts, mc.total), Ratio(mc.tv, mc.total), o.gamma, a)
       [] o.model = "f84" -> F84(Ratio(mc.ts, mc.total), Ratio(mc.tv, mc.total), pi, o.gamma, a)
       [] o.model = "tn93" -> TN93(Ratio(mc.ag, mc.total), Ratio(mc.ct, mc.total), Ratio(mc.tv, mc.total), pi, o.gamma, a)
\* the arguments of the logarithms (of the powers, with gamma) of the pair's estimate.  An argument that is zero up to
\* rounding puts the pair ON the saturation boundary: the sign of the computed argument - hence defined-and-huge versus
\* undefined - depends on the order of floating-point operations, so both outcomes are a correct answer for such a pair.
LogArgs(rows, o, pi, sel, i, j) ==
  LET s1 == rows[i]  s2 == rows[j]
      dc == DiffCounts(s1, s2, sel, o.wts, 0, FALSE)
      mc == MutCounts(s1, s2, sel, o.wts)
      p  == Ratio(dc.diff, dc.total)
      P  == Ratio(mc.ts, mc.total)  Q == Ratio(mc.tv, mc.total)
  IN CASE o.model = "jc" -> <<FSub(One, FMul(FRat(4, 3), p))>>
       [] o.model = "f81" -> LET B == FSub(One, FSum([k \in 1..4 |-> FMul(pi[k], pi[k])])) IN <<FSub(One, FDiv(p, B))>>
       [] o.model = "k2p" -> <<FSub(FSub(One, FMul(FInt(2), P)), Q), FSub(One, FMul(FInt(2), Q))>>
       [] o.model = "f84" ->
            LET piR == FAdd(pi[1], pi[3])  piY == FAdd(pi[2], pi[4])
                A == FAdd(FDiv(FMul(pi[1], pi[3]), piR), FDiv(FMul(pi[2], pi[4]), piY))
                B == FAdd(FMul(pi[1], pi[3]), FMul(pi[2], pi[4]))
                C == FMul(piR, piY)
            IN <<FSub(FSub(One, FDiv(P, FMul(FInt(2), A))), FDiv(FMul(FSub(A, B), Q), FMul(FMul(FInt(2), A), C))),
                 FSub(One, FDiv(Q, FMul(FInt(2), C)))>>
       [] o.model = "tn93" ->
            LET piR == FAdd(pi[1], pi[3])  piY == FAdd(pi[2], pi[4])
                ag == FMul(pi[1], pi[3])  ct == FMul(pi[2], pi[4])
                P1 == Ratio(mc.ag, mc.total)  P2 == Ratio(mc.ct, mc.total)
            IN <<FSub(FSub(One, FDiv(FMul(piR, P1), FMul(FInt(2), ag))), FDiv(Q, FMul(FInt(2), piR))),
                 FSub(FSub(One, FDiv(FMul(piY, P2), FMul(FInt(2), ct))), FDiv(Q, FMul(FInt(2), piY))),
                 FSub(One, FDiv(Q, FMul(FInt(2), FMul(piR, piY))))>>
       [] OTHER -> <<>>
ArgEps == FParse("1e-12")
OnBoundary(rows, o, pi, sel, i, j) ==
  LET a == LogArgs(rows, o, pi, sel, i, j) IN \E k \in DOMAIN a : FIsFinite(a[k]) /\ FLt(FAbs(a[k]), ArgEps)
\* the pair's observed proportion of differing sites, as the model counts them (all disjoint-set differences for JC69 / F81;
\* transitions + transversions for the two-parameter families)
PDist(rows, o, sel, i, j) ==
  IF o.model \in {"jc", "f81"} THEN LET dc == DiffCounts(rows[i], rows[j], sel, o.wts, 0, FALSE) IN Ratio(dc.diff, dc.total)
  ELSE LET mc == MutCounts(rows[i], rows[j], sel, o.wts) IN Ratio(mc.ts + mc.tv, mc.total)
NoCountedDiff(rows, o, sel, i, j) ==
  LET mode == IF o.model \in {"pdist", "rawdist"} THEN o.gapmode ELSE 0 IN
  DiffCounts(rows[i], rows[j], sel, o.wts, mode, FALSE).diff = 0 /\ DiffCounts(rows[i], rows[j], sel, o.wts, mode, FALSE).total > 0

\* ---- the matrix ---------------------------------------------------------------------------------------
\* an estimate is defined when it is a finite, non-negative number.  For the distances in substitutions per site the code
\* also gives up above 100 000 (a number no alignment supports: taken as saturation); the raw distance is a (weighted)
\* COUNT of differences, for which any finite value is an answer (large site weights, genome-scale alignments)
Big == FParse("100000")
DefinedFor(model, x) == FIsFinite(x) /\ FLe(FInt(0), x) /\ (model = "rawdist" \/ FLe(x, Big))
Corrected(model) == model \in {"jc", "k2p", "f81", "f84", "tn93"}
InRange(r, i, j) ==          \* r = <<r1min, r1max, r2min, r2max>> 0-based, or all -1
  IF r[1] < 0 \/ r[2] < 0 \/ r[3] < 0 \/ r[4] < 0 THEN i # j
  ELSE i # j /\ ((i - 1 >= r[1] /\ i - 1 <= r[2] /\ j - 1 >= r[3] /\ j - 1 <= r[4]) \/ (j - 1 >= r[1] /\ j - 1 <= r[2] /\ i - 1 >= r[3] /\ i - 1 <= r[4]))
RangeErr(r, n) == r[1] >= 0 /\ r[2] >= 0 /\ r[3] >= 0 /\ r[4] >= 0 /\ (r[1] > (IF r[2] >= n THEN n - 1 ELSE r[2]) \/ r[3] > (IF r[4] >= n THEN n - 1 ELSE r[4]))
Tol == FParse("1e-9")
Eps == FParse("1e-12")
\* e = [rows, o, r, kind, m]: m = matrix of decimal strings
\* bnd: the pairs on the saturation boundary (see LogArgs); {} on the first evaluation
MatrixChecksWith(e, useBnd) ==
  LET rows == e.rows  n == Len(rows)  o == e.o
      sel == SelectedSites(rows, o.rmgaps)
      pi  == IF o.model \in {"f81", "f84", "tn93"} THEN Strict(Freqs(rows, sel, o.wts)) ELSE <<>>
      pairs == {<<i, j>> \in (1..n) \X (1..n) : i < j /\ InRange(e.r, i, j)}
      est == Strict([p \in pairs |-> Estimate(rows, o, pi, sel, p[1], p[2])])
      obs(i, j) == FParse(e.m[i][j])
      bnd == IF useBnd THEN {p \in pairs : OnBoundary(rows, o, pi, sel, p[1], p[2])} ELSE {}
      defd == {p \in pairs \ bnd : DefinedFor(o.model, est[p])}
      maxd == IF defd = {} THEN FInt(0) ELSE FoldLeft(LAMBDA acc, p : FMax(acc, est[p]), FInt(0), SetToSeq(defd))
      \* the substitute is twice the largest defined entry; a boundary pair the code found defined takes part in that maximum
      substs == {FMul(FInt(2), maxd)} \cup {FMul(FInt(2), FMax(maxd, obs(k[1], k[2]))) : k \in {k \in bnd : FIsFinite(obs(k[1], k[2]))}}
  IN [shape     |-> Len(e.m) = n /\ \A i \in 1..n : Len(e.m[i]) = n,
      symmetric |-> \A i, j \in 1..n : e.m[i][j] = e.m[j][i] \/ (FIsNaN(obs(i, j)) /\ FIsNaN(obs(j, i))),
      diag      |-> \A i \in 1..n : FEq(obs(i, i), FInt(0)),
      outOfRange |-> \A i, j \in 1..n : (i # j /\ ~InRange(e.r, i, j)) => FEq(obs(i, j), FInt(0)),
      entry     |-> \A p \in defd : FClose(obs(p[1], p[2]), est[p], Tol, Eps),
      undefinedClass |-> \A p \in (pairs \ defd) \ bnd :
                           \/ FIsNaN(obs(p[1], p[2]))
                           \/ \E sb \in substs : FLt(FInt(0), sb) /\ FClose(obs(p[1], p[2]), sb, Tol, Eps)
                           \/ (FIsFinite(est[p]) /\ FLt(est[p], FInt(0)) /\ FLt(FNeg(Eps), est[p]))      \* rounding noise below zero
                           \/ (NoCountedDiff(rows, o, sel, p[1], p[2]) /\ FEq(obs(p[1], p[2]), FInt(0))),   \* no difference: 0 whatever the frequencies
      \* a pair on the boundary: undefined, or a (large) distance - never below the observed proportion of differences
      boundaryClass |-> \A p \in bnd : FIsNaN(obs(p[1], p[2])) \/ (FIsFinite(obs(p[1], p[2])) /\ FLe(FSub(PDist(rows, o, sel, p[1], p[2]), Tol), obs(p[1], p[2]))),
      \* (an estimate that is undefined for the whole alignment - degenerate base frequencies - stays undefined)
      zeroWhenEqual |-> \A p \in pairs : NoCountedDiff(rows, o, sel, p[1], p[2]) =>
                           (FEq(obs(p[1], p[2]), FInt(0)) \/ (FIsNaN(est[p]) /\ FIsNaN(obs(p[1], p[2])))),
      geP       |-> Corrected(o.model) => \A p \in defd : FIsFinite(obs(p[1], p[2])) =>
                                             FLe(FSub(PDist(rows, o, sel, p[1], p[2]), Tol), obs(p[1], p[2]))]
\* the boundary pairs are only looked for when the plain reading fails (they are rare; finding them costs as much as the estimates)
MatrixChecks(e) ==
  LET c0 == MatrixChecksWith(e, FALSE) IN
  IF \A k \in DOMAIN c0 : c0[k] THEN c0 ELSE MatrixChecksWith(e, TRUE)
\* relations between two matrices of one alignment: is the pair (i, j) of the BASE rows one whose value is not stable
\* under a reordering of the floating-point operations (on the boundary, or substituted while some pair is on the boundary)?
UnstablePair(rows, o, i, j) ==
  LET n == Len(rows)
      sel == SelectedSites(rows, o.rmgaps)
      pi  == IF o.model \in {"f81", "f84", "tn93"} THEN Strict(Freqs(rows, sel, o.wts)) ELSE <<>>
      pairs == {<<a, b>> \in (1..n) \X (1..n) : a < b}
      bnd == {p \in pairs : OnBoundary(rows, o, pi, sel, p[1], p[2])}
      lo == IF i < j THEN i ELSE j   hi == IF i < j THEN j ELSE i
  IN i # j /\ Corrected(o.model) /\ bnd # {} /\ (<<lo, hi>> \in bnd \/ ~DefinedFor(o.model, Estimate(rows, o, pi, sel, lo, hi)))
EncodableRows(rows) == \A r \in 1..Len(rows) : \A l \in 1..Len(rows[r]) : Encodable(rows[r][l])
=============================================================================
