-------------------------------- MODULE ProtDist --------------------------------
(***************************************************************************)
(* Maximum-likelihood protein distances (property C17).                      *)
(* Counting in exact integers: the pair frequency table F over the selected  *)
(* sites (weights in quarter units; positions where either residue is a gap, *)
(* X or '*' carry no weight); whether a pair differs at an unambiguous site. *)
(* Likelihood in IEEE doubles (F64): lnL(d) = sum F_ij ln(pi_i P_ij(d)),     *)
(* P(d) assembled from the eigen-system the model under test really uses     *)
(* (observed: eigenvalues, right and left eigenvectors, frequencies), plain  *)
(* or gamma-distributed rates ( (alpha / (alpha - lambda d))^alpha ).        *)
(* The reported distance d* < 20 must not be beaten by nearby distances nor  *)
(* by a log grid over [1e-8, 20].                                            *)
(***************************************************************************)
EXTENDS Integers, Sequences, FiniteSets, SequencesExt, Functions, F64

AAOrder == <<65, 82, 78, 68, 67, 81, 69, 71, 72, 73, 76, 75, 77, 70, 80, 83, 84, 87, 89, 86>>   \* A R N D C Q E G H I L K M F P S T W Y V
UpC(c) == IF c >= 97 /\ c <= 122 THEN c - 32 ELSE c
AAIdx(c) == IF \E k \in 1..20 : AAOrder[k] = UpC(c) THEN CHOOSE k \in 1..20 : AAOrder[k] = UpC(c) ELSE 0
Masked(c) == c \in {45, 46, 42, 88}                       \* - . * X
Unselecting(c) == AAIdx(c) = 0 \/ c \in {42, 63, 45}
Selected(rows, rmgaps) == {l \in 1..Len(rows[1]) : ~rmgaps \/ \A r \in 1..Len(rows) : ~Unselecting(rows[r][l])}
Wq(wts, l) == IF wts = <<>> THEN 4 ELSE wts[l]
DiffersUnambiguously(s1, s2) == \E l \in 1..Len(s1) : ~Masked(s1[l]) /\ ~Masked(s2[l]) /\ s1[l] # s2[l]
\* the weighted pair counts: a function from <<i, j>> (states of the two rows) to quarter units, over the informative sites
InfoSites(s1, s2, sel) == {l \in sel : ~Masked(s1[l]) /\ ~Masked(s2[l]) /\ AAIdx(s1[l]) > 0 /\ AAIdx(s2[l]) > 0}
PairCells(s1, s2, sel) == {<<AAIdx(s1[l]), AAIdx(s2[l])>> : l \in InfoSites(s1, s2, sel)}
CellCount(s1, s2, sel, wts, c) ==
  FoldLeft(LAMBDA acc, l : acc + Wq(wts, l), 0, SetToSeq({l \in InfoSites(s1, s2, sel) : <<AAIdx(s1[l]), AAIdx(s2[l])>> = c}))
TotalCount(s1, s2, sel, wts) == FoldLeft(LAMBDA acc, l : acc + Wq(wts, l), 0, SetToSeq(InfoSites(s1, s2, sel)))

\* ---- frequencies ------------------------------------------------------------------------------------
\* the alignment's own ("empirical") frequencies, distance/protein aaFrequency: every selected cell adds its site weight to
\* its amino acid, a cell holding anything else adds a twentieth of it to each; when some amino acid ends below 1/20 every
\* count gets a pseudo-count of 1.  In units of 1/80 (weights are logged in quarters): N[i] = 20 A[i] + B.
EmpFreqs(rows, sel, wts) ==
  LET cells == (1..Len(rows)) \X sel
      A(i) == FoldLeft(LAMBDA acc, c : acc + Wq(wts, c[2]), 0, SetToSeq({c \in cells : AAIdx(rows[c[1]][c[2]]) = i}))
      B == FoldLeft(LAMBDA acc, c : acc + Wq(wts, c[2]), 0, SetToSeq({c \in cells : AAIdx(rows[c[1]][c[2]]) = 0}))
      N0 == [i \in 1..20 |-> 20 * A(i) + B]
      pseudo == \E i \in 1..20 : N0[i] < 4
      N == [i \in 1..20 |-> IF pseudo THEN N0[i] + 80 ELSE N0[i]]
      tot == FoldLeft(LAMBDA acc, i : acc + N[i], 0, [i \in 1..20 |-> i])
  IN [i \in 1..20 |-> FRat(N[i], tot)]
\* ---- the eigensystem in use describes a rate matrix that fits the frequencies in use --------------------
\* P(t) = U exp(eval t) V; Q = U diag(eval) V.  Whatever the exchangeabilities, a model built for the frequencies pi is
\* reversible with respect to pi, its P(t) is a stochastic matrix and its mean rate -sum_i pi_i Q_ii is 1.
PAt(es, t, i, j) == FDot([k \in 1..20 |-> FMul(es.U[i][k], es.Vcol[j][k])], [k \in 1..20 |-> FExp(FMul(es.eval[k], t))])
QAt(es, i, j) == FDot([k \in 1..20 |-> FMul(es.U[i][k], es.Vcol[j][k])], es.eval)
EigenChecks(es) ==
  LET t == FParse("0.5")
      P == Strict([i \in 1..20 |-> [j \in 1..20 |-> PAt(es, t, i, j)]])
      tol == FParse("1e-6")  eps == FParse("1e-9")
  IN [reversible |-> \A i, j \in 1..20 : i < j => FClose(FMul(es.pi[i], P[i][j]), FMul(es.pi[j], P[j][i]), tol, eps),
      stochastic |-> \A i \in 1..20 : FClose(FSum(P[i]), FInt(1), tol, eps) /\ \A j \in 1..20 : FLe(FNeg(eps), P[i][j]),
      unitRate   |-> FClose(FNeg(FSum([i \in 1..20 |-> FMul(es.pi[i], QAt(es, i, i))])), FInt(1), tol, eps),
      piSimplex  |-> FClose(FSum(es.pi), FInt(1), tol, eps) /\ \A i \in 1..20 : FLt(FInt(0), es.pi[i])]

\* ---- likelihood ------------------------------------------------------------------------------------
BLMin == FParse("1e-08")
BLMax == FInt(100)
Clamp(d) == FMax(BLMin, FMin(BLMax, d))
\* es = [eval, U, V, pi] observed; gamma / alpha as configured
ExpTerm(lambda, d, gamma, alpha) == IF gamma THEN FPow(FDiv(alpha, FSub(alpha, FMul(lambda, d))), alpha) ELSE FExp(FMul(lambda, d))
\* coef[q][k] = U[i][k] V[k][j] for the q-th observed cell <<i, j>>: P_ij(d) = sum_k coef[q][k] e_k(d)
Coefs(es, cells) == Strict([q \in 1..Len(cells) |-> [k \in 1..20 |-> FMul(es.U[cells[q][1]][k], es.Vcol[cells[q][2]][k])]])
LnL(es, cells, coef, counts, total, d0, gamma, alpha) ==
  LET d == Clamp(d0)
      e == Strict([k \in 1..20 |-> ExpTerm(es.eval[k], d, gamma, alpha)])
      term(q) == LET p == FMax(FDot(coef[q], e), FParse("2.2250738585072014e-308"))
                 IN FMul(FRat(counts[cells[q]], total), FLn(FMul(es.pi[cells[q][1]], p)))
  IN FSum([q \in 1..Len(cells) |-> term(q)])
Grid == <<"1e-08", "1e-06", "1e-04", "0.001", "0.003", "0.01", "0.02", "0.05", "0.1", "0.15", "0.2", "0.3", "0.4", "0.5", "0.7", "1", "1.4", "2", "3", "4.5", "7", "10", "14", "20">>
\* is d* a maximiser among nearby and grid distances?
\* [near, grid]: no nearby distance, resp. no grid distance, has a higher likelihood (beyond the tolerance)
Maximises(es, cells, counts, total, dstar, gamma, alpha) ==
  LET coef == Coefs(es, cells)
      best == LnL(es, cells, coef, counts, total, dstar, gamma, alpha)
      tol == FMul(FParse("1e-7"), FMax(FInt(1), FAbs(best)))
      near == [k \in 1..4 |-> FMul(dstar, FParse(<<"0.999", "1.001", "0.99", "1.01">>[k]))]
      grid == [k \in 1..Len(Grid) |-> FParse(Grid[k])]
      ok(c) == \A k \in 1..Len(c) : FLe(LnL(es, cells, coef, counts, total, c[k], gamma, alpha), FAdd(best, tol))
  IN [near |-> ok(near), grid |-> ok(grid)]
=============================================================================
