-------------------------------- MODULE Clean --------------------------------
(***************************************************************************)
(* Cleaning at a cutoff (property C12) and site compression (C13).         *)
(* The cutoff is the exact rational p/q (q > 0); a cutoff outside [0,1]    *)
(* means 0.                                                                *)
(***************************************************************************)
EXTENDS Stats

CutP(p, q) == IF p < 0 \/ p > q THEN 0 ELSE p
\* remove iff fraction >= cutoff, or count > 0 when the cutoff is 0
Qualifies(nb, total, p, q) == LET pp == CutP(p, q) IN IF pp > 0 THEN nb * q >= pp * total ELSE nb > 0
\* a tie that a binary float cannot represent exactly is not judged
DyadicQ(q) == q \in {1, 2, 4, 8, 16, 32, 64}
Unjudgeable(nb, total, p, q) == CutP(p, q) > 0 /\ nb * q = CutP(p, q) * total /\ ~DyadicQ(q)

MatchChar(c, chars, icase) == \E k \in 1..Len(chars) : c = chars[k] \/ (icase /\ Lo(c) = Lo(chars[k]))
\* rows not excluded by ignore-gaps / ignore-N-or-X of the alignment's own alphabet (either case)
Counted(o, c, igaps, ins) == ~((igaps /\ c = GAP) \/ (ins /\ (c = AllChar(o) \/ c = Lo(AllChar(o)))))
\* the matching rows AMONG the rows that are not excluded (with the inverted selection an excluded row is not a match
\* either: a column A - - with the selection "not A" and gaps ignored holds one row, which does not match)
SiteNb(o, i, chars, icase, rev, igaps, ins) ==
  Cardinality({r \in 1..Len(o.rows) : Counted(o, o.rows[r].s[i], igaps, ins) /\ (MatchChar(o.rows[r].s[i], chars, icase) # rev)})
SiteTotal(o, i, igaps, ins) == Cardinality({r \in 1..Len(o.rows) : Counted(o, o.rows[r].s[i], igaps, ins)})

\* given the set Q of qualifying sites (1-based), the removed set in plain or ends mode
PrefixLen(Q, L) == IF \A i \in 1..L : i \in Q THEN L ELSE (CHOOSE i \in 1..L : i \notin Q /\ \A j \in 1..(i-1) : j \in Q) - 1
SuffixLen(Q, L) == IF \A i \in 1..L : i \in Q THEN L ELSE L - (CHOOSE i \in 1..L : i \notin Q /\ \A j \in (i+1)..L : j \in Q)
Removed(Q, L, ends) == IF ~ends THEN Q ELSE {i \in 1..L : i <= PrefixLen(Q, L) \/ i > L - SuffixLen(Q, L)}
\* the observed result of a site-cleaning call must be: kept/removed partition the columns,
\* removed = Removed(Q), first/last = lengths of the qualifying prefix/suffix, alignment = kept columns
CleanSitesResult(o, Q, ends) ==
  LET L == Width(o)
      R == Removed(Q, L, ends)
      keptIdx == SeqOfSet((1..L) \ R)
  IN [o     |-> [o EXCEPT !.rows = MapRows(o, LAMBDA s : Pick(s, keptIdx)), !.len = IF o.len < 0 THEN o.len ELSE L - Cardinality(R)],
      kept  |-> [k \in 1..Len(keptIdx) |-> keptIdx[k] - 1],
      rm    |-> [k \in 1..Cardinality(R) |-> SeqOfSet(R)[k] - 1],
      first |-> PrefixLen(Q, L), last |-> SuffixLen(Q, L)]
CharSitesQ(o, chars, p, q, icase, igaps, ins, rev) ==
  {i \in 1..Width(o) : Qualifies(SiteNb(o, i, chars, icase, rev, igaps, ins), SiteTotal(o, i, igaps, ins), p, q)}
CharSitesUnjudgeable(o, chars, p, q, icase, igaps, ins, rev) ==
  \E i \in 1..Width(o) : Unjudgeable(SiteNb(o, i, chars, icase, rev, igaps, ins), SiteTotal(o, i, igaps, ins), p, q)
MajSitesQ(o, p, q, igaps, ins) ==
  {i \in 1..Width(o) : Qualifies(MaxOccur(o, i, igaps, ins), MaxTotal(o, i, igaps, ins), p, q)}
MajSitesUnjudgeable(o, p, q, igaps, ins) ==
  \E i \in 1..Width(o) : Unjudgeable(MaxOccur(o, i, igaps, ins), MaxTotal(o, i, igaps, ins), p, q)
         \/ MaxTotal(o, i, igaps, ins) = 0       \* only excluded kinds in the column: 0/0

\* ---- sequences ----------------------------------------------------------------------
SeqNb(s, c, icase) == Cardinality({i \in 1..Len(s) : s[i] = c \/ (icase /\ Lo(s[i]) = Lo(c))})
SeqTotal(o, s, igaps, ins) == Cardinality({i \in 1..Len(s) : Counted(o, s[i], igaps, ins)})
CharSeqsKeep(o, c, p, q, icase, igaps, ins) ==
  SelectSeq(o.rows, LAMBDA r : ~Qualifies(SeqNb(r.s, c, icase), SeqTotal(o, r.s, igaps, ins), p, q))
CharSeqsUnjudgeable(o, c, p, q, icase, igaps, ins) ==
  \E r \in 1..Len(o.rows) : Unjudgeable(SeqNb(o.rows[r].s, c, icase), SeqTotal(o, o.rows[r].s, igaps, ins), p, q)
CharSeqsOp(o, c, p, q, icase, igaps, ins) ==
  LET keep == CharSeqsKeep(o, c, p, q, icase, igaps, ins) IN
  Res(FALSE, [o EXCEPT !.rows = keep, !.len = IF Len(keep) = 0 THEN -1 ELSE @], <<>>,
      [n |-> Len(o.rows) - Len(keep)], TRUE)

\* ---- compression (relational: order of patterns is not pinned) ------------------------------
ColsBag(o) == BagOf([i \in 1..Width(o) |-> Col(o, i)])
AllowedCompress(pre, post, w) ==
  /\ post.k = pre.k /\ post.al = pre.al /\ NamesOf(post) = NamesOf(pre)
  /\ post.len = Len(w) /\ Rect(post)
  /\ NoDup([i \in 1..Width(post) |-> Col(post, i)])                     \* patterns pairwise distinct
  /\ \A k \in 1..Len(w) : w[k] > 0
  /\ SumSeq(w) = Width(pre)
  /\ [c \in {Col(post, i) : i \in 1..Width(post)} |->
        w[CHOOSE i \in 1..Width(post) : Col(post, i) = c]] = ColsBag(pre)   \* exact multiplicities
=============================================================================
