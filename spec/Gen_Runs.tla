--------------------------------- MODULE Gen_Runs ---------------------------------
(* TLC as generator of run descriptors for C11: every command of the table (NCmds, kept by the runner) x seeds x thread   *)
(* counts x repetitions; the runner maps a command number to its command line.                                           *)
EXTENDS Integers, Sequences, Json, TLC
CONSTANTS NCmds, Scope
VARIABLES c
\* 0 and negative numbers other than -1 ("use the clock") are seeds like any other
Seeds == IF Scope = "full" THEN {1, 7, 123456, 0, -7} ELSE {1, 7, 0}
Threads == IF Scope = "full" THEN {1, 2, 3, 4, 16, 32} ELSE {1, 4, 16}
Reps == IF Scope = "full" THEN 1..3 ELSE 1..2
Init == c \in [cmd : 1..NCmds, seed : Seeds, threads : Threads, rep : Reps]
Next == UNCHANGED c
Emit == PrintT(ToJson(c))
=============================================================================
