------------------------------ MODULE Trace_Weights ------------------------------
(* Total trace validation of the C20 events. *)
EXTENDS Weights, Json, IOUtils, TLC
Trace == ndJsonDeserialize(IOEnv.TRACE)
VARIABLES l, bad
Init == l = 1 /\ bad = <<>>
Checks(e) ==
  CASE e.t = "weights"    -> [noError |-> e.kind = "ok", weights |-> e.kind = "ok" => WeightsOK(e.L, ParseV(e.w))]
    \* one replicate line of `goalign build weightboot`: L fields printed with six decimals (a weight below 5e-7 prints as
    \* 0.000000: non-negative here), summing to L up to the rounding of the fields
    [] e.t = "weightscli" -> [noError |-> e.kind = "ok",
                              lineWeights |-> e.kind = "ok" => LET w == ParseV(e.w) IN
                                 /\ Len(w) = e.L /\ \A i \in 1..Len(w) : FIsFinite(w[i]) /\ FLe(Zero, w[i])
                                 /\ FLe(FAbs(FSub(FSum(w), FInt(e.L))), FMul(FInt(e.L), FParse("1e-6")))]
    [] e.t = "dirichlet"  -> LET a == ParseV(e.alphas) IN
                             [errClass |-> (e.kind = "err") = DirichletErr(a),
                              sample   |-> e.kind = "ok" => DirichletOK(FParse(e.total), Len(a), ParseV(e.s))]
    [] e.t = "dirichlet1" -> [errClass |-> (e.kind = "err") = (e.n <= 2),
                              sample   |-> e.kind = "ok" => DirichletOK(FParse(e.total), e.n, ParseV(e.s))]
    [] e.t = "discgamma"  -> [rates |-> e.kind = "ok" /\ RatesOK(e.ncat, ParseV(e.r))]
    [] e.t = "incgamma"   -> IF e.kind # "ok" THEN [terminates |-> FALSE]
                             ELSE IncGammaOK(FParse(e.alpha), FParse(e.lng), ParseV(e.xs), ParseV(e.vals))
    [] OTHER -> [knownEvent |-> FALSE]
Failing(e) == IF e.kind = "panic" THEN {"noPanic"} ELSE IF e.kind = "hang" THEN {"terminates"} ELSE LET ch == Checks(e) IN {k \in DOMAIN ch : ~ch[k]}
Next == /\ l <= Len(Trace)
        /\ LET f == Failing(Trace[l]) IN bad' = IF f = {} THEN bad ELSE Append(bad, [i |-> l, failing |-> SetToSeq(f)])
        /\ l' = l + 1
Spec == Init /\ [][Next]_<<l, bad>>
Done == l = Len(Trace) + 1 => PrintT(<<"RESULT", ToJson([consumed |-> l - 1, bad |-> bad])>>)
=============================================================================
