----------------------------- MODULE Trace_ProtDist -----------------------------
(* Total trace validation of protein distance matrices (C17) and of the relations between two calls (row / column reordering). *)
EXTENDS ProtDist, Json, IOUtils, TLC
Trace == ndJsonDeserialize(IOEnv.TRACE)
VARIABLES l, bad
Init == l = 1 /\ bad = <<>>
ParseV(v) == [i \in 1..Len(v) |-> FParse(v[i])]
ParseM(m) == Strict([i \in 1..Len(m) |-> [j \in 1..Len(m[i]) |-> FParse(m[i][j])]])
D(e, i, j) == FParse(e.D[i][j])
Cap == FInt(20)
Sel(e) == Selected(e.rows, e.rmgaps)
EigenSys(e) == LET V == ParseM(e.V) IN
               [eval |-> ParseV(e.eval), U |-> ParseM(e.U), Vcol |-> Strict([j \in 1..20 |-> [k \in 1..20 |-> V[k][j]]]), pi |-> ParseV(e.pi)]
Judged(e) == {p \in (1..Len(e.rows)) \X (1..Len(e.rows)) :
                /\ p[1] < p[2] /\ DiffersUnambiguously(e.rows[p[1]], e.rows[p[2]]) /\ TotalCount(e.rows[p[1]], e.rows[p[2]], Sel(e), e.wts) > 0
                /\ FLt(D(e, p[1], p[2]), Cap) /\ FLe(FInt(0), D(e, p[1], p[2]))}
MaxOf(e, p) == LET cs == SetToSeq(PairCells(e.rows[p[1]], e.rows[p[2]], Sel(e)))
                   counts == Strict([c \in Range(cs) |-> CellCount(e.rows[p[1]], e.rows[p[2]], Sel(e), e.wts, c)])
               IN Maximises(EigenSys(e), cs, counts, TotalCount(e.rows[p[1]], e.rows[p[2]], Sel(e), e.wts), D(e, p[1], p[2]), e.gamma, FParse(e.alpha))
\* the reported distance is a local maximiser (nothing nearby is better) but a grid distance has a higher likelihood
LocalOptimum(e) == \E p \in Judged(e) : LET m == MaxOf(e, p) IN m.near /\ ~m.grid
NearbyWorse(e) == \A p \in Judged(e) : MaxOf(e, p).near
MatChecks(e) ==
  LET rows == e.rows  n == Len(rows)
      sel == Selected(rows, e.rmgaps)
      alpha == FParse(e.alpha)
      U == ParseM(e.U)  V == ParseM(e.V)
      es == [eval |-> ParseV(e.eval), U |-> U, Vcol |-> Strict([j \in 1..20 |-> [k \in 1..20 |-> V[k][j]]]), pi |-> ParseV(e.pi)]
      pairs == {<<i, j>> \in (1..n) \X (1..n) : i < j}
      differs(p) == DiffersUnambiguously(rows[p[1]], rows[p[2]])
      total(p) == TotalCount(rows[p[1]], rows[p[2]], sel, e.wts)
  IN [shape     |-> Len(e.D) = n /\ \A i \in 1..n : Len(e.D[i]) = n,
      symmetric |-> \A i, j \in 1..n : e.D[i][j] = e.D[j][i],
      diag      |-> \A i \in 1..n : FEq(D(e, i, i), FInt(0)),
      range     |-> \A p \in pairs : FLe(FInt(0), D(e, p[1], p[2])) /\ FLe(D(e, p[1], p[2]), Cap),
      zeroWhenEqual |-> \A p \in pairs : ~differs(p) => FEq(D(e, p[1], p[2]), FInt(0)),
      optimal   |-> \A p \in Judged(e) : LET m == MaxOf(e, p) IN m.near /\ m.grid,
      \* the model the likelihood is computed with: built for the frequencies in use, which are the alignment's own when asked
      eigensystem |-> LET ch == EigenChecks(es) IN \A k \in DOMAIN ch : ch[k],
      frequencies |-> e.modelfreqs \/ LET f == EmpFreqs(rows, sel, e.wts) IN \A i \in 1..20 : FClose(es.pi[i], f[i], FParse("1e-9"), FParse("1e-12"))]
\* the pair has an unambiguous difference somewhere but no jointly informative selected site (reported outside [0,20]: known finding)
NoJointSite(e) == LET rows == e.rows  sel == Selected(rows, e.rmgaps) IN
                  \E i, j \in 1..Len(rows) : i < j /\ DiffersUnambiguously(rows[i], rows[j]) /\ TotalCount(rows[i], rows[j], sel, e.wts) = 0
RelChecks(e) ==
  LET n == Len(e.m1) IN
  [permuted |-> Len(e.m2) = n /\ \A i, j \in 1..n : FClose(FParse(e.m2[i][j]), FParse(e.m1[e.perm[i]][e.perm[j]]), FParse("1e-5"), FParse("1e-6"))]
Failing(e) ==
  IF e.t = "rel" THEN LET ch == RelChecks(e) IN {k \in DOMAIN ch : ~ch[k]}
  ELSE IF e.kind = "panic" THEN {"noPanic"} ELSE IF e.kind = "hang" THEN {"returns"} ELSE IF e.kind = "err" THEN {"noError"}
  ELSE LET ch == MatChecks(e)  f == {k \in DOMAIN ch : ~ch[k]} IN
       f \cup (IF NoJointSite(e) THEN {"noJointSite"} ELSE {}) \cup (IF "optimal" \in f /\ NearbyWorse(e) THEN {"localOptimum"} ELSE {})
Next == /\ l <= Len(Trace)
        /\ LET all == Failing(Trace[l])
               f == all \ {"noJointSite", "localOptimum"}
               tag == IF f # {} THEN all \cap {"noJointSite", "localOptimum"} ELSE {}
           IN bad' = IF f = {} THEN bad ELSE Append(bad, [i |-> l, failing |-> SetToSeq(f \cup tag)])
        /\ l' = l + 1
Spec == Init /\ [][Next]_<<l, bad>>
Done == l = Len(Trace) + 1 => PrintT(<<"RESULT", ToJson([consumed |-> l - 1, bad |-> bad])>>)
=============================================================================
