--------------------------------- MODULE Markov ---------------------------------
(***************************************************************************)
(* Substitution models as continuous-time Markov chains (property C18), in  *)
(* IEEE doubles through F64.  The textbook rate matrices are written here    *)
(* (states in the order A C G T; transitions are A<->G and C<->T), scaled    *)
(* to one expected substitution per unit time; Expm is scaling-and-squaring  *)
(* with a Taylor series, written with TLA+ folds over FDot / FAdd / FMul.    *)
(* The laws are evaluated on the transition matrices P(t) OBSERVED from the  *)
(* implementation.                                                          *)
(***************************************************************************)
EXTENDS Integers, Sequences, FiniteSets, SequencesExt, Functions, F64

Zero == FInt(0)
Un == FInt(1)
Dim(M) == Len(M)
Row(M, i) == M[i]
Col(M, j) == [i \in 1..Len(M) |-> M[i][j]]
MatMul(A, B) == LET n == Len(A)  cols == Strict([j \in 1..n |-> Col(B, j)]) IN Strict([i \in 1..n |-> [j \in 1..n |-> FDot(A[i], cols[j])]])
MatAdd(A, B) == Strict([i \in 1..Len(A) |-> [j \in 1..Len(A) |-> FAdd(A[i][j], B[i][j])]])
MatScale(A, c) == Strict([i \in 1..Len(A) |-> [j \in 1..Len(A) |-> FMul(A[i][j], c)]])
Ident(n) == [i \in 1..n |-> [j \in 1..n |-> IF i = j THEN Un ELSE Zero]]
MaxAbs(A) == FoldLeft(LAMBDA acc, i : FoldLeft(LAMBDA a2, j : FMax(a2, FAbs(A[i][j])), acc, [j \in 1..Len(A) |-> j]), Zero, [i \in 1..Len(A) |-> i])
\* exp(A): A / 2^s with |A/2^s| small, 16 Taylor terms, then s squarings
RECURSIVE Halvings(_, _)
Halvings(x, s) == IF FLe(x, FRat(1, 4)) \/ s >= 40 THEN s ELSE Halvings(FMul(x, FRat(1, 2)), s + 1)
Expm(A) ==
  LET n == Len(A)
      s == Halvings(FMul(MaxAbs(A), FInt(n)), 0)
      B == MatScale(A, FPow(FInt(2), FInt(0 - s)))
      taylor == FoldLeft(LAMBDA acc, k : LET term == MatScale(MatMul(acc.term, B), FRat(1, k)) IN [sum |-> MatAdd(acc.sum, term), term |-> term],
                         [sum |-> Ident(n), term |-> Ident(n)], [k \in 1..16 |-> k]).sum
  IN FoldLeft(LAMBDA acc, k : MatMul(acc, acc), taylor, [k \in 1..s |-> k])

\* ---- textbook rate matrices ---------------------------------------------------------------------
IsTs(i, j) == {i, j} = {1, 3} \/ {i, j} = {2, 4}
\* from off-diagonal rates r(i,j) and frequencies pi: fill the diagonal, scale to unit mean rate
Normalised(n, r(_, _), pi) ==
  LET raw == [i \in 1..n |-> [j \in 1..n |-> IF i = j THEN Zero ELSE r(i, j)]]
      diag == [i \in 1..n |-> FNeg(FSum(raw[i]))]
      mu == FNeg(FSum([i \in 1..n |-> FMul(pi[i], diag[i])]))
  IN Strict([i \in 1..n |-> [j \in 1..n |-> FDiv(IF i = j THEN diag[i] ELSE raw[i][j], mu)]])
Quarter == [i \in 1..4 |-> FRat(1, 4)]
\* m = model name, p = parameters (sequence of doubles), pi = frequencies
RateMatrix(m, p, pi, R) ==
  CASE m = "jc"   -> Normalised(4, LAMBDA i, j : Un, Quarter)
    [] m = "k2p"  -> Normalised(4, LAMBDA i, j : IF IsTs(i, j) THEN p[1] ELSE Un, Quarter)
    [] m = "f81"  -> Normalised(4, LAMBDA i, j : pi[j], pi)
    [] m = "f84"  -> LET piR == FAdd(pi[1], pi[3])  piY == FAdd(pi[2], pi[4]) IN
                     Normalised(4, LAMBDA i, j : IF IsTs(i, j) THEN FMul(FAdd(Un, FDiv(p[1], IF i \in {1, 3} THEN piR ELSE piY)), pi[j]) ELSE pi[j], pi)
    [] m = "tn93" -> Normalised(4, LAMBDA i, j : IF {i, j} = {1, 3} THEN FMul(p[1], pi[j]) ELSE IF {i, j} = {2, 4} THEN FMul(p[2], pi[j]) ELSE pi[j], pi)
    [] m = "gtr"  -> \* p = <<d, f, b, e, a, c>>: exchangeabilities A-C, A-G, A-T, C-G, C-T, G-T
                     LET ex(i, j) == CASE {i, j} = {1, 2} -> p[1] [] {i, j} = {1, 3} -> p[2] [] {i, j} = {1, 4} -> p[3]
                                       [] {i, j} = {2, 3} -> p[4] [] {i, j} = {2, 4} -> p[5] [] {i, j} = {3, 4} -> p[6]
                     IN Normalised(4, LAMBDA i, j : FMul(ex(i, j), pi[j]), pi)
    [] OTHER      -> Normalised(Len(pi), LAMBDA i, j : FMul(R[i][j], pi[j]), pi)       \* protein: q_ij = R_ij pi_j
StationaryOf(m, pi) == IF m \in {"jc", "k2p"} THEN Quarter ELSE pi

\* ---- laws on observed transition matrices ----------------------------------------------------------
CloseM(A, B, rel, abs) == \A i \in 1..Len(A) : \A j \in 1..Len(A) : FClose(A[i][j], B[i][j], rel, abs)
Stochastic(P, tol) == \A i \in 1..Len(P) : /\ \A j \in 1..Len(P) : FLe(FNeg(tol), P[i][j]) /\ FLe(P[i][j], FAdd(Un, tol))
                                           /\ FLe(FAbs(FSub(FSum(P[i]), Un)), tol)
DetailedBalance(P, pi, tol) == \A i \in 1..Len(P) : \A j \in 1..Len(P) : FLe(FAbs(FSub(FMul(pi[i], P[i][j]), FMul(pi[j], P[j][i]))), tol)
Converged(P, pi, tol) == \A i \in 1..Len(P) : \A j \in 1..Len(P) : FLe(FAbs(FSub(P[i][j], pi[j])), tol)
=============================================================================
