----------------------------- MODULE Trace_Heap -----------------------------
(***************************************************************************)
(* Trace validation for the heap machine.  One ndjson event per public call *)
(* made on the real code; each carries the projection of every live object  *)
(* after the call, read through iteration, by index and by name.            *)
(*                                                                         *)
(* The specification is TOTAL: an event that is not a step of the heap       *)
(* machine does not block; the names of the violated conjuncts are appended  *)
(* to `bad`, the machine re-synchronises on the logged state and goes on.    *)
(* The pre-state of every event is the machine's own state `heap` (= the     *)
(* previous post-state), so hidden-state drift between calls is visible.     *)
(***************************************************************************)
EXTENDS Goalign, Json, IOUtils

Trace == ndJsonDeserialize(IOEnv.TRACE)
MinDraws == 100          \* a support key is judged once it has at least this many draws

VARIABLES l, heap, bad, memo, sup, stats, flagged
vars == <<l, heap, bad, memo, sup, stats, flagged>>

AbsObj(v, pol) == [k |-> v.k, al |-> v.al, pol |-> pol, len |-> v.len, rows |-> v.rows]

\* by-index, by-name and iteration views agree on the same rows in the same order
ViewsOK(v) ==
  LET names == [i \in 1..Len(v.rows) |-> v.rows[i].n] IN
  /\ v.nb = Len(v.rows)
  /\ ~v.oob
  /\ v.byidx = v.rows
  /\ v.maxnl = (IF Len(names) = 0 THEN 0 ELSE Max({Len(names[i]) : i \in 1..Len(names)}))
  \* whatever the names, the by-name accessors agree with one another: they designate ONE row of the list
  /\ \A k \in 1..Len(v.byname) :
        LET q == v.byname[k] IN
        q.f => q.id >= 0 /\ q.id < Len(v.rows) /\ v.rows[q.id + 1].n = q.n /\ q.s = v.rows[q.id + 1].s
  /\ NoDup(names) =>
       \A k \in 1..Len(v.byname) :
          LET q == v.byname[k]  j == FirstIdx(names, LAMBDA x : x = q.n) IN
          IF j = 0 THEN ~q.f /\ q.id < 0
          ELSE q.f /\ q.id = j - 1 /\ q.s = v.rows[j].s

Failing(h, e, fl) ==
  LET op == e.op  recv == e.recv  a == e.a
      n    == Len(e.objs)
      pols == PolAfter(h, op, recv, a, n)
      obs  == [i \in 1..n |-> AbsObj(e.objs[i], pols[i])]
      dupRecv == recv # 0 /\ HasDupNames(h[recv])
      argObjs == {recv} \cup (IF "other" \in DOMAIN a THEN {a.other} ELSE {}) \cup (IF "prof" \in DOMAIN a THEN {a.prof} ELSE {})
      frame == \A i \in 1..Len(h) : (i # recv \/ op \in ReadOnlyOps) => (i <= n /\ obs[i] = h[i])
      \* an object whose views / shape were already reported stays flagged and is not reported again
      views == \A i \in 1..n : i \in fl \/ ViewsOK(e.objs[i])
      rect  == \A i \in 1..n : i \in fl \/ Rect(obs[i])
      \* ... and an object that is neither the receiver nor created by this step: its access paths were made to disagree
      \* by an operation on ANOTHER object (the two share storage behind one of the paths)
      othersViews == views \/ \A i \in 1..Len(h) : (i = recv \/ i \in fl \/ i > n) \/ ViewsOK(e.objs[i])
      newObs == [k \in 1..(n - Len(h)) |-> obs[Len(h) + k]]
      checks ==
        IF e.kind = "panic" THEN [noPanic |-> \E i \in argObjs \ {0} : i \in fl \/ HasDupNames(h[i])]   \* (not judged on an object already reported)
        ELSE IF n < Len(h) THEN [objectsKept |-> FALSE]
        ELSE IF dupRecv \/ \E i \in argObjs \ {0} : HasDupNames(h[i]) THEN [frame |-> frame]   \* caller-made duplicates: not judged
        ELSE IF \E i \in argObjs \ {0} : i \in fl THEN [frame |-> frame]   \* an object already reported as inconsistent: not judged again
        ELSE IF op = "Cli" THEN
          \* the command line is judged with the transition of the library operation it fronts
          IF a.op \notin CliOps THEN [cliOp |-> FALSE]
          \* (the command reads its files under the default duplicate-name policy: a receiver with another policy is not
          \* the object the command works on)
          ELSE IF a.op \in {"Append", "Concat"} /\ h[recv].pol # 0 THEN [frame |-> \A i \in 1..Len(h) : i <= n /\ obs[i] = h[i]]
          ELSE IF a.op \in RelationalOps THEN
            LET \* `mask --ref-seq`: the window is given on the reference and converted first
                viaRef  == a.op = "Mask" /\ Len(a.a.ref) > 0
                \* (a window running past the last residue of the reference is truncated, as a window past the end of the
                \* alignment is without reference)
                nres    == IF HasName(h[recv], a.a.ref) THEN Len(NonGapPos(RowOfName(h[recv], a.a.ref).s)) ELSE 0
                lenT    == IF a.a.start >= 0 /\ a.a.start < nres /\ a.a.start + a.a.len > nres THEN nres - a.a.start ELSE a.a.len
                RC      == Step(h, "RefCoordinates", recv, [name |-> a.a.ref, start |-> a.a.start, len |-> lenT])
                aEff    == IF viaRef /\ ~RC.err THEN [a.a EXCEPT !.start = RC.ret.start, !.len = RC.ret.len] ELSE a.a
                mustErr == (viaRef /\ RC.err) \/ ErrRel(h, a.op, recv, aEff)
                x       == newObs[1]
                \* the receiver as the operation would have left it: the printed rows, under the receiver's own policy
                asPost  == [x EXCEPT !.pol = h[recv].pol, !.al = IF a.op = "TranslateByReference" THEN AMINOACIDS ELSE x.al]
                \* the part of the return record the command does not print, as the specification defines it
                retq    == IF a.op = "MaxCharStats" THEN [e.ret EXCEPT !.total = MaxCharTotals(h[recv], a.a.igaps, a.a.ins)] ELSE e.ret
            IN
            [errClass  |-> (e.kind = "err") = mustErr,
             recvState |-> obs[recv] = h[recv],
             allowed   |-> IF e.kind = "err" THEN n = Len(h)
                           ELSE IF a.op \in CliQueryOps THEN mustErr \/ (newObs = <<>> /\ Allowed(h, a.op, recv, aEff, h[recv], <<>>, retq))
                           ELSE mustErr \/ (Len(newObs) = 1 /\ ((a.op \in CliNeedsRet /\ ~a.full) \/
                                  IF a.op \in CliCreators THEN Allowed(h, a.op, recv, aEff, h[recv], newObs, e.ret)
                                  ELSE Allowed(h, a.op, recv, aEff, asPost, <<>>, e.ret))),
             frame |-> \A i \in 1..Len(h) : i <= n /\ obs[i] = h[i], views |-> views]
          ELSE LET R0 == Step(h, a.op, recv, a.a)
                   \* `subseq --ref-seq`: the window the reference coordinates designate, then its extraction
                   R  == IF a.op = "RefCoordinates"
                         THEN (IF R0.err THEN R0
                               ELSE CliOf("SubAlign", h[recv], Step(h, "SubAlign", recv, [start |-> R0.ret.start, len |-> R0.ret.len])))
                         ELSE IF a.op = "RefSites" /\ "rev" \in DOMAIN a.a      \* `subsites --ref-seq --reverse`: all but the designated columns
                         THEN (IF R0.err THEN R0
                               ELSE LET R1 == Step(h, "InversePositions", recv, [sites |-> R0.ret.sites]) IN
                                    IF R1.err THEN R1
                                    ELSE CliOf("SelectSites", h[recv], Step(h, "SelectSites", recv, [sites |-> R1.ret.sites])))
                         ELSE IF a.op \in {"RefSites", "InversePositions"}      \* `subsites --ref-seq` / `--reverse`
                         THEN (IF R0.err THEN R0
                               ELSE CliOf("SelectSites", h[recv], Step(h, "SelectSites", recv, [sites |-> R0.ret.sites])))
                         ELSE IF a.op = "InverseCoordinates"                      \* `subseq --reverse`: the complement of the window
                         THEN (IF R0.err THEN R0
                               ELSE IF Len(R0.ret.starts) = 0                    \* nothing left: an error or an empty result, not a crash
                               THEN (IF e.kind = "err" THEN Fail(h[recv]) ELSE [Fail(h[recv]) EXCEPT !.err = FALSE, !.j = FALSE])
                               ELSE CliOf("SelectSites", h[recv], Step(h, "SelectSites", recv,
                                       [sites |-> SeqOfSet({i \in 0..(h[recv].len - 1) : i < a.a.start \/ i >= a.a.start + a.a.len})])))
                         ELSE IF a.op = "Split" THEN CliSplit(h[recv], a.a)
                         ELSE CliOf(a.op, h[recv], R0) IN
          [errClass  |-> (e.kind = "err") = R.err,
           recvState |-> obs[recv] = h[recv],
           created   |-> IF R.err \/ e.kind = "err" THEN n = Len(h) ELSE (~R.j) \/ newObs = R.new,
           ret       |-> R.err \/ e.kind = "err" \/ ~R.j \/ ~a.full \/ RetOK(a.op, a.a, R.ret, e.ret),
           folded    |-> R.err \/ e.kind = "err" \/ ~R.j \/ ~a.full \/ FoldedOK(a.op, a.a, R.ret, e.ret),
           frame |-> \A i \in 1..Len(h) : i <= n /\ obs[i] = h[i], views |-> (~R.j) \/ views]
        ELSE IF op \in RelationalOps THEN
          LET mustErr == ErrRel(h, op, recv, a) IN
          [errClass |-> (e.kind = "err") = mustErr,
           allowed  |-> IF e.kind = "err" THEN obs[recv] = h[recv] /\ n = Len(h)
                        ELSE mustErr \/ Allowed(h, op, recv, a, obs[recv], newObs, e.ret),
           frame |-> frame, views |-> views, othersViews |-> othersViews, rect |-> rect]
        ELSE
          LET R == Step(h, op, recv, a) IN
          [errClass  |-> op \in UnjudgedCreators \/ (e.kind = "err") = R.err,
           recvState |-> recv = 0 \/ (~R.j /\ op \notin UnjudgedCreators) \/ obs[recv] = R.o,
           created   |-> IF op \in UnjudgedCreators THEN (IF e.kind = "err" THEN n = Len(h) ELSE n = Len(h) + 1)
                         ELSE IF R.err \/ e.kind = "err" THEN n = Len(h) ELSE newObs = R.new,
           ret       |-> R.err \/ e.kind = "err" \/ ~R.j \/ RetOK(op, a, R.ret, e.ret),
           folded    |-> R.err \/ e.kind = "err" \/ ~R.j \/ FoldedOK(op, a, R.ret, e.ret),
           frame |-> frame, views |-> (~R.j) \/ views, othersViews |-> (~R.j) \/ othersViews, rect |-> (~R.j) \/ rect]
  IN {k \in DOMAIN checks : ~checks[k]}

NoSeed(a) == [x \in (DOMAIN a) \ {"seed", "mk", "sup"} |-> a[x]]
SeenAtoms(h, e, obs) ==
  LET pre == h[e.recv]  a == e.a  new == obs[Len(obs)] IN
  CASE e.op = "BuildBootstrap" -> [all |-> AtomsBootstrap(pre, Len(new.rows[1].s)), seen |-> SeenBootstrap(pre, new, Len(new.rows[1].s))]
    [] e.op = "RandSubAlign" /\ a.consecutive -> [all |-> AtomsWindow(pre, a.len), seen |-> SeenWindow(pre, new, a.len)]
    [] e.op = "RandSubAlign" /\ ~a.consecutive -> [all |-> AtomsColumns(pre), seen |-> SeenColumns(pre, new, a.len)]
    [] e.op \in {"Sample", "SampleSeqBag", "Rarefy"} -> [all |-> AtomsRows(pre), seen |-> SeenRows(new)]
    [] e.op = "ShuffleSequences" -> [all |-> AtomsRowOrder(pre), seen |-> SeenRowOrder(obs[e.recv])]
    [] OTHER -> [all |-> {}, seen |-> {}]

Init == l = 1 /\ heap = <<>> /\ bad = <<>> /\ memo = <<>> /\ sup = <<>> /\ stats = [judged |-> 0, memoHits |-> 0] /\ flagged = {}

StepEvent ==
  /\ l <= Len(Trace)
  /\ LET e == Trace[l] IN
     \* (repeated calls are compared within a history: the memo starts afresh, or a long trace would pay for all its past)
     \* (except across the Resets the harness marks: its replay scripts are separate histories)
     IF e.op = "Reset" THEN heap' = <<>> /\ flagged' = {} /\ memo' = (IF "keep" \in DOMAIN e /\ e.keep THEN memo ELSE <<>>) /\ UNCHANGED <<bad, sup, stats>>
     ELSE IF e.op = "Drop" THEN      \* the harness forgets the object read back from the command line
       heap' = SubSeq(heap, 1, Len(heap) - 1) /\ flagged' = flagged \ {Len(heap)} /\ UNCHANGED <<bad, memo, sup, stats>>
     ELSE
       LET n    == Len(e.objs)
           pols == PolAfter(heap, e.op, e.recv, e.a, n)
           obs  == [i \in 1..n |-> AbsObj(e.objs[i], pols[i])]
           f    == Failing(heap, e, flagged)
           mk   == "mk" \in DOMAIN e /\ e.mk
           key  == <<e.op, e.recv, e.a, heap>>
           val  == <<e.kind, e.ret, obs>>
           hit  == mk /\ \E k \in 1..Len(memo) : memo[k][1] = key
           same == \A k \in 1..Len(memo) : memo[k][1] = key => memo[k][2] = val
           f2   == IF hit /\ ~same THEN f \cup {"deterministic"} ELSE f
           sk   == "sup" \in DOMAIN e /\ e.sup /\ e.kind = "ok" /\ f = {}
           skey == <<e.op, NoSeed(e.a), heap[e.recv]>>
           at   == SeenAtoms(heap, e, obs)
           si   == IF \E k \in 1..Len(sup) : sup[k].key = skey
                   THEN CHOOSE k \in 1..Len(sup) : sup[k].key = skey ELSE 0
       IN /\ heap' = obs
          /\ flagged' = IF e.kind = "panic" THEN flagged ELSE {i \in 1..n : ~ViewsOK(e.objs[i]) \/ ~Rect(obs[i])}
          /\ bad' = IF f2 = {} THEN bad ELSE Append(bad, [i |-> l, op |-> e.op, failing |-> SetToSeq(f2)])
          /\ memo' = IF mk /\ ~hit THEN Append(memo, <<key, val>>) ELSE memo
          /\ sup' = IF ~sk THEN sup
                    ELSE IF si = 0 THEN Append(sup, [key |-> skey, n |-> 1, seen |-> at.seen, all |-> at.all, op |-> e.op, at |-> l])
                    ELSE [sup EXCEPT ![si].n = @ + 1, ![si].seen = @ \cup at.seen]
          /\ stats' = [judged |-> stats.judged + 1, memoHits |-> stats.memoHits + (IF hit THEN 1 ELSE 0)]
  /\ l' = l + 1

Next == StepEvent
Spec == Init /\ [][Next]_vars

SupportBad == {k \in 1..Len(sup) : sup[k].n >= MinDraws /\ sup[k].seen # sup[k].all}
Done == l = Len(Trace) + 1 =>
          PrintT(<<"RESULT", ToJson([consumed |-> l - 1, bad |-> bad, judged |-> stats.judged, memoHits |-> stats.memoHits,
                                     support |-> [k \in 1..Len(sup) |-> [op |-> sup[k].op, at |-> sup[k].at, n |-> sup[k].n,
                                                    seen |-> Cardinality(sup[k].seen), all |-> Cardinality(sup[k].all),
                                                    ok |-> k \notin SupportBad]]])>>)
=============================================================================
