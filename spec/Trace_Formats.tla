----------------------------- MODULE Trace_Formats -----------------------------
(* Total trace validation of write/parse hops (C02). *)
EXTENDS Formats, Json, IOUtils, TLC
Trace == ndJsonDeserialize(IOEnv.TRACE)
VARIABLES l, bad, judged
Init == l = 1 /\ bad = <<>> /\ judged = 0
Next == /\ l <= Len(Trace)
        /\ LET e == Trace[l]
               j == HopJudged(e)
               ch == HopChecks(e)
               f == IF j THEN {k \in DOMAIN ch : ~ch[k]} ELSE {}
           IN /\ bad' = IF f = {} THEN bad ELSE Append(bad, [i |-> l, failing |-> SetToSeq(f)])
              /\ judged' = judged + (IF j THEN 1 ELSE 0)
        /\ l' = l + 1
Spec == Init /\ [][Next]_<<l, bad, judged>>
Done == l = Len(Trace) + 1 => PrintT(<<"RESULT", ToJson([consumed |-> l - 1, bad |-> bad, judged |-> judged])>>)
=============================================================================
