-------------------------------- MODULE Mask --------------------------------
(***************************************************************************)
(* Masking (property C15).  The replacement argument is the byte string     *)
(* given to the API: "" or "AMBIG" (N or X by alphabet), "GAP", "MAJ"       *)
(* (most frequent raw byte of the column), or a single character.           *)
(***************************************************************************)
EXTENDS Clean

sAMBIG == <<65, 77, 66, 73, 71>>
sGAP   == <<71, 65, 80>>
sMAJ   == <<77, 65, 74>>
ReplKind(repl) == IF repl = <<>> \/ repl = sAMBIG THEN "ambig" ELSE IF repl = sGAP THEN "gap"
                  ELSE IF repl = sMAJ THEN "maj" ELSE IF Len(repl) = 1 THEN "char" ELSE "bad"
ReplErr(o, repl) == ReplKind(repl) = "bad" \/ (ReplKind(repl) = "ambig" /\ o.al \notin {AMINOACIDS, NUCLEOTIDS})
FixedRepl(o, repl) == CASE ReplKind(repl) = "ambig" -> (IF o.al = AMINOACIDS THEN chX ELSE chN)
                        [] ReplKind(repl) = "gap" -> GAP
                        [] ReplKind(repl) = "char" -> repl[1]
                        [] OTHER -> POINT
\* most frequent raw bytes of a sequence of bytes (the candidates for "MAJ")
MajSet(col) == {c \in Range(col) : \A d \in Range(col) : Occ(col, d) <= Occ(col, c)}

\* Mask(ref, start, len, repl, nogap, noref): positions start..min(start+len, L)-1 (0-based).
MaskErr(o, ref, start, repl, noref) ==
  start < 0 \/ start > o.len \/ ReplErr(o, repl) \/ (ref # <<>> /\ noref /\ ~HasName(o, ref))
MaskWindow(o, start, len) == {i \in 1..Width(o) : i - 1 >= start /\ i - 1 < start + len}
\* is residue (r, i) rewritten?
MaskHits(o, r, i, ref, nogap, noref) ==
  /\ ~(nogap /\ o.rows[r].s[i] = GAP)
  /\ ~(noref /\ o.rows[r].s[i] = (IF ref # <<>> THEN RowOfName(o, ref).s[i] ELSE POINT))
\* relation between pre and post for a set W of masked columns (1-based; MAJ ties leave a choice per column)
AllowedMaskCols(pre, post, ref, W, repl, nogap, noref) ==
  /\ post.k = pre.k /\ post.al = pre.al /\ post.len = pre.len /\ NamesOf(post) = NamesOf(pre)
  /\ \A r \in 1..Len(pre.rows) : Len(post.rows[r].s) = Len(pre.rows[r].s)
  /\ \A i \in 1..Width(pre) :
       IF i \in W
       THEN \E rep \in (IF ReplKind(repl) = "maj" THEN MajSet(Col(pre, i)) ELSE {FixedRepl(pre, repl)}) :
              \A r \in 1..Len(pre.rows) :
                 post.rows[r].s[i] = IF MaskHits(pre, r, i, ref, nogap, noref) THEN rep ELSE pre.rows[r].s[i]
       ELSE \A r \in 1..Len(pre.rows) : post.rows[r].s[i] = pre.rows[r].s[i]
AllowedMask(pre, post, ref, start, len, repl, nogap, noref) ==
  AllowedMaskCols(pre, post, ref, MaskWindow(pre, start, len), repl, nogap, noref)
\* a list of single positions (`mask --pos`): given on the reference when there is one, every one of them converted on
\* the alignment AS IT IS BEFORE any masking ("exactly the residues at the requested positions")
MaskPosErr(o, ref, pos, repl, noref) ==
  \/ ReplErr(o, repl) \/ (ref # <<>> /\ ~HasName(o, ref))
  \/ \E k \in 1..Len(pos) : IF ref # <<>> THEN RefCoordinatesErr(o, ref, pos[k], 1) ELSE (pos[k] < 0 \/ pos[k] > o.len)
MaskPosCols(o, ref, pos) ==
  IF ref # <<>> THEN {NonGapPos(RowOfName(o, ref).s)[pos[k] + 1] : k \in 1..Len(pos)}
  ELSE {pos[k] + 1 : k \in {k \in 1..Len(pos) : pos[k] < o.len}}
AllowedMaskPos(pre, post, ref, pos, repl, nogap, noref) ==
  AllowedMaskCols(pre, post, ref, MaskPosCols(pre, ref, pos), repl, nogap, noref)

\* MaskOccurences(ref, max, repl): non-gap residues whose count in their column - ignoring the
\* reference row and residues equal to it (unless the reference has a gap there) - is <= max.
MaskOccErr(o, ref, repl) == ReplErr(o, repl) \/ (ref # <<>> /\ ~HasName(o, ref))
OccCounted(o, r, i, ref) ==
  ref = <<>> \/ (o.rows[r].n # ref /\ (o.rows[r].s[i] # RowOfName(o, ref).s[i] \/ RowOfName(o, ref).s[i] = GAP))
OccCol(o, i, ref) == LET rs == SeqOfSet({r \in 1..Len(o.rows) : OccCounted(o, r, i, ref)})
                     IN [k \in 1..Len(rs) |-> o.rows[rs[k]].s[i]]
AllowedMaskOcc(pre, post, ref, max, repl) ==
  /\ post.k = pre.k /\ post.al = pre.al /\ post.len = pre.len /\ NamesOf(post) = NamesOf(pre)
  /\ \A r \in 1..Len(pre.rows) : Len(post.rows[r].s) = Len(pre.rows[r].s)
  /\ \A i \in 1..Width(pre) :
       LET oc == OccCol(pre, i, ref) IN
       \E rep \in (IF ReplKind(repl) = "maj" THEN (IF Len(oc) = 0 THEN {POINT} ELSE MajSet(oc)) ELSE {FixedRepl(pre, repl)}) :
          \A r \in 1..Len(pre.rows) :
             LET c == pre.rows[r].s[i] IN
             post.rows[r].s[i] = IF OccCounted(pre, r, i, ref) /\ c # GAP /\ c # rep /\ Occ(oc, c) <= max /\ Occ(oc, c) > 0
                                 THEN rep ELSE c
=============================================================================
