------------------------------- MODULE MC_Sites -------------------------------
(***************************************************************************)
(* Design-level lemmas behind property C04, checked exhaustively by TLC on  *)
(* the specification: re-assembling complementary extractions reproduces    *)
(* the original alignment, for every 2-row alignment of length <= MaxLen    *)
(* over {A, C, '-', '.'}.                                                   *)
(***************************************************************************)
EXTENDS Goalign
CONSTANT MaxLen
VARIABLE al
R == {65, 67, 45, 46}
Mk(s1, s2) == [k |-> "align", al |-> NUCLEOTIDS, pol |-> 0, len |-> Len(s1),
               rows |-> <<[n |-> <<97>>, s |-> s1], [n |-> <<98>>, s |-> s2]>>]
Init == al \in UNION {{Mk(s1, s2) : s1 \in [1..k -> R], s2 \in [1..k -> R]} : k \in 0..MaxLen}
Next == UNCHANGED al
W == Width(al)

\* prefix + suffix concatenation
PrefixSuffix == \A k \in 0..W :
  LET p == SubAlignOp(al, 0, k).new[1]  q == SubAlignOp(al, k, W - k).new[1]
  IN ~SubAlignOp(al, 0, k).err /\ ~SubAlignOp(al, k, W - k).err /\ ConcatOp(p, q).o.rows = al.rows /\ ConcatOp(p, q).o.len = al.len
\* a window and its inverse coordinates partition the columns; positions likewise
WindowInverse == \A s \in 0..W : \A n \in 0..(W - s) :
  LET iv == InverseCoordinatesOp(al, s, n).ret
      cov == UNION {{iv.starts[i] + d : d \in 0..(iv.lens[i] - 1)} : i \in 1..Len(iv.starts)}
  IN cov \cap (s..(s + n - 1)) = {} /\ cov \cup (s..(s + n - 1)) = 0..(W - 1)
PositionsInverse == \A S \in SUBSET (0..(W - 1)) :
  LET inv == InversePositionsOp(al, SeqOfSet(S)).ret.sites
  IN Range(inv) \cap S = {} /\ Range(inv) \cup S = 0..(W - 1) /\ Sorted(inv)
\* every total partition map with two partitions: blocks re-interleave to the original
SplitReassemble == \A f \in [1..W -> {0, 1}] :
  (W >= 2 /\ f[1] = 0 /\ \E i \in 1..W : f[i] = 1) =>
  LET ranges == [i \in 1..W |-> [p |-> f[i], s |-> i - 1, e |-> i - 1, m |-> 1]]
      part == PartitionOf(W, ranges)
      blocks == SplitOp(al, W, part).new
      idxIn(i) == Cardinality({j \in 1..i : f[j] = f[i]})
  IN /\ ~part.err /\ part.vec = f
     /\ \A r \in 1..2 : al.rows[r].s = [i \in 1..W |-> blocks[f[i] + 1].rows[r].s[idxIn(i)]]
     /\ \A b \in 1..2 : NamesOf(blocks[b]) = NamesOf(al)
\* codon-style modulo partition assigns site i to class i mod 3
ModuloPartition == W >= 3 =>
  PartitionOf(W, [p \in 1..3 |-> [p |-> p - 1, s |-> p - 1, e |-> W - 1, m |-> 3]]).vec = [i \in 1..W |-> (i - 1) % 3]
TransposeTwice == W >= 1 => SeqsOf(TransposeOp(TransposeOp(al).new[1]).new[1]) = SeqsOf(al)
DiffRoundTrip == (\A r \in 1..2 : \A i \in 1..W : al.rows[r].s[i] # POINT) =>
  ReplaceMatchCharsOp(DiffWithFirstOp(al).o).o = al
\* reference coordinates: the window starts and ends on a reference residue and contains exactly reflen of them
RefWindowMinimal == \A st \in 0..W : \A n \in 1..W :
  LET r == RefCoordinatesOp(al, <<97>>, st, n) IN
  ~r.err => LET w == SubSeq(al.rows[1].s, r.ret.start + 1, r.ret.start + r.ret.len) IN
            /\ w[1] # GAP /\ w[Len(w)] # GAP
            /\ Len(SelectSeq(w, LAMBDA c : c # GAP)) = n
            /\ Len(SelectSeq(SubSeq(al.rows[1].s, 1, r.ret.start), LAMBDA c : c # GAP)) = st
TrimIsSubAlign == \A n \in 0..(W - 1) :
  /\ TrimSequencesOp(al, n, TRUE).o.rows = SubAlignOp(al, n, W - n).new[1].rows
  /\ TrimSequencesOp(al, n, FALSE).o.rows = SubAlignOp(al, 0, W - n).new[1].rows
=============================================================================
