------------------------------- MODULE Trace_Phase -------------------------------
(* Total trace validation of phasing / ORF-search events (C16, functional half) and of the "same results for every number of workers" relation. *)
EXTENDS Phase, Json, IOUtils, TLC
Trace == ndJsonDeserialize(IOEnv.TRACE)
VARIABLES l, bad
Init == l = 1 /\ bad = <<>>
PhaseChecks(e) ==
  LET n == Len(e.seqs)
      ok == [k \in 1..Len(e.results) |-> ~e.results[k].err]
      idx == [k \in 1..Len(e.results) |-> e.results[k].i]
      judged == {k \in 1..Len(e.results) : ~e.results[k].err /\ ~e.results[k].removed}
  IN [streamClosed |-> e.closed,
      oneEach      |-> (\A k \in 1..Len(e.results) : ~e.results[k].err) => (Len(e.results) = n /\ {idx[k] : k \in 1..Len(e.results)} = 1..n),
      substring    |-> \A k \in judged : SubstringOK(e.seqs[idx[k]], e.o, e.results[k]),
      inFrame      |-> \A k \in judged : InFrameOK(e.o, e.results[k]),
      translation  |-> \A k \in judged : TranslationOK(e.o, e.results[k]),
      verbatim     |-> Len(e.refs) >= 1 => \A k \in 1..Len(e.results) : ~e.results[k].err => VerbatimOK(e.seqs[idx[k]], e.o, e.refs, e.results[k]),
      inputsUnchanged |-> e.after = e.seqs]
Checks(e) ==
  CASE e.t = "phase" -> IF e.kind = "ok" THEN PhaseChecks(e) ELSE [noPanic |-> e.kind # "panic", streamClosed |-> e.kind # "hang", noCallError |-> e.kind # "err"]
    [] e.t = "orf" -> [errClass |-> (e.kind = "err") = (MaxORFLen(e.seqs, e.reverse) = 0),
                       longest  |-> e.kind = "ok" => LongestORFOK(e.seqs, e.reverse, e.orf),
                       inputsUnchanged |-> e.after = e.seqs]
    [] e.t = "rel" -> [sameForAnyWorkerCount |-> ((\A k \in 1..Len(e.r1) : ~e.r1[k].err) /\ (\A k \in 1..Len(e.r2) : ~e.r2[k].err)) => e.r1 = e.r2]
    [] OTHER -> [knownEvent |-> FALSE]
Next == /\ l <= Len(Trace)
        /\ LET ch == Checks(Trace[l])  f == {k \in DOMAIN ch : ~ch[k]}
           IN bad' = IF f = {} THEN bad ELSE Append(bad, [i |-> l, failing |-> SetToSeq(f)])
        /\ l' = l + 1
Spec == Init /\ [][Next]_<<l, bad>>
Done == l = Len(Trace) + 1 => PrintT(<<"RESULT", ToJson([consumed |-> l - 1, bad |-> bad])>>)
=============================================================================
