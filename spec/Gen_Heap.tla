------------------------------ MODULE Gen_Heap ------------------------------
(***************************************************************************)
(* TLC as test generator for the heap machine (model -> code direction).    *)
(* The state is the specification's heap plus the history of operation      *)
(* instances that produced it; breadth-first search enumerates every        *)
(* history up to Depth, `-simulate` samples long ones.  Each final history   *)
(* is printed as JSON and replayed on the real objects by the Go driver;     *)
(* the events it logs are then validated by Trace_Heap.                      *)
(*                                                                         *)
(* Profile selects the seed heaps and the argument space (boundary values    *)
(* -1, 0, L-1, L, L+1 for every integer argument, every name incl. an        *)
(* unknown one, every small site list, ...).                                 *)
(***************************************************************************)
EXTENDS Goalign, Json

CONSTANTS Depth, Profile, Scope
VARIABLES heap, hist, stop

nA == <<97>>  nB == <<98>>  nC == <<99>>  nZ == <<122>>
SeqsLen(S, k)  == [1..k -> S]
SeqsUpTo(S, n) == UNION {SeqsLen(S, k) : k \in 0..n}
Row(n, s) == [n |-> n, s |-> s]
NewArgs(k, al, pol, rows) == [k |-> k, al |-> al, pol |-> pol, rows |-> rows]
Inst(op, recv, a) == [op |-> op, recv |-> recv, a |-> a]
NoArg == [z |-> 0]
Bools == {TRUE, FALSE}
\* all alignments with the given row names over residue set R and length L
Aligns(names, R, L, al, pol) == {NewArgs("align", al, pol, [i \in 1..Len(names) |-> Row(names[i], ss[i])]) : ss \in [1..Len(names) -> SeqsLen(R, L)]}

RECURSIVE Pow(_, _)
Pow(b, e) == IF e <= 0 THEN 1 ELSE b * Pow(b, e - 1)
Pow4(e) == Pow(4, e)
\* the residue domain of the exhaustive codon check: A C G T U, the 11 ambiguity codes, X and O (letters that are
\* nucleotide-compatible but not IUPAC nucleotides), all in both cases, and - ? . *
CodonDomain == LET up == <<65, 67, 71, 84, 85, 82, 89, 83, 87, 75, 77, 66, 68, 72, 86, 78, 88, 79>>
                   lo == IF Scope = "full" THEN [i \in 1..Len(up) |-> up[i] + 32] ELSE <<97, 99, 103, 116, 117, 110, 121>>
               IN up \o lo \o <<45, 63, 46, 42>>

L(o) == o.len
Ints(o) == (-1)..(L(o) + 1)
AlignIds(h) == {i \in 1..Len(h) : IsAlign(h[i])}

\* ---- seeds: a heap of two objects (so that binary operations have an argument) ---------------
Seeds ==
  CASE Profile = "C06" ->
         LET dna == {65,67,71,84,82,89,83,87,75,77,66,68,72,86,78, 97,99,103,116,114,121,115,119,107,109,98,100,104,118,110, 45,46,42}
             sub == IF Scope = "full" THEN dna ELSE {65, 84, 82, 121, 110, 45, 46, 66, 118}
         IN {<<NewArgs("align", NUCLEOTIDS, 0, <<Row(nA, s)>>), NewArgs("bag", NUCLEOTIDS, 0, <<Row(nA, <<65, 45, 99>>), Row(nB, <<45>>)>>)>> : s \in SeqsLen(dna, 1) \cup SeqsLen(sub, 2)}
            \cup {<<NewArgs("align", NUCLEOTIDS, 0, <<Row(nA, <<65, 67, 45>>), Row(nB, <<114, 78, 42>>), Row(nC, <<84, 46, 103>>)>>),
                    NewArgs("align", AMINOACIDS, 0, <<Row(nA, <<65, 81>>)>>)>>}
    [] Profile = "C01" ->
         {<<x, y>> : x \in {NewArgs("align", NUCLEOTIDS, p, <<>>) : p \in {0, 1, 2}}
                          \cup {NewArgs("align", NUCLEOTIDS, p, <<Row(nA, <<65, 67>>), Row(nB, <<65, 67>>)>>) : p \in {0, 1, 2}}
                          \cup {NewArgs("bag", NUCLEOTIDS, p, <<Row(nA, <<65>>), Row(nC, <<65, 67, 97>>)>>) : p \in {0, 2}}
                          \* a name next to the name its first duplicate would get (a, a_0001): the next duplicate is a_0002
                          \cup {NewArgs(k, NUCLEOTIDS, p, <<Row(nA, <<65, 67>>), Row(<<97, 95, 48, 48, 48, 49>>, <<71, 71>>)>>) : k \in {"bag", "align"}, p \in {0, 2}}
                          \cup {NewArgs("align", NUCLEOTIDS, 0, <<Row(<<32, 98, 46, 46, 99>>, <<65, 84, 71, 45, 45, 45>>), Row(nA, <<97, 116, 103, 78, 78, 78>>)>>),
                                NewArgs("align", NUCLEOTIDS, 0, <<Row(nA, <<65, 67, 65, 45, 65>>), Row(nB, <<65, 84, 65, 45, 67>>)>>),
                                \* a row whose name is the short name another row will get (abcdefgh, abcdef01 at size 8)
                                NewArgs("align", NUCLEOTIDS, 0, <<Row(<<97, 98, 99, 100, 101, 102, 103, 104>>, <<65, 67>>), Row(<<97, 98, 99, 100, 101, 102, 48, 49>>, <<71, 71>>)>>),
                                \* a name, the same name with a suffix, and with a prefix (a, ax, xa): adding the affix to every name
                                \* gives the first row the current name of a later one
                                NewArgs("align", NUCLEOTIDS, 0, <<Row(nA, <<65, 67>>), Row(<<97, 120>>, <<71, 71>>), Row(<<120, 97>>, <<84, 84>>)>>),
                                \* names sharing a prefix (abcd1, abcd2, abxy3)
                                NewArgs("align", NUCLEOTIDS, 0, <<Row(<<97, 98, 99, 100, 49>>, <<65, 67>>), Row(<<97, 98, 99, 100, 50>>, <<65, 71>>), Row(<<97, 98, 120, 121, 51>>, <<84, 71>>)>>)},
                    y \in {NewArgs("align", NUCLEOTIDS, 0, <<Row(nB, <<71, 71>>), Row(nC, <<45, 84>>)>>),
                           NewArgs("align", NUCLEOTIDS, 0, <<>>)}}
    [] Profile = "C04" ->
         {<<x, y>> : x \in {NewArgs("align", NUCLEOTIDS, 0, <<Row(nA, <<45, 65, 45, 67>>), Row(nB, <<71, 46, 84, 67>>), Row(nC, <<71, 65, 45, 45>>)>>),
                            NewArgs("align", NUCLEOTIDS, 0, <<Row(nA, <<65, 45>>), Row(nB, <<65, 84>>)>>),
                            NewArgs("align", AMINOACIDS, 0, <<Row(nA, <<81>>)>>),
                            NewArgs("align", NUCLEOTIDS, 0, <<>>)},
                    y \in {NewArgs("align", NUCLEOTIDS, 0, <<Row(nB, <<71>>), Row(nZ, <<84>>)>>),
                           NewArgs("align", NUCLEOTIDS, 0, <<>>)}}
    [] Profile = "C05" ->
         \* (a) every codon over the full residue domain, packed: row k holds all codons starting with symbol k
         \* (b) every sequence of each length 0..6 over {A,T,G,-} as a sequence set (frames x lengths incl. the error cases)
         \* (c) reference-guided translation: every gap placement in a reference of length 6
         \* (d) codon alignment: every gap placement of a short protein alignment over its own nucleotides
         LET D == CodonDomain
             nD == Len(D)
             codonRow(k) == [p \in 1..(3 * nD * nD) |->
                               LET c == (p - 1) \div 3  j == (p - 1) % 3
                               IN IF j = 0 THEN D[k] ELSE IF j = 1 THEN D[(c \div nD) + 1] ELSE D[(c % nD) + 1]]
             allCodons(kind) == NewArgs(kind, NUCLEOTIDS, 0, [k \in 1..nD |-> Row(DecPad(k, 2), codonRow(k))])
             S4 == <<65, 84, 71, 45>>
             seqNo(k, len) == [i \in 1..len |-> S4[((k \div Pow4(len - i)) % 4) + 1]]
             allSeqs(len) == NewArgs("bag", NUCLEOTIDS, 0, [k \in 1..Pow4(len) |-> Row(DecPad(k, 4), seqNo(k - 1, len))])
             small == NewArgs("bag", NUCLEOTIDS, 0, <<Row(nA, <<65, 84, 71>>)>>)
             placements(aa, ln) == {s \in SeqsLen(Range(aa) \cup {45}, ln) : SelectSeq(s, LAMBDA c : c # 45) = aa}
             refRows == placements(<<65, 84, 71, 67, 65, 84>>, 8) \cup placements(<<65, 84, 71>>, 5) \cup {<<45, 45, 45, 65, 84, 71>>}
             ntbag == NewArgs("bag", NUCLEOTIDS, 0, <<Row(nA, <<65, 84, 71, 65, 65, 65, 84, 84>>), Row(nB, <<97, 117, 103, 67, 67, 78>>)>>)
         IN (IF Scope = "full" THEN {<<allCodons("bag"), small>>, <<allCodons("align"), small>>} ELSE {<<allCodons("bag"), small>>})
            \cup {<<allSeqs(len), small>> : len \in 0..(IF Scope = "full" THEN 6 ELSE 5)}
            \cup UNION {{<<NewArgs("align", NUCLEOTIDS, 0, <<Row(nA, r), Row(nB, o)>>), small>> :
                            o \in {[i \in 1..Len(r) |-> <<65, 84, 71, 67>>[(i % 4) + 1]], [i \in 1..Len(r) |-> <<65, 45, 71, 45, 45, 67>>[(i % 6) + 1]]}}
                         : r \in refRows}
            \cup {<<ntbag, NewArgs("align", AMINOACIDS, 0, <<Row(nA, x), Row(nB, y)>>)>> :
                     x \in placements(<<77, 75>>, 3), y \in placements(<<77, 80>>, 3)}
            \* gap-free alignments: reference-guided translation must coincide with plain translation in every frame
            \cup {<<NewArgs("align", NUCLEOTIDS, 0, <<Row(nA, <<65, 84, 71, 67, 65, 84, 71, 65>>), Row(nB, <<65, 67, 71, 84, 84, 71, 67, 65>>)>>), small>>,
                   <<NewArgs("align", NUCLEOTIDS, 0, <<Row(nA, <<97, 117, 103, 67, 82, 84, 71, 65, 65>>), Row(nB, <<65, 67, 71, 84, 84, 78, 67, 65, 84>>)>>), small>>}
            \cup {<<ntbag, NewArgs("align", AMINOACIDS, 0, <<Row(nA, <<77, 75, 88>>), Row(nB, <<77, 45, 45>>)>>)>>,
                   <<ntbag, NewArgs("align", AMINOACIDS, 0, <<Row(nA, <<77, 45, 45>>), Row(nZ, <<77, 80, 45>>)>>)>>}
    [] Profile = "C12" ->
         \* all columns of a given height over {A,a,N,n,X,-} packed side by side (both orders), and all rows of a given length
         LET R6 == <<65, 97, 78, 110, 88, 45>>
             hs == IF Scope = "full" THEN {2, 3} ELSE {2}
             cols(h, al, rev) == NewArgs("align", al, 0, [r \in 1..h |->
                                   Row(<<114, ZERO + r>>, [c \in 1..Pow(6, h) |->
                                         LET cc == IF rev THEN Pow(6, h) - c ELSE c - 1 IN R6[((cc \div Pow(6, h - r)) % 6) + 1]])])
             rows(len, al) == NewArgs("align", al, 0, [k \in 1..Pow(6, len) |->
                                   Row(DecPad(k, 3), [i \in 1..len |-> R6[(((k - 1) \div Pow(6, len - i)) % 6) + 1]])])
             other == NewArgs("align", NUCLEOTIDS, 0, <<Row(nA, <<45, 45, 65>>), Row(nB, <<45, 78, 65>>)>>)
         IN {<<cols(h, al, rev), other>> : h \in hs, al \in {NUCLEOTIDS, AMINOACIDS}, rev \in Bools}
            \cup {<<rows(len, al), other>> : len \in hs, al \in {NUCLEOTIDS, AMINOACIDS}}
            \cup {<<NewArgs("align", NUCLEOTIDS, 0, <<Row(nA, s1), Row(nB, s2)>>), other>> :
                     s1 \in {<<45, 45, 65, 45, 45>>, <<45, 65, 45, 65, 45>>}, s2 \in {<<45, 65, 65, 65, 45>>, <<45, 45, 45, 45, 45>>, <<78, 45, 65, 45, 110>>}}
    [] Profile = "C13" ->
         LET R == IF Scope = "full" THEN {65, 78, 45, 110} ELSE {65, 78, 45}
         IN {<<x, NewArgs("align", NUCLEOTIDS, 0, <<>>)>> :
               x \in Aligns(<<nA, nB, nC>>, R, 2, NUCLEOTIDS, 0)
                      \cup Aligns(<<nA, nB>>, {65, 67}, 4, NUCLEOTIDS, 0)
                      \cup Aligns(<<nA, nB, nC, nZ>>, {88, 45}, 2, AMINOACIDS, 0)
                      \cup Aligns(<<nA>>, {65, 67}, 3, NUCLEOTIDS, 0)
                      \cup Aligns(<<nA, nB, nC>>, {65, 74}, 2, UNKNOWN, 0)
                      \cup {NewArgs("bag", NUCLEOTIDS, 0, <<Row(nA, <<65>>), Row(nB, <<65, 67>>), Row(nC, <<65>>), Row(nZ, <<65, 67>>)>>),
                             NewArgs("bag", NUCLEOTIDS, 0, <<Row(nA, <<65, 78>>), Row(nB, <<65, 45>>), Row(nC, <<65>>), Row(nZ, <<>>)>>),
                             \* sequence sets a file can carry (no empty row): rows equal up to N / X against a gap, of the same and of
                             \* different lengths
                             NewArgs("bag", NUCLEOTIDS, 0, <<Row(nA, <<65, 78>>), Row(nB, <<65, 45>>), Row(nC, <<65>>), Row(nZ, <<65, 78>>)>>),
                             NewArgs("bag", AMINOACIDS, 0, <<Row(nA, <<75, 88, 81>>), Row(nB, <<75, 45, 81>>), Row(nC, <<75, 81>>)>>)}}
    [] Profile = "C14" ->
         LET R6 == <<65, 67, 97, 78, 45, 46>>
             hs == {2, 3}
             cols(h, al) == NewArgs("align", al, 0, [r \in 1..h |->
                                   Row(<<114, ZERO + r>>, [c \in 1..Pow(6, h) |-> R6[(((c - 1) \div Pow(6, h - r)) % 6) + 1]])])
             prof == NewArgs("align", NUCLEOTIDS, 0, <<Row(nA, <<65, 45, 67>>), Row(nB, <<65, 45, 45>>)>>)
         IN {<<cols(h, al), prof>> : h \in hs, al \in {NUCLEOTIDS, AMINOACIDS}}
            \cup {<<NewArgs("align", NUCLEOTIDS, 0, <<Row(nA, r), Row(nB, o), Row(nC, o2)>>), prof>> :
                     r \in SeqsLen({65, 45}, 5), o \in {<<67, 65, 67, 65, 67>>, <<67, 45, 65, 45, 82>>}, o2 \in {<<45, 45, 45, 45, 45>>, <<78, 65, 71, 71, 65>>}}
            \cup {<<NewArgs("align", AMINOACIDS, 0, [r \in 1..3 |-> Row(<<114, ZERO + r>>, [c \in 1..Pow(7, 3) |->
                       <<83, 84, 65, 67, 115, 45, 75>>[(((c - 1) \div Pow(7, 3 - r)) % 7) + 1]])]), prof>>}     \* S T A C s - K: strong / weak groups
            \* proteins with the wildcard X next to residues and gaps, in every row (the reference of the mutation counts too)
            \cup {<<NewArgs("align", AMINOACIDS, 0, [r \in 1..2 |-> Row(<<114, ZERO + r>>, [c \in 1..Pow(4, 2) |->
                       <<65, 88, 45, 75>>[(((c - 1) \div Pow(4, 2 - r)) % 4) + 1]])]), prof>>}
            \cup {<<NewArgs("align", NUCLEOTIDS, 0, <<Row(nA, <<65, 45, 67>>), Row(nB, <<71, 45, 67>>), Row(nC, <<71, 65, 45>>)>>), prof>>,
                   <<NewArgs("align", NUCLEOTIDS, 0, <<Row(nA, <<>>)>>), prof>>}
            \* every column of height 3 over characters that are not letters (stop codon, '?', a digit) next to letters and the
            \* excluded ones, in both column orders: whatever a site computation carries over from its neighbours shows here
            \cup {<<NewArgs("align", AMINOACIDS, 0, [r \in 1..3 |-> Row(<<114, ZERO + r>>, [c \in 1..Pow(6, 3) |->
                       LET cc == IF rev THEN Pow(6, 3) - c ELSE c - 1 IN <<42, 63, 65, 88, 45, 49>>[((cc \div Pow(6, 3 - r)) % 6) + 1]])]), prof>> : rev \in Bools}
    [] Profile = "C15" ->
         LET R4 == <<65, 67, 45, 78>>
             cols(h, al) == NewArgs("align", al, 0, [r \in 1..h |->
                                   Row(<<114, ZERO + r>>, [c \in 1..Pow(4, h) |-> R4[(((c - 1) \div Pow(4, h - r)) % 4) + 1]])])
             other == NewArgs("align", NUCLEOTIDS, 0, <<>>)
         IN {<<cols(3, al), other>> : al \in {NUCLEOTIDS, AMINOACIDS}}
            \* (cols(3, AMINOACIDS) is a protein alignment written with letters that are nucleotide codes too: A C - N)
            \cup {<<x, other>> : x \in Aligns(<<<<114, 49>>, <<114, 50>>>>, {65, 45}, 2, NUCLEOTIDS, 0)}
            \cup {<<NewArgs("align", NUCLEOTIDS, 0, <<Row(<<114, 49>>, <<65, 46, 45>>), Row(<<114, 50>>, <<46, 46, 67>>)>>), other>>}
            \cup (IF Scope = "full" THEN {<<x, other>> : x \in Aligns(<<<<114, 49>>, <<114, 50>>, <<114, 51>>>>, {65, 67, 45}, 1, NUCLEOTIDS, 0)} ELSE {})
    [] Profile = "C19" ->
         {<<NewArgs("align", NUCLEOTIDS, 0, <<Row(<<97, 32, 98>>, <<65, 67, 71, 84>>), Row(<<99, 46, 100, 58, 49>>, <<65, 45, 71, 78>>), Row(<<40, 101, 41>>, <<84, 84, 97, 45>>)>>),
            NewArgs("bag", NUCLEOTIDS, 0, <<Row(nA, <<65, 84, 71, 45, 67>>), Row(nB, <<71>>)>>)>>,
          <<NewArgs("align", NUCLEOTIDS, 0, <<Row(nA, <<67, 67, 65, 84, 71, 65, 65, 65, 67, 67, 67, 84, 65, 65, 71, 71>>), Row(nB, <<65, 84, 71, 65, 65, 71, 67, 67, 67, 84, 65, 65, 71, 71, 71, 71>>)>>),
            NewArgs("bag", NUCLEOTIDS, 0, <<Row(nZ, <<65, 84, 71, 65, 65, 65, 67, 67, 67, 84, 65, 65>>)>>)>>,
          <<NewArgs("align", NUCLEOTIDS, 0, <<Row(nA, <<65, 67, 71, 84>>), Row(nB, <<65, 45, 71, 78>>), Row(nC, <<84, 84, 97, 45>>)>>),
            NewArgs("bag", NUCLEOTIDS, 0, <<Row(nA, <<65, 84, 71, 45, 67>>), Row(nB, <<71>>)>>)>>,
          <<NewArgs("align", AMINOACIDS, 0, <<Row(nA, <<77, 75, 45>>), Row(nB, <<77, 81, 88>>)>>),
            NewArgs("align", NUCLEOTIDS, 0, <<Row(nC, <<65, 84, 71>>)>>)>>,
          \* alignments whose declared alphabet is not what detection would say (protein / undetermined, written with letters that
          \* are nucleotide codes too): a computation that re-detects the alphabet of its input changes that input
          <<NewArgs("align", AMINOACIDS, 0, <<Row(nA, <<65, 67, 71, 84, 78>>), Row(nB, <<65, 67, 71, 65, 78>>), Row(nC, <<84, 84, 71, 65, 67>>)>>),
            NewArgs("align", 3, 0, <<Row(nA, <<65, 67, 71, 84>>), Row(nB, <<65, 71, 71, 84>>)>>)>>,
          \* proteins with gaps, '.', '*' in rows that differ elsewhere (distance computations compare them pairwise);
          \* reads whose best ORF is on the minus strand (CTATTTCAT) followed by one with a longer ORF on the plus strand
          <<NewArgs("align", AMINOACIDS, 0, <<Row(nA, <<65, 82, 78, 68, 45, 81, 69, 42>>), Row(nB, <<65, 82, 75, 68, 67, 81, 46, 71>>), Row(nC, <<65, 82, 78, 69, 67, 81, 69, 71>>)>>),
            NewArgs("bag", NUCLEOTIDS, 0, <<Row(nA, <<71, 67, 84, 65, 84, 84, 84, 67, 65, 84, 71, 71>>), Row(nB, <<67, 67, 65, 84, 71, 65, 65, 65, 67, 67, 67, 84, 65, 71, 67, 67>>)>>)>>}
    [] Profile = "C04b" ->
         {<<NewArgs("align", NUCLEOTIDS, 0, <<Row(nA, <<65, 67, 71, 84, 65>>), Row(nB, <<67, 45, 84, 65, 71>>)>>),
            NewArgs("align", NUCLEOTIDS, 0, <<Row(nA, <<110, 110>>), Row(nB, <<121, 121>>)>>)>>}
    [] Profile = "C10" ->
         {<<NewArgs("align", NUCLEOTIDS, 0, <<Row(nA, <<65, 67, 71, 84>>), Row(nB, <<67, 45, 84, 65>>), Row(nC, <<71, 84, 46, 67>>)>>),
            NewArgs("align", AMINOACIDS, 0, <<Row(nA, <<65, 42>>), Row(nB, <<81, 45>>)>>)>>,
          <<NewArgs("align", NUCLEOTIDS, 0, <<Row(nA, <<65>>)>>), NewArgs("align", NUCLEOTIDS, 0, <<Row(nA, <<65, 67>>), Row(nB, <<71, 84>>)>>)>>,
          \* eight pairwise different rows: several pairs are swapped / recombined in one call, at different break points
          <<NewArgs("align", NUCLEOTIDS, 0, [r \in 1..8 |-> Row(<<114, ZERO + r>>, [c \in 1..10 |-> <<65, 67, 71, 84>>[(((r * 3 + c * r + (c \div 3)) % 4) + 1)]])]),
            NewArgs("align", NUCLEOTIDS, 0, <<Row(nA, <<65>>)>>)>>}
    [] OTHER -> {}

\* ---- operation instances enabled in a heap ------------------------------------------------------
Names3 == {nA, nB, nZ}
Rg(p, s, e, m) == [p |-> p, s |-> s, e |-> e, m |-> m]
RangeLists(pl) == {<<Rg(0, 0, pl - 1, 2), Rg(1, 1, pl - 1, 2)>>,
                   <<Rg(0, 0, 0, 1), Rg(1, 1, pl - 1, 1)>>,
                   <<Rg(0, 0, pl - 1, 3), Rg(1, 1, pl - 1, 3), Rg(2, 2, pl - 1, 3)>>,
                   <<Rg(0, 0, pl - 1, 1)>>,
                   <<Rg(0, 0, pl, 1), Rg(1, 0, 0, 1)>>,
                   <<Rg(1, 1, pl - 1, 1), Rg(0, 0, 0, 1), Rg(1, 0, 0, 0)>>,
                   <<Rg(1, 1, pl - 1, 1), Rg(0, 0, 0, 1)>>,
                   <<Rg(0, 0, pl - 1, 1), Rg(1, 0, 0, 1)>>,
                   <<Rg(0, 0, pl - 3, 2), Rg(0, pl - 2, pl - 1, 1), Rg(1, 1, pl - 3, 2)>>,
                   <<Rg(0, 0, 1, 2), Rg(0, 2, pl - 1, 1), Rg(1, 1, 1, 1)>>,
                   \* a stepped interval whose declared end is past the alignment although its last visited site is inside
                   <<Rg(0, 0, pl, 2), Rg(1, 1, pl - 1, 2)>>, <<Rg(0, 0, pl + 1, 2), Rg(1, 1, pl - 1, 2)>>,
                   <<Rg(0, 0, pl, 3), Rg(1, 1, pl - 1, 3), Rg(2, 2, pl - 1, 3)>>,
                   <<Rg(0, 0, pl - 1, 3), Rg(1, 1, pl + 1, 3), Rg(2, 2, pl - 1, 3)>>}
InstC06(h) ==
  UNION {{Inst("ReverseComplement", r, NoArg), Inst("ToUpper", r, NoArg), Inst("ToLower", r, NoArg), Inst("Unalign", r, NoArg)}
         \cup {Inst("ReverseComplementSequences", r, [names |-> ns]) : ns \in SeqsUpTo(Names3, 2)}
         : r \in 1..Len(h)}
InstC01(h) ==
  {Inst("NewFromFasta", 0, [al |-> NUCLEOTIDS, rows |-> rs]) :
      rs \in {<<Row(nA, <<65, 67, 71, 84>>), Row(nB, <<65, 67>>), Row(nC, <<84, 84, 84, 84>>)>>,       \* the odd one in the middle
              <<Row(nA, <<65, 67, 71, 84>>), Row(nB, <<65, 67, 71, 71>>), Row(nC, <<84, 84>>)>>,         \* at the end
              <<Row(nA, <<65, 67>>), Row(nB, <<65, 67, 71, 71>>), Row(nC, <<84, 84, 71, 71>>)>>,         \* the first one is the odd one
              <<Row(nA, <<65, 67, 71, 84>>), Row(nB, <<65, 67, 71, 71>>), Row(nA, <<84, 84, 71, 65>>)>>, \* a repeated name
              <<Row(nA, <<65, 67, 71, 84>>), Row(nB, <<65, 45, 71, 71>>)>>}}
  \cup UNION {
    {Inst("Add", r, [name |-> n, seq |-> s]) : n \in {nA, nC}, s \in {<<65, 67>>, <<97, 67>>, <<65>>, <<71, 71>>}}   \* aC: the stored row up to case
    \cup {Inst("Rename", r, [map |-> m]) : m \in {<<[f |-> nA, t |-> nZ]>>, <<[f |-> nA, t |-> nB], [f |-> nB, t |-> nA]>>,
                                                 <<[f |-> nA, t |-> nB]>>, <<[f |-> nZ, t |-> nA]>>}}
    \cup {Inst("RenameRegexp", r, [lit |-> nA, repl |-> <<122, 122>>]), Inst("RenameRegexp", r, [lit |-> <<46>>, repl |-> <<>>])}
    \cup {Inst("Describe", r, [what |-> w]) : w \in {"length", "nseq", "taxa"}}
    \cup {Inst("CleanNames", r, NoArg), Inst("TrimNamesAuto", r, [curid |-> 1]), Inst("Sort", r, NoArg), Inst("Clear", r, NoArg),
          Inst("Deduplicate", r, [nasgap |-> FALSE]), Inst("Deduplicate", r, [nasgap |-> TRUE]),
          Inst("CloneSeqBag", r, NoArg), Inst("AutoAlphabet", r, NoArg), Inst("ShuffleSequences", r, [seed |-> 7]),
          Inst("ToUpper", r, NoArg), Inst("Unalign", r, NoArg)}
    \cup {Inst("TrimNames", r, [size |-> k]) : k \in {1, 2, 3, 5, 8}}
    \* a name map that already holds the short name of a LATER row (or of a name that is not there)
    \cup {Inst("TrimNames", r, [size |-> 4, prev |-> pv]) :
            pv \in {<<[f |-> <<97, 98, 99, 100, 50>>, t |-> <<97, 98, 48, 49>>]>>, <<[f |-> <<97, 98, 120, 121, 51>>, t |-> <<97, 98, 48, 50>>]>>,
                    <<[f |-> <<122, 122, 122>>, t |-> <<97, 98, 48, 49>>]>>}}
    \cup {Inst("AppendSeqIdentifier", r, [id |-> i, right |-> b]) : i \in {<<>>, <<120>>}, b \in Bools}
    \cup {Inst("FilterLength", r, [min |-> a, max |-> b]) : a \in {-1, 1, 2, 3}, b \in {-1, 1, 2}}
    \cup {Inst("Translate", r, [frame |-> f, code |-> 0]) : f \in {-1, 0, 1}}
    \cup {Inst("SetSequenceChar", r, [i |-> i, j |-> j, c |-> 71]) : i \in {-1, 0, Len(h[r].rows)}, j \in {-1, 0, 2}}
    \cup {Inst("Replace", r, [old |-> <<65>>, new |-> <<84>>]), Inst("Replace", r, [old |-> <<65>>, new |-> <<84, 84>>])}
    \cup {Inst("Sample", r, [nb |-> k, seed |-> 3]) : k \in {0, 1, Len(h[r].rows), Len(h[r].rows) + 1} \cap (IF IsAlign(h[r]) THEN 0..9 ELSE {})}
    \cup (IF IsAlign(h[r])
          THEN {Inst("Clone", r, NoArg), Inst("RemoveGapSeqs", r, [p |-> 1, q |-> 2, ins |-> FALSE])}
               \* (an alignment without rows - from the start, or emptied by a cleaning of sequences - has no site to remove:
               \* the call returns; what it reports is not judged)
               \cup (IF FALSE THEN {} ELSE
                     {Inst("RemoveMajorityCharacterSites", r, [p |-> 3, q |-> 4, ends |-> e, igaps |-> FALSE, ins |-> FALSE]) : e \in Bools}
                     \cup {Inst("RemoveCharacterSites", r, [chars |-> <<65>>, p |-> 1, q |-> 1, ends |-> e, icase |-> FALSE, igaps |-> FALSE, ins |-> FALSE, rev |-> FALSE]) : e \in Bools}
                     \cup {Inst("RemoveGapSites", r, [p |-> 1, q |-> 2, ends |-> e]) : e \in Bools})
               \cup {Inst("ReplaceChar", r, [name |-> n, site |-> s, c |-> 71]) : n \in {nA, nZ}, s \in {-1, 0, L(h[r])}}
               \cup {Inst("Append", r, [other |-> x]) : x \in AlignIds(h) \ {r}}
               \cup {Inst("Concat", r, [other |-> x]) : x \in AlignIds(h) \ {r}}
          ELSE {})
    : r \in 1..Len(h)}
InstC04(h) ==
  UNION {
    IF ~IsAlign(h[r]) THEN {} ELSE
    {Inst("SubAlign", r, [start |-> s, len |-> n]) : s \in Ints(h[r]), n \in Ints(h[r])}
    \cup {Inst("InverseCoordinates", r, [start |-> s, len |-> n]) : s \in Ints(h[r]), n \in Ints(h[r])}
    \* one region of one or two blocks (any order, overlapping, empty, out of range), either strand, translated or not
    \cup {Inst("Extract", r, [blocks |-> bs, minus |-> m, code |-> c, ref |-> <<>>]) :
             bs \in {<<[s |-> s1, e |-> e1]>> : s1 \in {-1, 0, 1}, e1 \in {1, L(h[r]), L(h[r]) + 1}}
                    \cup {<<[s |-> 1, e |-> L(h[r])], [s |-> 0, e |-> 2]>>, <<[s |-> 0, e |-> 1], [s |-> 0, e |-> 1]>>,
                           <<[s |-> L(h[r]) - 1, e |-> L(h[r])], [s |-> 0, e |-> 0]>>},
             m \in Bools, c \in {-1, 0}}
    \cup {Inst("Extract", r, [blocks |-> <<[s |-> s1, e |-> e1]>>, minus |-> FALSE, code |-> -1, ref |-> n]) :
             n \in {nA, nZ}, s1 \in {0, 1}, e1 \in {1, 2, L(h[r])}}
    \cup {Inst("SelectSites", r, [sites |-> ss]) : ss \in SeqsUpTo((-1)..L(h[r]), 2) \cup {<<0, 0, 0>>}}
    \cup {Inst("InversePositions", r, [sites |-> ss]) : ss \in SeqsUpTo((-1)..L(h[r]), 2)}
    \cup {Inst("TrimSequences", r, [n |-> n, fromstart |-> b]) : n \in Ints(h[r]), b \in Bools}
    \cup {Inst("RefCoordinates", r, [name |-> n, start |-> s, len |-> k]) : n \in {nA, nC, nZ}, s \in (-1)..L(h[r]), k \in 0..(L(h[r]) + 1)}
    \cup {Inst("RefSites", r, [name |-> n, sites |-> ss]) : n \in {nA, nZ}, ss \in SeqsUpTo((-1)..L(h[r]), 2)}
    \cup {Inst("Concat", r, [other |-> x]) : x \in AlignIds(h) \ {r}}
    \cup {Inst("Append", r, [other |-> x]) : x \in AlignIds(h) \ {r}}
    \cup UNION {{Inst("Split", r, [plen |-> pl, ranges |-> rs, text |-> tx]) : rs \in RangeLists(pl), tx \in Bools} : pl \in {L(h[r]), L(h[r]) + 1} \cap 0..9}
    \cup {Inst("Transpose", r, NoArg), Inst("DiffWithFirst", r, NoArg), Inst("ReplaceMatchChars", r, NoArg)}
    : r \in 1..Len(h)}
Cutoffs == {<<0, 1>>, <<1, 4>>, <<1, 3>>, <<1, 2>>, <<2, 3>>, <<3, 4>>, <<1, 1>>}
CutoffsOut == {<<-1, 2>>, <<3, 2>>}
InstC05(h) ==
  (IF h[1].k = "bag" \/ Len(h[1].rows) > 2
   THEN IF Len(h[1].rows) = Len(CodonDomain)
        THEN {Inst("Translate", 1, [frame |-> 0, code |-> c]) : c \in {0, 1, 2}}
             \cup (IF Scope = "full" THEN {Inst("Translate", 1, [frame |-> -1, code |-> 0]), Inst("Translate", 1, [frame |-> 1, code |-> 1]),
                                           Inst("Translate", 1, [frame |-> 2, code |-> 2])} ELSE {})
        ELSE {Inst("Translate", 1, [frame |-> f, code |-> c]) : f \in {-1, 0, 1, 2}, c \in {0, 3}}
   ELSE {})
  \cup (IF IsAlign(h[1]) /\ Len(h[1].rows) = 2
        THEN {Inst("TranslateByReference", 1, [ref |-> n, frame |-> f, code |-> c]) : n \in {nA, nB, nZ, <<>>}, f \in {0, 1, 2}, c \in {0, 1}}
             \cup {Inst("TranslateByReference", 1, [ref |-> nA, frame |-> -1, code |-> 0])}      \* "all three frames" does not exist here: an error
        ELSE {})
  \cup (IF Len(h) >= 2 /\ IsAlign(h[2]) /\ h[2].al = AMINOACIDS THEN {Inst("CodonAlign", 2, [nt |-> 1, code |-> 0])} ELSE {})
InstC12(h) ==
  LET r == 1  o == h[1]  big == Width(o) > 5 IN
  {Inst("RemoveCharacterSites", r, [chars |-> cs, p |-> c[1], q |-> c[2], ends |-> e, icase |-> ic, igaps |-> ig, ins |-> ins, rev |-> rv]) :
      cs \in (IF Scope = "full" THEN {<<65>>, <<110>>, <<45>>, <<65, 45>>} ELSE {<<110>>, <<65, 45>>}),
      c \in Cutoffs \cup (IF Scope = "full" THEN CutoffsOut ELSE {}), e \in Bools, ic \in Bools, ig \in Bools, ins \in Bools, rv \in Bools}
  \cup {Inst("RemoveGapSites", r, [p |-> c[1], q |-> c[2], ends |-> e]) : c \in Cutoffs \cup CutoffsOut, e \in Bools}
  \cup {Inst("RemoveMajorityCharacterSites", r, [p |-> c[1], q |-> c[2], ends |-> e, igaps |-> ig, ins |-> ins]) :
           c \in Cutoffs, e \in Bools, ig \in Bools, ins \in Bools}
  \cup {Inst("RemoveCharacterSeqs", r, [c |-> ch, p |-> c[1], q |-> c[2], icase |-> ic, igaps |-> ig, ins |-> ins]) :
           ch \in {65, 110, 45}, c \in Cutoffs \cup CutoffsOut, ic \in Bools, ig \in Bools, ins \in Bools}
  \cup {Inst("RemoveGapSeqs", r, [p |-> c[1], q |-> c[2], ins |-> ins]) : c \in Cutoffs \cup CutoffsOut, ins \in Bools}
InstC13(h) ==
  {Inst("Deduplicate", 1, [nasgap |-> b]) : b \in Bools}
  \cup (IF IsAlign(h[1]) THEN {Inst("Compress", 1, NoArg)} ELSE {})
  \cup (IF Len(hist) = 3 /\ hist[3].op = "Deduplicate" THEN {} ELSE {})
InstC14(h) ==
  LET r == 1  o == h[1]  W == Width(o)
      sites == {-1, 0, 1, W - 1, W} IN
  {Inst("MaxCharStats", r, [igaps |-> a, ins |-> b]) : a \in Bools, b \in Bools}
  \cup {Inst("Consensus", r, [igaps |-> a, ins |-> b]) : a \in Bools, b \in Bools}
  \cup {Inst("CharStats", r, NoArg), Inst("UniqueCharacters", r, NoArg), Inst("NbVariableSites", r, NoArg), Inst("InformativeSites", r, NoArg),
        Inst("AvgAllelesPerSite", r, NoArg), Inst("CountProfile", r, NoArg), Inst("CountDifferences", r, NoArg)}
  \cup {Inst("CharStatsSite", r, [site |-> s]) : s \in sites}
  \cup {Inst("ProfileOnly", r, [c |-> ch]) : ch \in {65, 97, 81, 45}}
  \cup {Inst("SiteConservation", r, [site |-> s]) : s \in sites \cup (IF W <= 36 THEN 0..(W - 1) ELSE {})}
  \cup {Inst("AlphabetInfo", r, [chars |-> <<65, 97, 67, 81, 113, 78, 45, 88, 42, 85>>])}
  \cup {Inst("CharStatsSeq", r, [idx |-> s]) : s \in {-1, 0, Len(o.rows) - 1, Len(o.rows)}}
  \cup (IF Len(o.rows) > 0 /\ W >= 1 THEN {Inst("EntropyAll", r, [rmgaps |-> b, avg |-> v]) : b \in Bools, v \in Bools} ELSE {})
  \cup (IF Len(o.rows) > 0 THEN {Inst("Entropy", r, [site |-> s, rmgaps |-> b]) : s \in sites \cup (IF W <= 36 THEN 0..(W - 1) ELSE {}), b \in Bools} ELSE {})
  \cup (IF Len(o.rows) > 0 THEN {Inst("Pssm", r, [log |-> lg, pc |-> pc, norm |-> nm]) : lg \in Bools, pc \in {"0", "1", "0.5"}, nm \in {0, 1, 2, 3}} \ {Inst("Pssm", r, [log |-> TRUE, pc |-> "0", norm |-> nm]) : nm \in {0, 1, 2, 3}} ELSE {})
  \cup (IF Len(o.rows) > 0 THEN {Inst("NumGapsUnique", r, [prof |-> p]) : p \in {0, 1} \cup (IF Width(h[2]) = W THEN {2} ELSE {})} ELSE {})
  \cup (IF Len(o.rows) > 0 THEN {Inst("NumMutationsUnique", r, [prof |-> p]) : p \in {0, 1} \cup (IF Width(h[2]) = W THEN {2} ELSE {})} ELSE {})
  \cup {Inst("NumMutRef", r, [i |-> i, refi |-> j]) : i \in 0..(Len(o.rows) - 1), j \in 0..(Len(o.rows) - 1)}
  \cup {Inst("ListMutRef", r, [i |-> i, refi |-> j]) : i \in 0..(Len(o.rows) - 1), j \in 0..(Len(o.rows) - 1)}
Repls == {<<>>, sAMBIG, sGAP, sMAJ, <<90>>, <<122, 122>>, <<110>>}       \* n: a replacement character is written as given
InstC15(h) ==
  LET r == 1  o == h[1]  W == Width(o)
      big == W > 8
      refs == IF big THEN {<<>>, <<114, 49>>, <<114, 50>>, nZ} ELSE {<<>>, <<114, 50>>}
      starts == IF big THEN {-1, 0, 1, W - 1, W, W + 1} ELSE {-1, 0, 1, W, W + 1}
      lens == IF big THEN {0, 1, 2, W, W + 2} ELSE {0, 1, W + 2}
      repls == IF big THEN Repls ELSE {<<>>, sMAJ, <<45>>, <<120>>} IN
  {Inst("Mask", r, [ref |-> rf, start |-> s, len |-> n, repl |-> rp, nogap |-> ng, noref |-> nr]) :
      rf \in refs, s \in starts, n \in lens, rp \in repls, ng \in Bools, nr \in Bools}
  \* lengths of 2^30 + k stand for the largest integers (MaxInt64 - k) in the call: start + length must not wrap around
  \cup {Inst("Mask", r, [ref |-> <<>>, start |-> s, len |-> 1073741824 + k, repl |-> <<>>, nogap |-> FALSE, noref |-> FALSE]) : s \in {0, 1}, k \in {0, 1}}
  \cup {Inst("MaskOccurences", r, [ref |-> rf, max |-> m, repl |-> rp]) : rf \in refs, m \in 0..(Len(o.rows) + 1), rp \in repls}
  \cup {Inst("MaskUnique", r, [ref |-> rf, repl |-> rp]) : rf \in refs, rp \in repls}
  \cup {Inst("MaskPositions", r, [ref |-> rf, pos |-> ps, repl |-> rp, nogap |-> ng, noref |-> FALSE]) :
           rf \in {<<>>, <<114, 50>>}, ps \in {<<0, 1>>, <<1, 0>>, <<0, 2, 1>>, <<W - 1>>, <<0, W>>, <<1, 1>>}, rp \in {sGAP, sMAJ, <<>>}, ng \in Bools}
\* C19: a copy-producing or read-only operation, then a mutation of any live object (original or copy)
Queries == {"fasta", "fastaseq", "phylip", "nexus", "clustal", "stockholm", "paml", "dist", "protdist", "protdist2", "sw", "swatg", "orf", "string", "phaseref", "phasentref"}
InstC19(h) ==
  IF Len(hist) = 2 THEN
    UNION {
      {Inst("CloneSeqBag", r, NoArg), Inst("Unalign", r, NoArg), Inst("LongestORFObj", r, [rev |-> TRUE]), Inst("LongestORFObj", r, [rev |-> FALSE])}
      \cup (IF IsAlign(h[r]) THEN
              {Inst("Clone", r, NoArg), Inst("Transpose", r, NoArg)}
              \cup {Inst("SubAlign", r, [start |-> s, len |-> n]) : s \in 0..L(h[r]), n \in 0..L(h[r])}
              \cup {Inst("SelectSites", r, [sites |-> ss]) : ss \in {[i \in 1..L(h[r]) |-> i - 1], <<0>>, <<L(h[r]) - 1, 0>>, <<>>}}
              \cup {Inst("Split", r, [plen |-> L(h[r]), ranges |-> <<Rg(0, 0, 0, 1), Rg(1, 1, L(h[r]) - 1, 1)>>, text |-> FALSE])}
              \cup {Inst("Query", r, [q |-> q, other |-> IF r = 1 THEN 2 ELSE 1]) : q \in Queries}
              \cup {Inst("CharStats", r, NoArg), Inst("CountDifferences", r, NoArg), Inst("Entropy", r, [site |-> 0, rmgaps |-> TRUE]),
                    Inst("InversePositions", r, [sites |-> <<0>>]), Inst("RefSites", r, [name |-> nA, sites |-> <<0>>])}
            ELSE {})
      : r \in 1..Len(h)}
  ELSE
    UNION {
      {Inst("SetSequenceChar", r, [i |-> 0, j |-> 0, c |-> 103]), Inst("ToLower", r, NoArg), Inst("Rename", r, [map |-> <<[f |-> nA, t |-> nZ]>>]),
       Inst("Replace", r, [old |-> <<65>>, new |-> <<71>>])}
      \cup (IF IsAlign(h[r]) THEN {Inst("Concat", r, [other |-> x]) : x \in AlignIds(h) \ {r}} ELSE {})
      \cup (IF IsAlign(h[r]) THEN {Inst("ReplaceChar", r, [name |-> nA, site |-> L(h[r]) - 1, c |-> 99]), Inst("ReverseComplement", r, NoArg),
                                   Inst("Mask", r, [ref |-> <<>>, start |-> 0, len |-> 9, repl |-> <<90>>, nogap |-> FALSE, noref |-> FALSE]),
                                   Inst("DiffWithFirst", r, NoArg), Inst("TrimSequences", r, [n |-> 1, fromstart |-> TRUE])}
            ELSE {})
      : r \in 1..Len(h)}
Rates == {<<-1, 4>>, <<0, 4>>, <<1, 4>>, <<2, 4>>, <<4, 4>>, <<5, 4>>}
InstC10(h) ==
  LET r == 1 IN
  {Inst("ShuffleSequences", r, [seed |-> 5])}
  \cup {Inst("ShuffleSites", r, [rp |-> a[1], rq |-> 4, gp |-> b[1], gq |-> 4, first |-> f, seed |-> 5]) : a \in Rates \ {<<-1, 4>>, <<5, 4>>}, b \in Rates \ {<<-1, 4>>, <<5, 4>>}, f \in Bools}
  \cup {Inst("Swap", r, [rp |-> a[1], rq |-> 4, posp |-> b[1], posq |-> 4, seed |-> 5]) : a \in Rates, b \in Rates}
  \cup (IF Len(h[r].rows) >= 8
        THEN {Inst("Swap", r, [rp |-> a, rq |-> 4, posp |-> -1, posq |-> 4, seed |-> sd]) : a \in {2, 4}, sd \in 1..10}
             \cup {Inst("Recombine", r, [pp |-> a, pq |-> 4, lp |-> b, lq |-> 4, swap |-> sw, seed |-> sd]) : a \in {2, 4}, b \in {1, 2}, sw \in Bools, sd \in 1..4}
        ELSE {})
  \cup {Inst("SimulateRogue", r, [pp |-> a[1], pq |-> 4, lp |-> b[1], lq |-> 4, seed |-> 5]) : a \in Rates, b \in Rates}
  \cup {Inst("BuildBootstrap", r, [fp |-> a[1], fq |-> 4, seed |-> 5]) : a \in Rates}
  \cup {Inst("Sample", r, [nb |-> k, seed |-> 5]) : k \in 0..(Len(h[r].rows) + 1)}
  \cup {Inst("RandSubAlign", r, [len |-> k, consecutive |-> c, seed |-> 5]) : k \in (-1)..(L(h[r]) + 1), c \in Bools}
  \cup {Inst("Mutate", r, [rp |-> a[1], rq |-> 4, seed |-> 5]) : a \in Rates}
  \cup {Inst("AddGaps", r, [pp |-> a[1], pq |-> 4, lp |-> b[1], lq |-> 4, seed |-> 5]) : a \in Rates, b \in Rates}
  \cup {Inst("Recombine", r, [pp |-> a[1], pq |-> 8, lp |-> b[1], lq |-> 4, swap |-> sw, seed |-> 5]) : a \in Rates, b \in Rates, sw \in Bools}
\* an extraction, then something concatenated / appended onto the extracted object, then further extractions from the source
InstC04b(h) ==
  IF Len(hist) = 2 THEN {Inst("SubAlign", 1, [start |-> s, len |-> n]) : s \in 0..L(h[1]), n \in 0..L(h[1])}
                        \cup {Inst("SelectSites", 1, [sites |-> ss]) : ss \in {<<0, 1>>, <<1, 3>>, <<2>>}}
                        \cup {Inst("TrimSequences", 1, [n |-> 2, fromstart |-> b]) : b \in Bools}
  ELSE IF Len(hist) = 3 THEN (IF Len(h) >= 3 THEN {Inst("Concat", 3, [other |-> 2]), Inst("Concat", 3, [other |-> 1])} ELSE {Inst("Concat", 1, [other |-> 2])})
  ELSE {Inst("SubAlign", 1, [start |-> s, len |-> L(h[1]) - s]) : s \in {0, 2}} \cup {Inst("SelectSites", 1, [sites |-> <<L(h[1]) - 1, 0>>])}
Instances(h) ==
  CASE Profile = "C06" -> InstC06(h)
    [] Profile = "C04b" -> InstC04b(h)
    [] Profile = "C05" -> InstC05(h)
    [] Profile = "C12" -> InstC12(h)
    [] Profile = "C13" -> InstC13(h)
    [] Profile = "C14" -> InstC14(h)
    [] Profile = "C15" -> InstC15(h)
    [] Profile = "C19" -> InstC19(h)
    [] Profile = "C10" -> InstC10(h)
    [] Profile = "C01" -> InstC01(h)
    [] Profile = "C04" -> InstC04(h)
    [] OTHER -> {}

\* ---- the machine -----------------------------------------------------------------------------------
ApplyRes(h, recv, R) == IF R.err THEN h ELSE [i \in 1..Len(h) |-> IF i = recv THEN R.o ELSE h[i]] \o R.new
Ends(st) == st.op \in RelationalOps     \* the code resolves the choice: the model cannot follow, the history ends
Final == Len(hist) >= Depth + 2 \/ stop

Init == \E sd \in Seeds :
          /\ heap = <<FromRows(sd[1].k, sd[1].al, sd[1].pol, sd[1].rows), FromRows(sd[2].k, sd[2].al, sd[2].pol, sd[2].rows)>>
          /\ hist = <<Inst("New", 0, sd[1]), Inst("New", 0, sd[2])>>
          /\ stop = FALSE
Next == /\ ~Final
        /\ \E st \in Instances(heap) :
             /\ hist' = Append(hist, st)
             /\ IF Ends(st) THEN heap' = heap /\ stop' = TRUE
                ELSE LET R == Step(heap, st.op, st.recv, st.a) IN
                     IF R.j THEN /\ heap' = ApplyRes(heap, st.recv, R)
                                 /\ stop' = ~(\A i \in 1..Len(heap') : Rect(heap'[i]))   \* see RaggedOnlyBy3Frames
                     ELSE IF st.op \in UnjudgedCreators
                     THEN heap' = heap /\ stop' = FALSE    \* an object the machine does not predict joined the real heap: the
                                                           \* history goes on over the objects the machine knows
                     ELSE heap' = heap /\ stop' = TRUE      \* state after the call is not pinned: the history ends
Spec == Init /\ [][Next]_<<heap, hist, stop>>

Emit == Final => PrintT(ToJson([steps |-> hist]))
\* design-level invariants of the specified machine (checked while generating)
RectInv == stop \/ \A i \in 1..Len(heap) : Rect(heap[i])
\* The documented meaning of translating an ALIGNMENT in all three frames (three rows per input row,
\* floor((L-f)/3) residues each) yields rows of different lengths unless L mod 3 = 2: the one place where
\* the documented operations do not preserve rectangularity (recorded as a finding, DESIGN.md section 3).
RaggedOnlyBy3Frames == (\E i \in 1..Len(heap) : ~Rect(heap[i])) =>
                          LET st == hist[Len(hist)] IN st.op = "Translate" /\ st.a.frame = -1
=============================================================================
