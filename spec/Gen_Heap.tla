------------------------------ MODULE Gen_Heap ------------------------------
(***************************************************************************)
(* TLC as test generator for the heap machine (model -> code direction).    *)
(* The state is the specification's heap plus the history of operation      *)
(* instances that produced it; breadth-first search enumerates every        *)
(* history up to Depth, `-simulate` samples long ones.  Each final history   *)
(* is printed as JSON and replayed on the real objects by the Go driver;     *)
(* the events it logs are then validated by Trace_Heap.                      *)
(*                                                                         *)
(* Profile selects the seed heaps and the argument space (boundary values    *)
(* -1, 0, L-1, L, L+1 for every integer argument, every name incl. an        *)
(* unknown one, every small site list, ...).                                 *)
(***************************************************************************)
EXTENDS Goalign, Json

CONSTANTS Depth, Profile, Scope
VARIABLES heap, hist, stop

nA == <<97>>  nB == <<98>>  nC == <<99>>  nZ == <<122>>
SeqsLen(S, k)  == [1..k -> S]
SeqsUpTo(S, n) == UNION {SeqsLen(S, k) : k \in 0..n}
Row(n, s) == [n |-> n, s |-> s]
NewArgs(k, al, pol, rows) == [k |-> k, al |-> al, pol |-> pol, rows |-> rows]
Inst(op, recv, a) == [op |-> op, recv |-> recv, a |-> a]
NoArg == [z |-> 0]
Bools == {TRUE, FALSE}
\* all alignments with the given row names over residue set R and length L
Aligns(names, R, L, al, pol) == {NewArgs("align", al, pol, [i \in 1..Len(names) |-> Row(names[i], ss[i])]) : ss \in [1..Len(names) -> SeqsLen(R, L)]}

L(o) == o.len
Ints(o) == (-1)..(L(o) + 1)
AlignIds(h) == {i \in 1..Len(h) : IsAlign(h[i])}

\* ---- seeds: a heap of two objects (so that binary operations have an argument) ---------------
Seeds ==
  CASE Profile = "C06" ->
         LET dna == {65,67,71,84,82,89,83,87,75,77,66,68,72,86,78, 97,99,103,116,114,121,115,119,107,109,98,100,104,118,110, 45,46,42}
             sub == IF Scope = "full" THEN dna ELSE {65, 84, 82, 121, 110, 45, 46, 66, 118}
         IN {<<NewArgs("align", NUCLEOTIDS, 0, <<Row(nA, s)>>), NewArgs("bag", NUCLEOTIDS, 0, <<Row(nA, <<65, 45, 99>>), Row(nB, <<45>>)>>)>> : s \in SeqsLen(dna, 1) \cup SeqsLen(sub, 2)}
            \cup {<<NewArgs("align", NUCLEOTIDS, 0, <<Row(nA, <<65, 67, 45>>), Row(nB, <<114, 78, 42>>), Row(nC, <<84, 46, 103>>)>>),
                    NewArgs("align", AMINOACIDS, 0, <<Row(nA, <<65, 81>>)>>)>>}
    [] Profile = "C01" ->
         {<<x, y>> : x \in {NewArgs("align", NUCLEOTIDS, p, <<>>) : p \in {0, 1, 2}}
                          \cup {NewArgs("align", NUCLEOTIDS, p, <<Row(nA, <<65, 67>>), Row(nB, <<65, 67>>)>>) : p \in {0, 1, 2}}
                          \cup {NewArgs("bag", NUCLEOTIDS, p, <<Row(nA, <<65>>), Row(nC, <<65, 67, 97>>)>>) : p \in {0, 2}}
                          \cup {NewArgs("align", NUCLEOTIDS, 0, <<Row(<<32, 98, 46, 46, 99>>, <<65, 84, 71, 45, 45, 45>>), Row(nA, <<97, 116, 103, 78, 78, 78>>)>>)},
                    y \in {NewArgs("align", NUCLEOTIDS, 0, <<Row(nB, <<71, 71>>), Row(nC, <<45, 84>>)>>),
                           NewArgs("align", NUCLEOTIDS, 0, <<>>)}}
    [] Profile = "C04" ->
         {<<x, y>> : x \in {NewArgs("align", NUCLEOTIDS, 0, <<Row(nA, <<45, 65, 45, 67>>), Row(nB, <<71, 46, 84, 67>>), Row(nC, <<71, 65, 45, 45>>)>>),
                            NewArgs("align", NUCLEOTIDS, 0, <<Row(nA, <<65, 45>>), Row(nB, <<65, 84>>)>>),
                            NewArgs("align", AMINOACIDS, 0, <<Row(nA, <<81>>)>>),
                            NewArgs("align", NUCLEOTIDS, 0, <<>>)},
                    y \in {NewArgs("align", NUCLEOTIDS, 0, <<Row(nB, <<71>>), Row(nZ, <<84>>)>>),
                           NewArgs("align", NUCLEOTIDS, 0, <<>>)}}
    [] OTHER -> {}

\* ---- operation instances enabled in a heap ------------------------------------------------------
Names3 == {nA, nB, nZ}
Rg(p, s, e, m) == [p |-> p, s |-> s, e |-> e, m |-> m]
RangeLists(pl) == {<<Rg(0, 0, pl - 1, 2), Rg(1, 1, pl - 1, 2)>>,
                   <<Rg(0, 0, 0, 1), Rg(1, 1, pl - 1, 1)>>,
                   <<Rg(0, 0, pl - 1, 3), Rg(1, 1, pl - 1, 3), Rg(2, 2, pl - 1, 3)>>,
                   <<Rg(0, 0, pl - 1, 1)>>,
                   <<Rg(0, 0, pl, 1), Rg(1, 0, 0, 1)>>,
                   <<Rg(1, 1, pl - 1, 1), Rg(0, 0, 0, 1), Rg(1, 0, 0, 0)>>,
                   <<Rg(1, 1, pl - 1, 1), Rg(0, 0, 0, 1)>>,
                   <<Rg(0, 0, pl - 1, 1), Rg(1, 0, 0, 1)>>}
InstC06(h) ==
  UNION {{Inst("ReverseComplement", r, NoArg), Inst("ToUpper", r, NoArg), Inst("ToLower", r, NoArg), Inst("Unalign", r, NoArg)}
         \cup {Inst("ReverseComplementSequences", r, [names |-> ns]) : ns \in SeqsUpTo(Names3, 2)}
         : r \in 1..Len(h)}
InstC01(h) ==
  UNION {
    {Inst("Add", r, [name |-> n, seq |-> s]) : n \in {nA, nC}, s \in {<<65, 67>>, <<65>>, <<71, 71>>}}
    \cup {Inst("Rename", r, [map |-> m]) : m \in {<<[f |-> nA, t |-> nZ]>>, <<[f |-> nA, t |-> nB], [f |-> nB, t |-> nA]>>,
                                                 <<[f |-> nA, t |-> nB]>>, <<[f |-> nZ, t |-> nA]>>}}
    \cup {Inst("RenameRegexp", r, [lit |-> nA, repl |-> <<122, 122>>]), Inst("RenameRegexp", r, [lit |-> <<46>>, repl |-> <<>>])}
    \cup {Inst("CleanNames", r, NoArg), Inst("TrimNamesAuto", r, [curid |-> 1]), Inst("Sort", r, NoArg), Inst("Clear", r, NoArg),
          Inst("Deduplicate", r, [nasgap |-> FALSE]), Inst("Deduplicate", r, [nasgap |-> TRUE]),
          Inst("CloneSeqBag", r, NoArg), Inst("AutoAlphabet", r, NoArg), Inst("ShuffleSequences", r, [seed |-> 7]),
          Inst("ToUpper", r, NoArg), Inst("Unalign", r, NoArg)}
    \cup {Inst("TrimNames", r, [size |-> k]) : k \in {1, 2, 3, 5}}
    \cup {Inst("AppendSeqIdentifier", r, [id |-> i, right |-> b]) : i \in {<<>>, <<120>>}, b \in Bools}
    \cup {Inst("FilterLength", r, [min |-> a, max |-> b]) : a \in {-1, 1, 2, 3}, b \in {-1, 1, 2}}
    \cup {Inst("Translate", r, [frame |-> f, code |-> 0]) : f \in {-1, 0, 1}}
    \cup {Inst("SetSequenceChar", r, [i |-> i, j |-> j, c |-> 71]) : i \in {-1, 0, Len(h[r].rows)}, j \in {-1, 0, 2}}
    \cup {Inst("Replace", r, [old |-> <<65>>, new |-> <<84>>]), Inst("Replace", r, [old |-> <<65>>, new |-> <<84, 84>>])}
    \cup {Inst("Sample", r, [nb |-> k, seed |-> 3]) : k \in {0, 1, Len(h[r].rows), Len(h[r].rows) + 1} \cap (IF IsAlign(h[r]) THEN 0..9 ELSE {})}
    \cup (IF IsAlign(h[r])
          THEN {Inst("Clone", r, NoArg), Inst("RemoveGapSeqs", r, [p |-> 1, q |-> 2, ins |-> FALSE])}
               \cup {Inst("ReplaceChar", r, [name |-> n, site |-> s, c |-> 71]) : n \in {nA, nZ}, s \in {-1, 0, L(h[r])}}
               \cup {Inst("Append", r, [other |-> x]) : x \in AlignIds(h) \ {r}}
               \cup {Inst("Concat", r, [other |-> x]) : x \in AlignIds(h) \ {r}}
          ELSE {})
    : r \in 1..Len(h)}
InstC04(h) ==
  UNION {
    IF ~IsAlign(h[r]) THEN {} ELSE
    {Inst("SubAlign", r, [start |-> s, len |-> n]) : s \in Ints(h[r]), n \in Ints(h[r])}
    \cup {Inst("InverseCoordinates", r, [start |-> s, len |-> n]) : s \in Ints(h[r]), n \in Ints(h[r])}
    \cup {Inst("SelectSites", r, [sites |-> ss]) : ss \in SeqsUpTo((-1)..L(h[r]), 2) \cup {<<0, 0, 0>>}}
    \cup {Inst("InversePositions", r, [sites |-> ss]) : ss \in SeqsUpTo((-1)..L(h[r]), 2)}
    \cup {Inst("TrimSequences", r, [n |-> n, fromstart |-> b]) : n \in Ints(h[r]), b \in Bools}
    \cup {Inst("RefCoordinates", r, [name |-> n, start |-> s, len |-> k]) : n \in {nA, nC, nZ}, s \in (-1)..L(h[r]), k \in 0..(L(h[r]) + 1)}
    \cup {Inst("RefSites", r, [name |-> n, sites |-> ss]) : n \in {nA, nZ}, ss \in SeqsUpTo((-1)..L(h[r]), 2)}
    \cup {Inst("Concat", r, [other |-> x]) : x \in AlignIds(h) \ {r}}
    \cup {Inst("Append", r, [other |-> x]) : x \in AlignIds(h) \ {r}}
    \cup UNION {{Inst("Split", r, [plen |-> pl, ranges |-> rs]) : rs \in RangeLists(pl)} : pl \in {L(h[r]), L(h[r]) + 1} \cap 0..9}
    \cup {Inst("Transpose", r, NoArg), Inst("DiffWithFirst", r, NoArg), Inst("ReplaceMatchChars", r, NoArg)}
    : r \in 1..Len(h)}
Instances(h) ==
  CASE Profile = "C06" -> InstC06(h)
    [] Profile = "C01" -> InstC01(h)
    [] Profile = "C04" -> InstC04(h)
    [] OTHER -> {}

\* ---- the machine -----------------------------------------------------------------------------------
ApplyRes(h, recv, R) == IF R.err THEN h ELSE [i \in 1..Len(h) |-> IF i = recv THEN R.o ELSE h[i]] \o R.new
Ends(st) == st.op \in RelationalOps     \* the code resolves the choice: the model cannot follow, the history ends
Final == Len(hist) >= Depth + 2 \/ stop

Init == \E sd \in Seeds :
          /\ heap = <<FromRows(sd[1].k, sd[1].al, sd[1].pol, sd[1].rows), FromRows(sd[2].k, sd[2].al, sd[2].pol, sd[2].rows)>>
          /\ hist = <<Inst("New", 0, sd[1]), Inst("New", 0, sd[2])>>
          /\ stop = FALSE
Next == /\ ~Final
        /\ \E st \in Instances(heap) :
             /\ hist' = Append(hist, st)
             /\ IF Ends(st) THEN heap' = heap /\ stop' = TRUE
                ELSE LET R == Step(heap, st.op, st.recv, st.a) IN
                     IF R.j THEN /\ heap' = ApplyRes(heap, st.recv, R)
                                 /\ stop' = ~(\A i \in 1..Len(heap') : Rect(heap'[i]))   \* see RaggedOnlyBy3Frames
                     ELSE heap' = heap /\ stop' = TRUE      \* state after the call is not pinned: the history ends
Spec == Init /\ [][Next]_<<heap, hist, stop>>

Emit == Final => PrintT(ToJson([steps |-> hist]))
\* design-level invariants of the specified machine (checked while generating)
RectInv == stop \/ \A i \in 1..Len(heap) : Rect(heap[i])
\* The documented meaning of translating an ALIGNMENT in all three frames (three rows per input row,
\* floor((L-f)/3) residues each) yields rows of different lengths unless L mod 3 = 2: the one place where
\* the documented operations do not preserve rectangularity (recorded as a finding, DESIGN.md section 3).
RaggedOnlyBy3Frames == (\E i \in 1..Len(heap) : ~Rect(heap[i])) =>
                          LET st == hist[Len(hist)] IN st.op = "Translate" /\ st.a.frame = -1
=============================================================================
