SPECIFICATION Spec
INVARIANT Done
CHECK_DEADLOCK FALSE
