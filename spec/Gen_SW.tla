-------------------------------- MODULE Gen_SW --------------------------------
(* TLC as case generator for C09: every pair of sequences up to MaxLen over {A,C,G} under every scheme of a small     *)
(* family (plus pairs that exercise the built-in tables); each case is one JSON line replayed on the real aligner.    *)
EXTENDS SW, Json, TLC
CONSTANT MaxLen
VARIABLES c
Alpha == {65, 67, 71}
Seqs == UNION {[1..k -> Alpha] : k \in 1..MaxLen}
Schemes == {[mode |-> "scores", match |-> 2, mismatch |-> -2, open |-> -4, ext |-> -2],
            [mode |-> "scores", match |-> 4, mismatch |-> -2, open |-> -6, ext |-> -2],
            [mode |-> "scores", match |-> 10, mismatch |-> -8, open |-> -20, ext |-> -1],
            [mode |-> "scores", match |-> 6, mismatch |-> -2, open |-> -2, ext |-> -2],
            [mode |-> "dna", match |-> 0, mismatch |-> 0, open |-> -20, ext |-> -1],
            [mode |-> "dna", match |-> 0, mismatch |-> 0, open |-> -4, ext |-> -1]}
Init == c \in {[s1 |-> a, s2 |-> b, sch |-> s] : a \in Seqs, b \in Seqs, s \in Schemes}
Next == UNCHANGED c
Emit == PrintT(ToJson(c))
=============================================================================
