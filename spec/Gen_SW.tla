-------------------------------- MODULE Gen_SW --------------------------------
(* TLC as case generator for C09: every pair of sequences up to MaxLen over {A,C,G} under every scheme of a small     *)
(* family (plus pairs that exercise the built-in tables); each case is one JSON line replayed on the real aligner.    *)
EXTENDS SW, Json, TLC
CONSTANT MaxLen
VARIABLES c
Alpha == {65, 67, 71}
Seqs == UNION {[1..k -> Alpha] : k \in 1..MaxLen}
Schemes == {[mode |-> "scores", match |-> 2, mismatch |-> -2, open |-> -4, ext |-> -2],
            [mode |-> "scores", match |-> 4, mismatch |-> -2, open |-> -6, ext |-> -2],
            [mode |-> "scores", match |-> 10, mismatch |-> -8, open |-> -20, ext |-> -1],
            [mode |-> "scores", match |-> 6, mismatch |-> -2, open |-> -2, ext |-> -2],
            [mode |-> "dna", match |-> 0, mismatch |-> 0, open |-> -20, ext |-> -1],
            [mode |-> "dna", match |-> 0, mismatch |-> 0, open |-> -4, ext |-> -1]}
\* every cell of the two built-in tables: each ordered pair of symbols of the table's header, in a fixed context
DnaSyms == {DnaFullOrder[k][1] : k \in 1..Len(DnaFullOrder)}
ProtSyms == {Blosum62Order[k][1] : k \in 1..Len(Blosum62Order)}
TableCases ==
  {[s1 |-> <<65, 67, x, 71, 84>>, s2 |-> <<65, 67, y, 71, 84>>, sch |-> [mode |-> "dna", match |-> 0, mismatch |-> 0, open |-> -20, ext |-> -1]] :
      x \in DnaSyms, y \in DnaSyms}
  \cup {[s1 |-> <<81, 69, 76, x, 76, 69, 81>>, s2 |-> <<81, 69, 76, y, 76, 69, 81>>, sch |-> [mode |-> "prot", match |-> 0, mismatch |-> 0, open |-> -20, ext |-> -1]] :
      x \in ProtSyms, y \in ProtSyms}
Init == c \in {[s1 |-> a, s2 |-> b, sch |-> s] : a \in Seqs, b \in Seqs, s \in Schemes} \cup TableCases
Next == UNCHANGED c
Emit == PrintT(ToJson(c))
=============================================================================
