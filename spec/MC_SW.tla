-------------------------------- MODULE MC_SW --------------------------------
(* Lemmas on the specification of C09: Gotoh (folds) = brute-force enumeration of all local alignments for all pairs *)
(* up to MaxLen over {A,C,G} under several schemes; the substitution tables are symmetric with the known diagonals.  *)
EXTENDS SW
CONSTANT MaxLen
VARIABLES s1, s2, sch
Alpha == {65, 67, 71}
Seqs == UNION {[1..k -> Alpha] : k \in 1..MaxLen}
Schemes == {[mode |-> "scores", match |-> 2, mismatch |-> -2, open |-> -4, ext |-> -2],
            [mode |-> "scores", match |-> 10, mismatch |-> -8, open |-> -20, ext |-> -1],
            [mode |-> "scores", match |-> 6, mismatch |-> -2, open |-> -2, ext |-> -2],
            [mode |-> "dna", match |-> 0, mismatch |-> 0, open |-> -20, ext |-> -1]}
Init == s1 \in Seqs /\ s2 \in Seqs /\ sch \in Schemes
Next == UNCHANGED <<s1, s2, sch>>
GotohIsBrute == Opt(sch, s1, s2) = Brute(sch, s1, s2)
Symmetric == Opt(sch, s1, s2) = Opt(sch, s2, s1)
TablesOK == /\ \A i, j \in 1..16 : DnaFull[i][j] = DnaFull[j][i]
            /\ \A i, j \in 1..24 : Blosum62[i][j] = Blosum62[j][i]
            /\ \A i \in 1..4 : DnaFull[i][i] = 5
            /\ Len(DnaFull) = 16 /\ Len(Blosum62) = 24
            /\ Blosum62[PosIn(Blosum62Order, 87)][PosIn(Blosum62Order, 87)] = 11      \* W/W
            /\ Blosum62[PosIn(Blosum62Order, 67)][PosIn(Blosum62Order, 67)] = 9       \* C/C
            /\ Blosum62[PosIn(Blosum62Order, 65)][PosIn(Blosum62Order, 82)] = -1      \* A/R
=============================================================================
