------------------------------- MODULE Formats -------------------------------
(***************************************************************************)
(* The byte channel (property C02): an alignment is written in a format      *)
(* (with options, to memory or to a plain / .gz / .xz file) and parsed back   *)
(* (by the format's parser or by first-byte auto-detection).  The             *)
(* specification states WHEN an alignment is representable in a format and    *)
(* WHAT the channel must then deliver: the same names in the same order, the  *)
(* same residues, the same length, the alphabet detected from the content,    *)
(* and - under auto-detection - the format that was written.  Compression is  *)
(* an identity channel.  A Phylip stream delivers the list it was given.      *)
(***************************************************************************)
EXTENDS Container

FormatNames == {"fasta", "phylip", "nexus", "clustal", "stockholm"}
AutoDetected == {"fasta", "phylip", "nexus", "clustal"}

Printable(c) == c >= 33 /\ c <= 126
AllDigits(s) == \A i \in 1..Len(s) : s[i] >= 48 /\ s[i] <= 57
NexusKeywords == {<<35, 110, 101, 120, 117, 115>>, <<98, 101, 103, 105, 110>>, <<100, 97, 116, 97>>, <<116, 97, 120, 97>>, <<116, 97, 120, 108, 97, 98, 101, 108, 115>>, <<116, 114, 101, 101, 115>>, <<116, 114, 101, 101>>, <<100, 105, 109, 101, 110, 115, 105, 111, 110, 115>>, <<110, 116, 97, 120>>, <<110, 99, 104, 97, 114>>, <<102, 111, 114, 109, 97, 116>>, <<100, 97, 116, 97, 116, 121, 112, 101>>, <<109, 105, 115, 115, 105, 110, 103>>, <<103, 97, 112>>, <<109, 97, 116, 99, 104, 99, 104, 97, 114>>, <<109, 97, 116, 114, 105, 120>>, <<101, 110, 100>>}
ClustalWord == <<99, 108, 117, 115, 116, 97, 108>>
\* names the format's own lexer cannot tell from its delimiters / keywords / numbers are not representable
NameOK(fmt, strict, n) ==
  /\ Len(n) >= 1 /\ \A i \in 1..Len(n) : Printable(n[i])
  /\ ~AllDigits(n)
  /\ CASE fmt = "fasta" -> n[1] # 62
       [] fmt = "phylip" -> (strict => Len(n) <= 10)
       [] fmt = "nexus" -> (\A i \in 1..Len(n) : n[i] \notin {91, 93, 59, 61}) /\ LoS(n) \notin NexusKeywords
       [] fmt = "clustal" -> LoS(n) \notin {ClustalWord, ClustalWord \o <<119>>}      \* exactly the header words CLUSTAL / CLUSTALW
       [] fmt = "stockholm" -> (\A i \in 1..Len(n) : n[i] \notin {91, 93, 59, 61}) /\ n[1] # 35 /\ n # <<47, 47>>
                               /\ LoS(n) # <<115, 116, 111, 99, 107, 104, 111, 108, 109>>      \* the word of the header line
\* residues: printable; '.' is the match character of Nexus and a gap in Stockholm (translated on reading)
ResiduesOK(fmt, s) ==
  /\ \A i \in 1..Len(s) : Printable(s[i])
  /\ (fmt \in {"nexus", "stockholm"} => \A i \in 1..Len(s) : s[i] # POINT)
Representable(fmt, strict, al) ==
  /\ Len(al.rows) >= 1 /\ Len(al.rows[1].s) >= 1
  /\ \A r \in 1..Len(al.rows) : Len(al.rows[r].s) = Len(al.rows[1].s)
  /\ NoDup([r \in 1..Len(al.rows) |-> al.rows[r].n])
  /\ DetectSeqs([r \in 1..Len(al.rows) |-> al.rows[r].s]) # UNKNOWN       \* nucleotide or protein residues
  /\ \A r \in 1..Len(al.rows) : NameOK(fmt, strict, al.rows[r].n) /\ ResiduesOK(fmt, al.rows[r].s)

\* what the channel delivers for one alignment
Delivered(in) == [rows |-> in.rows, len |-> Len(in.rows[1].s),
                  al |-> AutoAlpha(DetectSeqs([r \in 1..Len(in.rows) |-> in.rows[r].s]))]
SameAl(out, exp) == out.rows = exp.rows /\ out.len = exp.len
\* first-byte sniffing (io/utils): '>' fasta, '#' nexus, 'C' clustal, anything else phylip
Sniff(first) == IF first = 62 THEN "fasta" ELSE IF first = 35 THEN "nexus" ELSE IF first = 67 THEN "clustal" ELSE "phylip"

\* e = [h: [fmt, strict, oneline, noblock, via, auto], in, out, kind, detected, first]
HopJudged(e) == Len(e.in) >= 1 /\ \A k \in 1..Len(e.in) : Representable(e.h.fmt, e.h.strict, e.in[k])
HopChecks(e) ==
  [noPanic     |-> e.kind # "panic",
   returns     |-> e.kind # "hang",
   parsed      |-> e.kind = "ok",
   count       |-> e.kind = "ok" => Len(e.out) = Len(e.in),
   parsedEqual |-> (e.kind = "ok" /\ Len(e.out) = Len(e.in)) => \A k \in 1..Len(e.in) : SameAl(e.out[k], Delivered(e.in[k])),
   alphabet    |-> (e.kind = "ok" /\ Len(e.out) = Len(e.in)) => \A k \in 1..Len(e.in) : e.out[k].al = Delivered(e.in[k]).al,
   detected    |-> (e.kind = "ok" /\ e.h.auto) => (e.detected = e.h.fmt /\ Sniff(e.first) = e.h.fmt)]
=============================================================================
