------------------------------ MODULE Container ------------------------------
(***************************************************************************)
(* The abstract object of the heap machine and the container operations    *)
(* (properties C01, C06, C13 de-duplication, C05 container translation).    *)
(*                                                                         *)
(* An object is  [k, al, pol, len, rows]:                                   *)
(*   k    "align" | "bag"                                                   *)
(*   al   alphabet code, pol  duplicate-name policy 0..2                    *)
(*   len  the alignment length as the object reports it (-1 = not fixed     *)
(*        yet; -2 for a sequence set, which has none)                       *)
(*   rows ONE list of [n |-> name, s |-> residues].  There is no name       *)
(*        index in the specification: the implementation's by-name,         *)
(*        by-index and iteration views are all compared with this list.     *)
(*                                                                         *)
(* Every deterministic operation is an operator returning                   *)
(*   [err, o, new, ret, j]: error flag, receiver afterwards, sequence of    *)
(*   newly created objects, return record, and j = "the receiver's state    *)
(*   after the call is judged" (FALSE where documentation and property      *)
(*   leave the state after a failure open).                                 *)
(***************************************************************************)
EXTENDS Residues

IsAlign(o)  == o.k = "align"
NRows(o)    == Len(o.rows)
NamesOf(o)  == [i \in 1..Len(o.rows) |-> o.rows[i].n]
SeqsOf(o)   == [i \in 1..Len(o.rows) |-> o.rows[i].s]
HasName(o, nm) == \E i \in 1..Len(o.rows) : o.rows[i].n = nm
IdxOfName(o, nm) == FirstIdx(NamesOf(o), LAMBDA x : x = nm)      \* 0 when absent
RowOfName(o, nm) == o.rows[IdxOfName(o, nm)]
HasDupNames(o) == ~NoDup(NamesOf(o))
NormPol(p)  == IF p \in {0, 1, 2} THEN p ELSE 0
NormAl(k, al) == IF k = "align" /\ al = BOTH THEN NUCLEOTIDS ELSE al
NoLen(k)    == IF k = "align" THEN -1 ELSE -2
EmptyObj(k, al, pol) == [k |-> k, al |-> NormAl(k, al), pol |-> NormPol(pol), len |-> NoLen(k), rows |-> <<>>]
Rect(o)     == IsAlign(o) => \A i \in 1..Len(o.rows) : Len(o.rows[i].s) = o.len
RowLen(o)   == IF Len(o.rows) = 0 THEN -1 ELSE Len(o.rows[1].s)

Res(err, o, new, ret, j) == [err |-> err, o |-> o, new |-> new, ret |-> ret, j |-> j]
NoRet == [none |-> TRUE]
Ok(o)    == Res(FALSE, o, <<>>, NoRet, TRUE)
Fail(o)  == Res(TRUE, o, <<>>, NoRet, TRUE)           \* error, receiver unchanged
OkNew(o, n) == Res(FALSE, o, <<n>>, NoRet, TRUE)

\* ---- adding ---------------------------------------------------------------
Suffixed(nm, k) == nm \o <<UNDERSCORE>> \o DecPad(k, 4)
FreeName(o, nm) ==
  IF ~HasName(o, nm) THEN nm
  ELSE LET k == CHOOSE k \in 1..(Len(o.rows) + 1) :
                   /\ ~HasName(o, Suffixed(nm, k))
                   /\ \A j \in 1..(k-1) : HasName(o, Suffixed(nm, j))
       IN Suffixed(nm, k)
\* AddSequence under the object's duplicate-name policy.  A row whose length differs from a
\* fixed alignment length is rejected and the alignment is unchanged.
AddSeq(o, nm, s) ==
  LET ex == HasName(o, nm) IN
  IF ex /\ o.pol = 1 THEN Ok(o)
  ELSE IF ex /\ o.pol = 2 /\ RowOfName(o, nm).s = s THEN Ok(o)
  ELSE IF IsAlign(o) /\ o.len # -1 /\ o.len # Len(s) THEN Fail(o)
  ELSE Ok([o EXCEPT !.rows = Append(@, [n |-> FreeName(o, nm), s |-> s]),
                    !.len  = IF IsAlign(o) THEN Len(s) ELSE @])
\* the variant used internally by container-level rebuilds (no length check, as for a sequence set)
AddSeqNoLen(o, nm, s) ==
  LET ex == HasName(o, nm) IN
  IF ex /\ o.pol = 1 THEN o
  ELSE IF ex /\ o.pol = 2 /\ RowOfName(o, nm).s = s THEN o
  ELSE [o EXCEPT !.rows = Append(@, [n |-> FreeName(o, nm), s |-> s])]

FromRows(k, al, pol, rows) ==   \* an object built by adding `rows` in order to a fresh one
  FoldLeft(LAMBDA acc, r : AddSeq(acc, r.n, r.s).o, EmptyObj(k, al, pol), rows)

\* Append: left fold of AddSeq over the other alignment's rows, stopping at the first error
\* (rows added before the error stay).
AppendOp(o, other) ==
  LET step(acc, r) == IF acc.err THEN acc ELSE AddSeq(acc.o, r.n, r.s)
  IN FoldLeft(step, Ok(o), other.rows)

\* Concat: rows paired by name; a row absent on one side is padded with gaps; rows only in c
\* are appended in c's order.  An empty side has width 0.
Width(o) == IF o.len < 0 THEN 0 ELSE o.len
ConcatOp(a, c) ==
  IF a.al # c.al THEN Fail(a)
  ELSE LET left  == [i \in 1..Len(a.rows) |->
                       [a.rows[i] EXCEPT !.s = @ \o (IF HasName(c, a.rows[i].n)
                                                    THEN RowOfName(c, a.rows[i].n).s ELSE Gaps(Width(c)))]]
           extra == SelectSeq(c.rows, LAMBDA r : ~HasName(a, r.n))
           right == [i \in 1..Len(extra) |-> [n |-> extra[i].n, s |-> Gaps(Width(a)) \o extra[i].s]]
           rows  == left \o right
       IN Ok([a EXCEPT !.rows = rows, !.len = IF Len(rows) = 0 THEN -1 ELSE Len(rows[1].s)])

\* ---- renaming ---------------------------------------------------------------
\* m: sequence of [f |-> old, t |-> new] with pairwise distinct f
MapHas(m, nm) == \E i \in 1..Len(m) : m[i].f = nm
MapGet(m, nm) == m[FirstIdx(m, LAMBDA p : p.f = nm)].t
RenameOp(o, m) ==
  Ok([o EXCEPT !.rows = [i \in 1..Len(o.rows) |->
        [o.rows[i] EXCEPT !.n = IF MapHas(m, @) THEN MapGet(m, @) ELSE @]]])
SetNames(o, f(_)) == [o EXCEPT !.rows = [i \in 1..Len(o.rows) |-> [o.rows[i] EXCEPT !.n = f(@)]]]
PairSet(m) == {<<m[i].f, m[i].t>> : i \in 1..Len(m)}
NameMapOf(o, f(_)) == {<<o.rows[i].n, f(o.rows[i].n)>> : i \in 1..Len(o.rows)}
RenameLitOp(o, lit, repl) ==
  Res(FALSE, SetNames(o, LAMBDA nm : ReplaceAllLit(nm, lit, repl)), <<>>,
      [map |-> NameMapOf(o, LAMBDA nm : ReplaceAllLit(nm, lit, repl))], TRUE)
AppendIdOp(o, id, right) ==
  Ok(IF Len(id) = 0 THEN o ELSE SetNames(o, LAMBDA nm : IF right THEN nm \o id ELSE id \o nm))

\* CleanNames: strip leading/trailing white space, then newick-special characters become '-'.
\* The code collapses each maximal run into one '-'; its comment only says "replaces ... by -",
\* so a per-character replacement is accepted as well (see AllowedCleanNames).
IsWs(c)      == c \in {9, 10, 12, 13, 32}
IsSpecial(c) == IsWs(c) \/ c \in {124, 44, 91, 93, 40, 41, 59, 46, 58}
RECURSIVE TrimLeft(_)
TrimLeft(s)  == IF Len(s) > 0 /\ IsWs(s[1]) THEN TrimLeft(Tail(s)) ELSE s
TrimWs(s)    == Rev(TrimLeft(Rev(TrimLeft(s))))
CleanRuns(s) == LET t == TrimWs(s) IN
  FoldLeft(LAMBDA acc, i : IF IsSpecial(t[i])
                           THEN (IF i > 1 /\ IsSpecial(t[i-1]) THEN acc ELSE Append(acc, GAP))
                           ELSE Append(acc, t[i]), <<>>, [i \in 1..Len(t) |-> i])
CleanEach(s) == LET t == TrimWs(s) IN [i \in 1..Len(t) |-> IF IsSpecial(t[i]) THEN GAP ELSE t[i]]
AllowedCleanNames(pre, post, map) ==
  \E f \in {1, 2} :
     LET g(nm) == IF f = 1 THEN CleanRuns(nm) ELSE CleanEach(nm) IN
     /\ post = SetNames(pre, g)
     /\ map = NameMapOf(pre, g)

\* TrimNames / TrimNamesAuto: relational (generated names are not pinned by any documentation)
Pow10(n) == IF n < 0 THEN 0 ELSE FoldLeft(LAMBDA acc, i : acc * 10, 1, [i \in 1..n |-> i])
TrimNamesErr(o, size) == Len(o.rows) > 0 /\ (size < 2 \/ (size <= 10 /\ Pow10(size - 2) < Len(o.rows)))
AllowedTrim(pre, post, map, size) ==   \* size = -1: any length
  /\ post.k = pre.k /\ post.al = pre.al /\ post.len = pre.len
  /\ SeqsOf(post) = SeqsOf(pre)
  /\ NoDup(NamesOf(post))
  /\ (size >= 0 => \A i \in 1..Len(post.rows) : Len(post.rows[i].n) <= size)   \* "shorten to the given size"
  /\ map = {<<pre.rows[i].n, post.rows[i].n>> : i \in 1..Len(pre.rows)}
\* the same with a name map that already holds entries (a map shared by several calls, as the command does for the
\* alignments of one file): known names keep their short name, the map grows by the new ones, and short names stay
\* pairwise distinct over the WHOLE map
AllowedTrimShared(pre, post, map, size, prev) ==
  /\ post.k = pre.k /\ post.al = pre.al /\ post.len = pre.len
  /\ SeqsOf(post) = SeqsOf(pre)
  /\ NoDup(NamesOf(post))
  /\ (size >= 0 => \A i \in 1..Len(post.rows) : Len(post.rows[i].n) <= size \/ \E p \in prev : p[1] = pre.rows[i].n)
  /\ map = prev \cup {<<pre.rows[i].n, post.rows[i].n>> : i \in 1..Len(pre.rows)}
  /\ \A p \in prev : \A i \in 1..Len(pre.rows) : pre.rows[i].n = p[1] => post.rows[i].n = p[2]
  /\ \A p, q \in map : p[2] = q[2] => p[1] = q[1]

\* ---- ordering, filtering ----------------------------------------------------
SortOp(o) ==
  LET order == SetToSortSeq(1..Len(o.rows), LAMBDA i, j : LexLess(o.rows[i].n, o.rows[j].n))
  IN Ok([o EXCEPT !.rows = [k \in 1..Len(o.rows) |-> o.rows[order[k]]]])
IsRowPermutation(pre, post) ==
  /\ post.k = pre.k /\ post.al = pre.al /\ post.len = pre.len
  /\ Len(post.rows) = Len(pre.rows)
  /\ BagOf(post.rows) = BagOf(pre.rows)
\* keep a row iff it is neither shorter than min nor longer than max; a negative bound is ignored
FilterLengthOp(o, min, max) ==
  Ok([o EXCEPT !.rows = SelectSeq(@, LAMBDA r : (min < 0 \/ Len(r.s) >= min) /\ (max < 0 \/ Len(r.s) <= max))])
ClearOp(o) == Ok([o EXCEPT !.rows = <<>>, !.len = NoLen(o.k)])

\* ---- de-duplication -----------------------------------------------------------
DedupKey(o, s, nAsGap) ==
  IF ~nAsGap THEN s
  ELSE IF o.al = AMINOACIDS THEN [i \in 1..Len(s) |-> IF s[i] = chX THEN GAP ELSE s[i]]
  ELSE IF o.al = NUCLEOTIDS THEN [i \in 1..Len(s) |-> IF s[i] = chN THEN GAP ELSE s[i]]
  ELSE s
DedupOp(o, nAsGap) ==
  LET key(i)    == DedupKey(o, o.rows[i].s, nAsGap)
      isFirst(i) == \A j \in 1..(i-1) : key(j) # key(i)
      leaders   == SeqOfSet({i \in 1..Len(o.rows) : isFirst(i)})
      groupOf(l) == {o.rows[j].n : j \in {j \in 1..Len(o.rows) : key(j) = key(l)}}
  IN Res(FALSE, [o EXCEPT !.rows = [k \in 1..Len(leaders) |-> o.rows[leaders[k]]]], <<>>,
         [groups |-> {<<o.rows[l].n, groupOf(l)>> : l \in Range(leaders)}, total |-> Len(o.rows)], TRUE)
\* observed groups: a sequence of sequences of names, each led by its representative
ObservedGroups(g) == {<<g[i][1], Range(g[i])>> : i \in 1..Len(g)}
ObservedGroupTotal(g) == SumSeq([i \in 1..Len(g) |-> Len(g[i])])

\* ---- cloning, un-aligning -----------------------------------------------------
CloneOp(o)    == OkNew(o, [k |-> "align", al |-> o.al, pol |-> o.pol, len |-> RowLen(o), rows |-> o.rows])
CloneBagOp(o) == OkNew(o, [k |-> "bag", al |-> o.al, pol |-> o.pol, len |-> -2, rows |-> o.rows])
UnalignOp(o)  ==
  OkNew(o, [k |-> "bag", al |-> o.al, pol |-> 0, len |-> -2,
            rows |-> [i \in 1..Len(o.rows) |-> [o.rows[i] EXCEPT !.s = SelectSeq(@, LAMBDA c : c # GAP)]]])
AllowedSample(pre, nb, new) ==
  /\ new.k = pre.k /\ new.al = pre.al
  /\ Len(new.rows) = nb
  /\ NoDup(NamesOf(new))
  /\ \A i \in 1..Len(new.rows) : \E j \in 1..Len(pre.rows) : pre.rows[j] = new.rows[i]
  /\ IsAlign(pre) => new.len = RowLen(new)
SampleErr(o, nb) == nb < 1 \/ nb > Len(o.rows)

\* ---- residue edits ---------------------------------------------------------------
SetCharOp(o, i, j, c) ==   \* 0-based row i, site j
  IF i < 0 \/ i >= Len(o.rows) THEN Fail(o)
  ELSE IF j < 0 \/ j >= Len(o.rows[i+1].s) THEN Fail(o)
  ELSE Ok([o EXCEPT !.rows[i+1].s[j+1] = c])
ReplaceCharOp(o, nm, site, c) ==
  IF site < 0 \/ site >= o.len \/ ~HasName(o, nm) THEN Fail(o)
  ELSE Ok([o EXCEPT !.rows[IdxOfName(o, nm)].s[site+1] = c])
ReplaceLitOp(o, old, new) ==
  LET o2 == [o EXCEPT !.rows = [i \in 1..Len(o.rows) |-> [o.rows[i] EXCEPT !.s = ReplaceAllLit(@, old, new)]]]
      bad == IsAlign(o) /\ \E i \in 1..Len(o2.rows) : Len(o2.rows[i].s) # o.len
  IN Res(bad, o2, <<>>, NoRet, ~bad)   \* "the alignment is changed anyway": state after the error is not judged
ToUpperOp(o) == Ok([o EXCEPT !.rows = [i \in 1..Len(o.rows) |-> [o.rows[i] EXCEPT !.s = UpS(@)]]])
ToLowerOp(o) == Ok([o EXCEPT !.rows = [i \in 1..Len(o.rows) |-> [o.rows[i] EXCEPT !.s = LoS(@)]]])

\* ---- strand ------------------------------------------------------------------------
RevCompOp(o) ==
  IF o.al # NUCLEOTIDS THEN Fail(o)
  ELSE IF \E i \in 1..Len(o.rows) : ~ComplementableS(o.rows[i].s) THEN Res(TRUE, o, <<>>, NoRet, FALSE)
  ELSE Ok([o EXCEPT !.rows = [i \in 1..Len(o.rows) |-> [o.rows[i] EXCEPT !.s = RevCompS(@)]]])
RevCompNamesOp(o, names) ==   \* names: sequence of names; unknown names are ignored
  IF o.al # NUCLEOTIDS THEN Fail(o)
  ELSE IF \E i \in 1..Len(names) : HasName(o, names[i]) /\ ~ComplementableS(RowOfName(o, names[i]).s)
       THEN Res(TRUE, o, <<>>, NoRet, FALSE)
  ELSE Ok(FoldLeft(LAMBDA acc, nm : IF HasName(acc, nm)
                                    THEN [acc EXCEPT !.rows[IdxOfName(acc, nm)].s = RevCompS(@)]
                                    ELSE acc, o, names))

\* ---- alphabet ------------------------------------------------------------------------
DetectObj(o) == DetectSeqs(SeqsOf(o))
AutoAlphabetOp(o) == Ok([o EXCEPT !.al = AutoAlpha(DetectObj(o))])
SetAlphabetOp(o, x) ==
  LET d == DetectObj(o) IN
  IF d = UNKNOWN THEN Fail(o)
  ELSE IF x = NUCLEOTIDS THEN (IF d \in {NUCLEOTIDS, BOTH} THEN Ok([o EXCEPT !.al = NUCLEOTIDS]) ELSE Fail(o))
  ELSE IF x = AMINOACIDS THEN (IF d \in {AMINOACIDS, BOTH} THEN Ok([o EXCEPT !.al = AMINOACIDS]) ELSE Fail(o))
  ELSE Fail(o)

\* ---- container translation --------------------------------------------------------------
\* frame in {0,1,2}: each row replaced by its translation; frame -1: three rows per input row,
\* named name_0, name_1, name_2.  Afterwards the alphabet is re-detected.
FrameSuffix(nm, f) == nm \o <<UNDERSCORE, ZERO + f>>
\* (an alignment re-derives its length from its first row even when the call fails early; that only
\* matters for an alignment that is empty but still reports a length)
TranslateFail(o) == Fail([o EXCEPT !.len = IF IsAlign(o) THEN RowLen(o) ELSE @])
TranslateOp(o, frame, code) ==
  IF ~ValidCode(code) THEN TranslateFail(o)
  ELSE IF o.al # NUCLEOTIDS THEN TranslateFail(o)
  ELSE LET frames == IF frame = -1 THEN <<0, 1, 2>> ELSE <<frame>>
           bad == \E i \in 1..Len(o.rows) : \E f \in Range(frames) : TranslateErr(o.rows[i].s, f)
           rows == FlattenSeq([i \in 1..Len(o.rows) |->
                      [k \in 1..Len(frames) |->
                         [n |-> IF frame = -1 THEN FrameSuffix(o.rows[i].n, frames[k]) ELSE o.rows[i].n,
                          s |-> TranslateS(o.rows[i].s, frames[k], code)]]])
           o2 == [o EXCEPT !.rows = rows]
           o3 == [o2 EXCEPT !.al = AutoAlpha(DetectObj(o2)), !.len = IF IsAlign(o) THEN RowLen(o2) ELSE @]
       IN IF bad THEN Res(TRUE, o, <<>>, NoRet, FALSE) ELSE Ok(o3)
=============================================================================
