------------------------------- MODULE Trace_Dist -------------------------------
(* Total trace validation of distance-matrix events (C07) and of relations between two calls (C08). *)
EXTENDS DnaDist, Json, IOUtils, TLC
Trace == ndJsonDeserialize(IOEnv.TRACE)
VARIABLES l, bad
Init == l = 1 /\ bad = <<>>
F(m, i, j) == FParse(m[i][j])
\* relation events: m1 from the base call, m2 from the transformed call, perm = row permutation (1-based), k = scale
RelChecks(e) ==
  LET n == Len(e.m1) IN
  CASE e.rel = "same"  -> [bitIdentical |-> e.m1 = e.m2]
    [] e.rel = "close" -> [unchanged |-> Len(e.m2) = n /\ \A i, j \in 1..n :
                             LET a == F(e.m1, e.perm[i], e.perm[j])  b == F(e.m2, i, j) IN
                             \/ FClose(b, FMul(FInt(e.k), a), FParse("1e-9"), FParse("1e-12")) \/ (FIsNaN(a) /\ FIsNaN(b))
                             \* (an unstable pair is still reported as undefined or by a finite value on both sides, never as +Inf)
                             \/ ((FIsNaN(a) \/ FIsFinite(a)) /\ (FIsNaN(b) \/ FIsFinite(b)) /\ UnstablePair(e.rows, e.o, e.perm[i], e.perm[j]))]
    [] OTHER -> [knownRelation |-> FALSE]
\* a caller-supplied model whose k-th evaluation fails: the call returns, with that error, whenever the failing
\* evaluation is one the computation needs (every pair is needed: k <= number of pairs / of row requests)
FaultChecks(e) ==
  LET needed == (e.faildist >= 1 /\ e.faildist <= e.npairs) \/ (e.failseq >= 1 /\ e.failseq <= e.nseqcalls) IN
  [returns |-> e.kind # "hang", noPanic |-> e.kind # "panic",
   errorReturned |-> (needed /\ e.kind \notin {"hang", "panic"}) => (e.kind = "err" /\ e.injected),
   noSpuriousError |-> (~needed /\ e.faildist = 0 /\ e.failseq = 0) => e.kind # "err"]
Failing(e) ==
  IF e.t = "fault" THEN LET ch == FaultChecks(e) IN {k \in DOMAIN ch : ~ch[k]}
  ELSE IF e.t = "rel" THEN LET ch == RelChecks(e) IN {k \in DOMAIN ch : ~ch[k]}
  ELSE IF e.kind = "panic" THEN {"noPanic"}
  ELSE IF e.kind = "hang" THEN {"returns"}
  ELSE IF e.kind = "err" THEN (IF EncodableRows(e.rows) /\ ~RangeErr(e.r, Len(e.rows)) THEN {"noError"} ELSE {})
  ELSE IF ~EncodableRows(e.rows) \/ RangeErr(e.r, Len(e.rows)) THEN {"errClass"}
  ELSE LET ch == MatrixChecks(e) IN {k \in DOMAIN ch : ~ch[k]}
Next == /\ l <= Len(Trace)
        /\ LET f == Failing(Trace[l]) IN bad' = IF f = {} THEN bad ELSE Append(bad, [i |-> l, failing |-> SetToSeq(f)])
        /\ l' = l + 1
Spec == Init /\ [][Next]_<<l, bad>>
Done == l = Len(Trace) + 1 => PrintT(<<"RESULT", ToJson([consumed |-> l - 1, bad |-> bad])>>)
=============================================================================
