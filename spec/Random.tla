-------------------------------- MODULE Random --------------------------------
(***************************************************************************)
(* Randomised operations (property C10) as relations: what each operation   *)
(* promises about (pre, post).  The implementation resolves the choice;     *)
(* trace validation checks that the observed outcome is allowed, that the   *)
(* same seed reproduces it, and (Atoms) that every admissible elementary    *)
(* outcome is eventually observed on small instances.                       *)
(***************************************************************************)
EXTENDS Mask

SameShape(pre, post) ==
  /\ post.k = pre.k /\ post.al = pre.al /\ post.len = pre.len
  /\ NamesOf(post) = NamesOf(pre)
  /\ \A r \in 1..Len(pre.rows) : Len(post.rows[r].s) = Len(pre.rows[r].s)
ColBagsKept(pre, post) == \A i \in 1..Width(pre) : BagOf(Col(post, i)) = BagOf(Col(pre, i))
IntOfFrac(p, q, n) == (p * n) \div q            \* int(p/q * n) for dyadic q or exact products

\* site shuffling permutes characters within columns only; reports a list of distinct row names
AllowedShuffleSites(pre, post, rogues, nrog) ==
  /\ SameShape(pre, post) /\ ColBagsKept(pre, post)
  /\ Len(rogues) = nrog
  /\ \A k \in 1..Len(rogues) : rogues[k] = <<>> \/ HasName(pre, rogues[k])
\* swaps preserve every column's character multiset
AllowedSwap(pre, post) == SameShape(pre, post) /\ ColBagsKept(pre, post)
\* rogue simulation permutes residues within the chosen rows only; rogue/intact partition the names
AllowedRogue(pre, post, rogue, intact, nrogue) ==
  /\ SameShape(pre, post)
  /\ Len(rogue) = nrogue /\ Len(rogue) + Len(intact) = Len(pre.rows)
  /\ NoDup(rogue \o intact) /\ Range(rogue \o intact) = Range(NamesOf(pre))
  /\ \A r \in 1..Len(pre.rows) :
       IF Member(intact, pre.rows[r].n) THEN post.rows[r].s = pre.rows[r].s
       ELSE BagOf(post.rows[r].s) = BagOf(pre.rows[r].s)
\* every bootstrap column is an original column taken for all rows at once
AllowedBootstrap(pre, new, n) ==
  /\ new.k = "align" /\ new.al = pre.al /\ NamesOf(new) = NamesOf(pre)
  /\ \A r \in 1..Len(new.rows) : Len(new.rows[r].s) = n
  /\ Len(new.rows) > 0 => new.len = n
  /\ \A j \in 1..n : \E i \in 1..Width(pre) : Col(new, j) = Col(pre, i)
\* site sampling: a contiguous window, or distinct columns
AllowedRandSub(pre, new, len, consecutive) ==
  /\ new.k = "align" /\ new.al = pre.al /\ NamesOf(new) = NamesOf(pre)
  /\ \A r \in 1..Len(new.rows) : Len(new.rows[r].s) = len
  /\ IF consecutive
     THEN \E st \in 0..(Width(pre) - len) : \A r \in 1..Len(pre.rows) : new.rows[r].s = SubSeq(pre.rows[r].s, st + 1, st + len)
     ELSE LET nb == BagOf([j \in 1..len |-> Col(new, j)])  pb == ColsBag(pre)
          IN \A c \in DOMAIN nb : c \in DOMAIN pb /\ nb[c] <= pb[c]
RandSubErr(o, len) == len > o.len \/ len <= 0
\* substitutions only replace non-gap residues by alphabet letters
AllowedMutate(pre, post) ==
  /\ SameShape(pre, post)
  /\ \A r \in 1..Len(pre.rows) : \A i \in 1..Len(pre.rows[r].s) :
       \/ post.rows[r].s[i] = pre.rows[r].s[i]
       \/ ~Special(pre.rows[r].s[i]) /\ Member(AlphaChars(pre), post.rows[r].s[i])
\* added gaps only turn residues into gaps
AllowedAddGaps(pre, post, nbrows, nbgaps) ==
  /\ SameShape(pre, post)
  /\ \A r \in 1..Len(pre.rows) : \A i \in 1..Len(pre.rows[r].s) :
       post.rows[r].s[i] = pre.rows[r].s[i] \/ post.rows[r].s[i] = GAP
  /\ Cardinality({r \in 1..Len(pre.rows) : post.rows[r].s # pre.rows[r].s}) <= nbrows
  /\ \A r \in 1..Len(pre.rows) : Cardinality({i \in 1..Len(pre.rows[r].s) : post.rows[r].s[i] # pre.rows[r].s[i]}) <= nbgaps
\* recombination only copies residues between rows at the same column
AllowedRecombine(pre, post) ==
  /\ SameShape(pre, post)
  /\ \A r \in 1..Len(pre.rows) : \A i \in 1..Len(pre.rows[r].s) : Member(Col(pre, i), post.rows[r].s[i])
RecombineErr(pp, pq, lp, lq) == pp < 0 \/ 2 * pp > pq \/ lp < 0 \/ lp > lq
\* rarefaction: distinct original rows in original order, only rows that have a count
AllowedRarefy(pre, new, counted) ==
  /\ new.k = "align" /\ new.al = pre.al
  /\ NoDup(NamesOf(new))
  /\ \A i \in 1..Len(new.rows) : Member(pre.rows, new.rows[i]) /\ new.rows[i].n \in counted
  /\ \A i, j \in 1..Len(new.rows) : i < j => IdxOfName(pre, new.rows[i].n) < IdxOfName(pre, new.rows[j].n)

\* ---- support: elementary outcomes that must all be observed on small instances ---------------
\* (instances are built with pairwise distinct columns / rows so that an outcome identifies its source)
ColIdx(pre, c) == CHOOSE i \in 1..Width(pre) : Col(pre, i) = c
AtomsBootstrap(pre, n)        == {<<j, i>> : j \in 1..n, i \in 1..Width(pre)}
SeenBootstrap(pre, new, n)    == {<<j, ColIdx(pre, Col(new, j))>> : j \in 1..n}
AtomsWindow(pre, len)         == 0..(Width(pre) - len)
SeenWindow(pre, new, len)     == {st \in 0..(Width(pre) - len) :
                                    \A r \in 1..Len(pre.rows) : new.rows[r].s = SubSeq(pre.rows[r].s, st + 1, st + len)}
AtomsColumns(pre)             == 1..Width(pre)
SeenColumns(pre, new, len)    == {ColIdx(pre, Col(new, j)) : j \in 1..len}
AtomsRows(pre)                == Range(NamesOf(pre))
SeenRows(new)                 == Range(NamesOf(new))
AtomsRowOrder(pre)            == {<<k, pre.rows[r].n>> : k \in 1..Len(pre.rows), r \in 1..Len(pre.rows)}
SeenRowOrder(post)            == {<<k, post.rows[k].n>> : k \in 1..Len(post.rows)}
=============================================================================
