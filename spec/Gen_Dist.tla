------------------------------- MODULE Gen_Dist -------------------------------
(* TLC as case generator for C07: every pair of rows of length 2 (thorough: 3) over a small residue set incl. an      *)
(* ambiguity code and the gap, completed by a fixed third row that fixes the base frequencies, under every model,     *)
(* gamma on/off, gap-site removal, the three gap-counting modes and rm-ambiguous; plus saturation ladders.            *)
EXTENDS DnaDist, Json, TLC
CONSTANT Scope
VARIABLES c
Sym == IF Scope = "full" THEN {65, 67, 71, 84, 82, 78, 45} ELSE {65, 71, 67, 45}
Len2 == 2
Models == {"rawdist", "pdist", "jc", "k2p", "f81", "f84", "tn93"}
Opt(m, g, a, rg, gm, ra, w) == [model |-> m, gamma |-> g, alpha |-> a, rmgaps |-> rg, gapmode |-> gm, rmamb |-> ra, wts |-> w]
NoRange == <<-1, -1, -1, -1>>
Third == <<65, 67, 71, 84, 84, 67>>
Pairs == {[rows |-> <<s1, s2, SubSeq(Third, 1, Len2) \o <<71, 84>>>>, o |-> Opt(m, g, "0.5", FALSE, 0, FALSE, <<>>), r |-> NoRange, cpus |-> 2] :
            s1 \in {s \o <<65, 67>> : s \in [1..Len2 -> Sym]}, s2 \in {s \o <<65, 67>> : s \in [1..Len2 -> Sym]}, m \in Models, g \in {TRUE, FALSE}}
\* option cube on a few alignments with leading / internal / trailing gaps and ambiguity codes
Shapes == {<<<<45, 65, 67, 71, 84, 45, 45>>, <<65, 65, 45, 71, 67, 84, 45>>, <<45, 45, 67, 82, 84, 84, 65>>>>,
           <<<<65, 67, 71, 84, 65, 67, 71>>, <<65, 84, 71, 84, 78, 67, 65>>, <<97, 99, 103, 116, 97, 99, 103>>>>,
           \* ambiguity codes facing internal gaps (N / -, - / N, R / -, - / Y): what a gap-counting mode counts there
           <<<<65, 78, 45, 82, 45, 67, 71>>, <<65, 45, 78, 45, 89, 67, 84>>, <<65, 67, 71, 84, 65, 67, 71>>>>}
Cube == {[rows |-> sh, o |-> Opt(m, FALSE, "1", rg, gm, ra, w), r |-> r, cpus |-> 3] :
           sh \in Shapes, m \in Models, rg \in {TRUE, FALSE}, gm \in {0, 1, 2}, ra \in {TRUE, FALSE},
           w \in {<<>>, <<4, 8, 4, 12, 4, 2, 4>>}, r \in {NoRange, <<0, 1, 1, 2>>, <<2, 9, 0, 0>>, <<1, 0, 0, 0>>}}
\* saturation ladder: k differing sites out of 8 (transversions A<->C), k = 0..8: crosses every estimator's boundary
Ladder == {[rows |-> <<[i \in 1..8 |-> 65], [i \in 1..8 |-> IF i <= k THEN 67 ELSE 65], <<71, 84, 71, 84, 65, 67, 71, 84>>>>,
            o |-> Opt(m, g, a, FALSE, 0, FALSE, <<>>), r |-> NoRange, cpus |-> 1] : k \in 0..8, m \in Models, g \in {TRUE, FALSE}, a \in {"0.5", "1", "3"}}
Init == c \in Pairs \cup Cube \cup Ladder
Next == UNCHANGED c
Emit == PrintT(ToJson(c))
=============================================================================
