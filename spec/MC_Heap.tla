------------------------------ MODULE MC_Heap ------------------------------
(***************************************************************************)
(* The heap machine as a state machine of its own (design level, C01 and   *)
(* the frame half of C19).  The state is the heap only - no history - so   *)
(* TLC explores the graph of REACHABLE HEAPS breadth-first, merging the    *)
(* histories that lead to the same heap, to a depth the history-carrying    *)
(* generator (Gen_Heap) cannot afford (every heap reachable in MaxDepth     *)
(* operations from the seeds, within the size bounds).  One action per public operation,    *)
(* the same Step as the generator and the trace specification use.         *)
(*                                                                         *)
(* Invariants of every reachable heap:                                      *)
(*   Rectangular   every row of an alignment has the reported length       *)
(*   LengthCached  the reported length is the length of the rows           *)
(*   Distinct      names are pairwise distinct unless the CALLER made two   *)
(*                 equal (ghost variable dup: objects on which a renaming   *)
(*                 operation mapped two rows to one name, and their copies) *)
(*   Policies      the duplicate-name policy is one of 0..2                 *)
(* Lemmas about every enabled operation instance in every reachable heap:   *)
(*   RejectLeaves  a failing (judged) operation leaves its receiver as is   *)
(*   ReadOnly      operations of ReadOnlyOps never change their receiver    *)
(*   NewAreFresh   created objects are rectangular and well-formed          *)
(*   AddRejects    a row of another length is rejected, a row of the right   *)
(*                 length is accepted or (policy) silently ignored          *)
(***************************************************************************)
EXTENDS Goalign
CONSTANTS MaxDepth, MaxObjs, MaxRows, MaxWidth, MaxName
VARIABLES heap, dup, steps

nA == <<97>>  nB == <<98>>  nC == <<99>>
Row(n, s) == [n |-> n, s |-> s]
Inst(op, recv, a) == [op |-> op, recv |-> recv, a |-> a]
NoArg == [z |-> 0]
Bools == {TRUE, FALSE}
AlignIds(h) == {i \in 1..Len(h) : IsAlign(h[i])}

Seeds == {<<FromRows("align", NUCLEOTIDS, p, <<Row(nA, <<65, 67>>), Row(nB, <<65, 45>>)>>),
            FromRows("align", NUCLEOTIDS, 0, <<Row(nB, <<71, 71>>), Row(nC, <<45, 84>>)>>)>> : p \in {0, 1, 2}}
         \cup {<<FromRows("bag", NUCLEOTIDS, p, <<Row(nA, <<65>>), Row(nC, <<65, 67, 97>>)>>),
                 FromRows("align", NUCLEOTIDS, 0, <<>>)>> : p \in {0, 2}}

RenamingOps == {"Rename", "RenameRegexp", "AppendSeqIdentifier", "CleanNames", "TrimNames", "TrimNamesAuto"}
Instances(h) ==
  UNION {
    {Inst("Add", r, [name |-> n, seq |-> s]) : n \in {nA, nC}, s \in {<<65, 67>>, <<97, 67>>, <<65>>}}
    \cup {Inst("Rename", r, [map |-> m]) : m \in {<<[f |-> nA, t |-> nC]>>, <<[f |-> nA, t |-> nB], [f |-> nB, t |-> nA]>>, <<[f |-> nA, t |-> nB]>>}}
    \cup {Inst("RenameRegexp", r, [lit |-> nA, repl |-> nB])}
    \cup {Inst("AppendSeqIdentifier", r, [id |-> <<120>>, right |-> b]) : b \in Bools}
    \cup {Inst("Sort", r, NoArg), Inst("Clear", r, NoArg), Inst("CloneSeqBag", r, NoArg), Inst("ToUpper", r, NoArg),
          Inst("Unalign", r, NoArg), Inst("AutoAlphabet", r, NoArg)}
    \cup {Inst("Deduplicate", r, [nasgap |-> b]) : b \in Bools}
    \cup {Inst("IgnoreIdentical", r, [pol |-> p]) : p \in {0, 1, 2}}
    \cup {Inst("FilterLength", r, [min |-> a, max |-> b]) : a \in {-1, 2}, b \in {-1, 2}}
    \cup {Inst("Translate", r, [frame |-> f, code |-> 0]) : f \in {0, 1}}
    \cup {Inst("SetSequenceChar", r, [i |-> i, j |-> j, c |-> 71]) : i \in {0, Len(h[r].rows)}, j \in {0, 2}}
    \cup {Inst("Replace", r, [old |-> <<65>>, new |-> <<84, 84>>])}
    \cup {Inst("Describe", r, [what |-> "length"]), Inst("CharStats", r, NoArg)}
    \cup (IF IsAlign(h[r])
          THEN {Inst("Clone", r, NoArg), Inst("ReverseComplement", r, NoArg), Inst("Transpose", r, NoArg)}
               \cup {Inst("RemoveGapSites", r, [p |-> 1, q |-> 2, ends |-> e]) : e \in Bools}
               \cup {Inst("RemoveGapSeqs", r, [p |-> 1, q |-> 2, ins |-> FALSE])}
               \cup {Inst("SubAlign", r, [start |-> s, len |-> n]) : s \in {0, 1}, n \in {1, h[r].len}}
               \cup {Inst("SelectSites", r, [sites |-> ss]) : ss \in {<<0>>, <<1, 0>>}}
               \cup {Inst("TrimSequences", r, [n |-> 1, fromstart |-> b]) : b \in Bools}
               \cup {Inst("Append", r, [other |-> x]) : x \in AlignIds(h) \ {r}}
               \cup {Inst("Concat", r, [other |-> x]) : x \in AlignIds(h) \ {r}}
          ELSE {})
    : r \in 1..Len(h)}

\* (as in Trace_Heap the receiver after a failing call is what the operation says it is: Append keeps the rows added
\* before the failing one, a failing Translate re-derives the length of an alignment without rows)
ApplyRes(h, recv, R) == [i \in 1..Len(h) |-> IF i = recv THEN R.o ELSE h[i]] \o (IF R.err THEN <<>> ELSE R.new)
\* an alignment without rows may go on reporting the length of the rows it had (FilterLength, RemoveGapSeqs, ...):
\* two such objects are the same object up to that number
SameObj(x, y) == x = y \/ (x.rows = <<>> /\ y.rows = <<>> /\ [x EXCEPT !.len = 0] = [y EXCEPT !.len = 0])
Small(o) == /\ Len(o.rows) <= MaxRows
            /\ \A i \in 1..Len(o.rows) : Len(o.rows[i].s) <= MaxWidth /\ Len(o.rows[i].n) <= MaxName
\* the caller makes two names equal: a renaming whose image has fewer names than its source
Merges(o, post) == Cardinality(Range(NamesOf(post))) < Cardinality(Range(NamesOf(o)))

Init == \E sd \in Seeds : heap = sd /\ dup = {} /\ steps = 0
Next == \E st \in Instances(heap) :
          LET R == Step(heap, st.op, st.recv, st.a)
              h2 == ApplyRes(heap, st.recv, R) IN
          /\ steps < MaxDepth /\ steps' = steps + 1
          /\ R.j
          /\ Len(h2) <= MaxObjs /\ \A i \in 1..Len(h2) : Small(h2[i])
          /\ heap' = h2
          /\ dup' = dup
                    \cup (IF st.op \in RenamingOps /\ ~R.err /\ Merges(heap[st.recv], R.o) THEN {st.recv} ELSE {})
                    \* copies of an object with caller-made duplicates, and objects that took rows from one
                    \cup (IF st.recv \in dup THEN (Len(heap) + 1)..Len(h2) ELSE {})
                    \cup (IF st.op \in {"Append", "Concat"} /\ st.a.other \in dup THEN {st.recv} ELSE {})
Spec == Init /\ [][Next]_<<heap, dup, steps>>
\* breadth-first search meets every heap first at its smallest depth: the step counter is kept out of the fingerprint, so
\* the search is complete for every heap reachable in at most MaxDepth operations and merges the histories leading to it
View == <<heap, dup>>

Rectangular  == \A i \in 1..Len(heap) : Rect(heap[i])
LengthCached == \A i \in 1..Len(heap) : (IsAlign(heap[i]) /\ Len(heap[i].rows) > 0) => heap[i].len = Len(heap[i].rows[1].s)
Distinct     == \A i \in 1..Len(heap) : i \notin dup => ~HasDupNames(heap[i])
Policies     == \A i \in 1..Len(heap) : heap[i].pol \in {0, 1, 2} /\ heap[i].k \in {"align", "bag"}
RejectLeaves == \A st \in Instances(heap) : LET R == Step(heap, st.op, st.recv, st.a) IN (R.err /\ R.j /\ st.op # "Append") => SameObj(R.o, heap[st.recv]) /\ R.new = <<>>
ReadOnly     == \A st \in Instances(heap) : st.op \in ReadOnlyOps => Step(heap, st.op, st.recv, st.a).o = heap[st.recv]
NewAreFresh  == \A st \in Instances(heap) : LET R == Step(heap, st.op, st.recv, st.a) IN
                  \A k \in 1..Len(R.new) : Rect(R.new[k]) /\ R.new[k].pol \in {0, 1, 2}
AddRejects   == \A st \in Instances(heap) : st.op = "Add" =>
                  LET o == heap[st.recv]  R == Step(heap, st.op, st.recv, st.a) IN
                  /\ (IsAlign(o) /\ o.len >= 0 /\ Len(st.a.seq) # o.len /\ ~(HasName(o, st.a.name) /\ o.pol = 1)
                        /\ ~(HasName(o, st.a.name) /\ o.pol = 2 /\ RowOfName(o, st.a.name).s = st.a.seq)) => R.err
                  /\ (~IsAlign(o) \/ o.len < 0 \/ Len(st.a.seq) = o.len) => ~R.err
                  /\ ~R.err => Len(R.o.rows) \in {Len(o.rows), Len(o.rows) + 1}
=============================================================================
