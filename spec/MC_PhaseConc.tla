------------------------------ MODULE MC_PhaseConc ------------------------------
(* Exhaustive check of the Phase protocol: 1..MaxSeqs sequences, 1..MaxWorkers workers, channel capacities 1..2, the     *)
(* failing sequence anywhere or nowhere.                                                                                *)
EXTENDS PhaseConc, TLC
CONSTANTS MaxSeqs, MaxWorkers
Init == \E n \in 1..MaxSeqs, nw \in 1..MaxWorkers, sc \in {1, 2}, oc \in {1, 2} :
          \E f \in {<<>>} \cup {<<a>> : a \in 1..n} \cup {<<a, b>> : a \in 1..n, b \in 1..n} :
             InitWith([n |-> n, nw |-> nw, scap |-> sc, ocap |-> oc, fail |-> f])
Spec == Init /\ [][Next]_vars /\ WF_vars(Next)
=============================================================================
