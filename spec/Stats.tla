-------------------------------- MODULE Stats --------------------------------
(***************************************************************************)
(* Column statistics and consensus (property C14), evaluated naively from  *)
(* the rows.  Results whose order or tie-break no documentation pins are    *)
(* given as relations (Allowed...) or as sets/bags.                         *)
(***************************************************************************)
EXTENDS Sites, F64

Col(o, i)   == [r \in 1..Len(o.rows) |-> o.rows[r].s[i]]          \* raw column, i is 1-based
ColUp(o, i) == [r \in 1..Len(o.rows) |-> Up(o.rows[r].s[i])]
Occ(s, c)   == Cardinality({k \in 1..Len(s) : s[k] = c})
CountMap(s) == {<<c, Occ(s, c)>> : c \in Range(s)}                 \* a set of <<character, count>>
AllChar(o)  == IF o.al = AMINOACIDS THEN chX ELSE chN              \* the alphabet's own "any" symbol
AllCharOrPoint(o) == IF o.al = AMINOACIDS THEN chX ELSE IF o.al = NUCLEOTIDS THEN chN ELSE POINT
Special(c)  == c \in {GAP, POINT, STAR}

\* ---- case-folded character counts ----------------------------------------------
CharStatsAll(o) == CountMap(UpS(FlattenSeq(SeqsOf(o))))
CharStatsSiteErr(o, site) == site < 0 \/ site >= o.len
CharStatsSite(o, site) == CountMap(ColUp(o, site + 1))
CharStatsSeqErr(o, idx) == idx < 0 \/ idx >= Len(o.rows)
CharStatsSeq(o, idx) == CountMap(UpS(o.rows[idx + 1].s))
UniqueChars(o) == SeqOfSet(Range(UpS(FlattenSeq(SeqsOf(o)))))
\* observed maps arrive as sequences of <<c, n>> pairs
ObsMap(m) == {<<m[k][1], m[k][2]>> : k \in 1..Len(m)}

\* ---- majority character -----------------------------------------------------------
Excluded(o, c, igaps, ins) == (igaps /\ c = GAP) \/ (ins /\ c = AllChar(o))
AllowedMaxCharSite(o, i, igaps, ins, out, occur, total) ==
  LET col   == ColUp(o, i)
      kinds == Range(col)
      inc   == {c \in kinds : ~Excluded(o, c, igaps, ins)}
  IN IF inc = {} THEN out \in kinds /\ total = 0          \* only excluded kinds present: fall back to one of them
     ELSE /\ total = Cardinality({k \in 1..Len(col) : col[k] \in inc})
          /\ out \in inc
          /\ occur = Occ(col, out)
          /\ \A c \in inc : Occ(col, c) <= occur
AllowedMaxChar(o, igaps, ins, out, occur, total) ==
  /\ Len(out) = o.len /\ Len(occur) = o.len /\ Len(total) = o.len
  /\ \A i \in 1..o.len : AllowedMaxCharSite(o, i, igaps, ins, out[i], occur[i], total[i])
ConsensusName == <<99, 111, 110, 115, 101, 110, 115, 117, 115>>   \* "consensus"
AllowedConsensus(o, igaps, ins, new) ==
  /\ new.k = "align" /\ new.al = o.al /\ Len(new.rows) = 1 /\ new.len = o.len
  /\ new.rows[1].n = ConsensusName
  /\ Len(new.rows[1].s) = o.len
  /\ \A i \in 1..o.len :
       LET col == ColUp(o, i)  inc == {c \in Range(col) : ~Excluded(o, c, igaps, ins)}  c == new.rows[1].s[i]
       IN IF inc = {} THEN c \in Range(col)
          ELSE c \in inc /\ \A d \in inc : Occ(col, d) <= Occ(col, c)
\* the count used by majority-based site cleaning
MaxOccur(o, i, igaps, ins) ==
  LET col == ColUp(o, i)  inc == {c \in Range(col) : ~Excluded(o, c, igaps, ins)}
  IN IF inc = {} THEN Len(col) ELSE Max({Occ(col, c) : c \in inc})
MaxTotal(o, i, igaps, ins) ==
  LET col == ColUp(o, i) IN Cardinality({k \in 1..Len(col) : ~Excluded(o, col[k], igaps, ins)})

\* the per-site totals MaxCharStats returns next to the characters (the command line does not print them)
MaxCharTotals(o, igaps, ins) ==
  [i \in 1..o.len |-> LET col == ColUp(o, i) IN
                        IF {c \in Range(col) : ~Excluded(o, c, igaps, ins)} = {} THEN 0 ELSE MaxTotal(o, i, igaps, ins)]

\* ---- entropy, variability ------------------------------------------------------------
EntropyErr(o, site) == site < 0 \/ site >= o.len
EntropyCounts(o, site, rmgaps) ==
  LET col == Col(o, site + 1)
      use == SelectSeq(col, LAMBDA c : c # STAR /\ c # POINT /\ (~rmgaps \/ c # GAP))
      ks  == SetToSeq(Range(use))
  IN [total |-> Len(use), kinds |-> [k \in 1..Len(ks) |-> Occ(use, ks[k])]]
Entropy(o, site, rmgaps) ==
  LET ec == EntropyCounts(o, site, rmgaps) IN
  IF ec.total = 0 THEN FParse("NaN")
  ELSE FNeg(FSum([k \in 1..Len(ec.kinds) |->
         LET p == FDiv(FInt(ec.kinds[k]), FInt(ec.total)) IN FMul(p, FLn(p))]))
AllelesAt(o, i) == {c \in Range(Col(o, i)) : ~Special(c)}
NbVariableSites(o) == Cardinality({i \in 1..Width(o) : Cardinality(AllelesAt(o, i)) > 1})
AvgAlleles(o) ==
  FDiv(FInt(SumSeq([i \in 1..Width(o) |-> Cardinality(AllelesAt(o, i))])),
       FInt(Cardinality({i \in 1..Width(o) : AllelesAt(o, i) # {}})))
\* informative: at least two case-folded kinds occurring at least twice; gaps, '.', and the
\* alphabet's any-symbol (compared before folding) do not count
InformativeSites(o) ==
  LET use(i)  == SelectSeq(Col(o, i), LAMBDA c : c # GAP /\ c # POINT /\ c # AllCharOrPoint(o))
      info(i) == Cardinality({c \in Range(UpS(use(i))) : Occ(UpS(use(i)), c) >= 2}) >= 2
  IN SeqOfSet({i - 1 : i \in {i \in 1..Width(o) : info(i)}})

\* ---- PSSM (count and frequency normalisations) ---------------------------------------------
StdNt == <<chA, chC, chG, chT>>
StdAa == <<chA, chR, chN, chD, chC, chQ, chE, chG, chH, chI, chL, chK, chM, chF, chP, chS, chT, chW, chY, chV>>
AlphaChars(o) == IF o.al = AMINOACIDS THEN StdAa ELSE StdNt
\* norm 0 = raw counts, 1 = divided by (number of rows + |alphabet| * pseudocount); optional log2
\* normalisations: 0 none (counts), 1 column frequency, 2 column frequency over the frequency of the character in the
\* whole alignment (case-folded counts; every character of the alphabet must occur, or the call fails), 3 column
\* frequency over the uniform frequency 1/K  (4, "logo", is not a frequency normalisation: not specified here)
TotalOcc(o, c) == SumSeq([i \in 1..Width(o) |-> Occ(ColUp(o, i), c)])
PssmErr(o, norm) == norm \notin {0, 1, 2, 3} \/ (norm = 2 /\ \E k \in 1..Len(AlphaChars(o)) : TotalOcc(o, AlphaChars(o)[k]) = 0)
PssmCell(o, c, i, log, pc, norm) ==
  LET cnt == FAdd(FInt(Occ(ColUp(o, i), c)), pc)
      K   == Len(AlphaChars(o))
      col == FDiv(FInt(1), FAdd(FInt(Len(o.rows)), FMul(FInt(K), pc)))
      all == SumSeq([k \in 1..K |-> TotalOcc(o, AlphaChars(o)[k])])
      nf  == CASE norm = 0 -> FInt(1)
               [] norm = 1 -> col
               [] norm = 2 -> FDiv(col, FDiv(FInt(TotalOcc(o, c)), FInt(all)))
               [] OTHER    -> FDiv(col, FDiv(FInt(1), FInt(K)))
      v   == FMul(cnt, nf)
  IN IF log THEN FDiv(FLn(v), FLn(FInt(2))) ELSE v

\* ---- differences to the first row (raw bytes) -------------------------------------------------
DiffPairs(o, r) == {<<o.rows[1].s[i], o.rows[r].s[i]>> : i \in {i \in 1..Width(o) : o.rows[1].s[i] # o.rows[r].s[i]}}
DiffCount(o, r, p) == Cardinality({i \in 1..Width(o) : o.rows[1].s[i] = p[1] /\ o.rows[r].s[i] = p[2]})
CountDiffAll(o)  == UNION {DiffPairs(o, r) : r \in 2..Len(o.rows)}
CountDiffRow(o, r) == {<<p[1], p[2], DiffCount(o, r, p)>> : p \in DiffPairs(o, r)}

\* ---- residues / gaps unique in their column ------------------------------------------------------
\* prof: a profile (function site -> raw column of another alignment) or <<>> for none
ProfCount(prof, c, i) == Occ(prof[i], c)
GapsUnique(o) == [r \in 1..Len(o.rows) |->
   Cardinality({i \in 1..Width(o) : o.rows[r].s[i] = GAP /\ Occ(Col(o, i), GAP) = 1})]
GapsNew(o, prof) == [r \in 1..Len(o.rows) |->
   Cardinality({i \in 1..Width(o) : o.rows[r].s[i] = GAP /\ ProfCount(prof, GAP, i) = 0})]
GapsBoth(o, prof) == [r \in 1..Len(o.rows) |->
   Cardinality({i \in 1..Width(o) : o.rows[r].s[i] = GAP /\ Occ(Col(o, i), GAP) = 1 /\ ProfCount(prof, GAP, i) = 0})]
CountsAsMut(o, c) == c # GAP /\ c # AllCharOrPoint(o)
MutsUnique(o) == [r \in 1..Len(o.rows) |->
   Cardinality({i \in 1..Width(o) : CountsAsMut(o, o.rows[r].s[i]) /\ Occ(Col(o, i), o.rows[r].s[i]) = 1})]
MutsNew(o, prof) == [r \in 1..Len(o.rows) |->
   Cardinality({i \in 1..Width(o) : CountsAsMut(o, o.rows[r].s[i]) /\ ProfCount(prof, o.rows[r].s[i], i) = 0})]
MutsBoth(o, prof) == [r \in 1..Len(o.rows) |->
   Cardinality({i \in 1..Width(o) : /\ CountsAsMut(o, o.rows[r].s[i]) /\ Occ(Col(o, i), o.rows[r].s[i]) = 1
                                    /\ ProfCount(prof, o.rows[r].s[i], i) = 0})]
ProfileOf(o) == [i \in 1..Width(o) |-> Col(o, i)]
\* the count profile of the property: case-folded counts per character and site
ProfileCounts(o) == {<<c, [i \in 1..Width(o) |-> Cardinality({r \in 1..Len(o.rows) : Up(o.rows[r].s[i]) = c})]>>
                       : c \in {Up(x) : x \in Range(FlattenSeq(SeqsOf(o)))}}
\* an observed profile (sequence of [c, n]) with its rows merged by case-folded character
FoldObservedProfile(prof) ==
  LET W == IF Len(prof) = 0 THEN 0 ELSE Len(prof[1].n) IN
  {<<c, [i \in 1..W |-> SumSeq([k \in 1..Len(prof) |-> IF Up(prof[k].c) = c THEN prof[k].n[i] ELSE 0])]>>
     : c \in {Up(prof[k].c) : k \in 1..Len(prof)}}

\* ---- mutations relative to a reference sequence ------------------------------------------------------
\* residues goalign's IUPAC table knows (others make the call fail): A..N codes, and - * X . as "no base"
KnownNt(c) == IsIupacNt(c) \/ Up(c) \in {GAP, STAR, chX, POINT}
NtBits(c) == IF IsIupacNt(c) THEN IupacSet(Up(c)) ELSE {}
\* identical codes or compatible (sharing a base)
NtCompat(a, b) == NtBits(a) = NtBits(b) \/ (NtBits(a) \cap NtBits(b)) # {}
\* (a = residue of the sequence, b = residue of the reference; "N/X never count as substitutions": the wildcard of the
\* alphabet in the reference is compatible with everything, as N is among nucleotides)
SameOrCompat(al, a, b) == IF al = NUCLEOTIDS THEN NtCompat(a, b) ELSE (a = b \/ (al = AMINOACIDS /\ b = chX))
AnyOf(al) == IF al = NUCLEOTIDS THEN chN ELSE chX
NumMutErr(al, s, ref) == Len(s) # Len(ref) \/ (al = NUCLEOTIDS /\ \E i \in 1..Len(s) : ~KnownNt(s[i]) \/ ~KnownNt(ref[i]))
NumMut(al, s, ref) ==
  Cardinality({i \in 1..Len(s) : s[i] # GAP /\ s[i] # AnyOf(al) /\ ~SameOrCompat(al, s[i], ref[i])})
\* list of mutations as a bag of <<ref, pos, alt>>: insertions (runs of residues facing reference gaps,
\* reported at the ungapped reference position that follows) and per-site substitutions/deletions
RefPos(ref, i) == Cardinality({j \in 1..(i-1) : ref[j] # GAP})          \* ungapped index of alignment site i
InsertRunStarts(ref) == {i \in 1..Len(ref) : ref[i] = GAP /\ (i = 1 \/ ref[i-1] # GAP)}
RunEnd(ref, i) == CHOOSE e \in i..Len(ref) : (\A j \in i..e : ref[j] = GAP) /\ (e = Len(ref) \/ ref[e+1] # GAP)
ListMut(al, s, ref) ==
  LET subs == {<<ref[i], RefPos(ref, i), <<s[i]>> >> :
                 i \in {i \in 1..Len(s) : ref[i] # GAP /\ s[i] # AnyOf(al) /\ ~SameOrCompat(al, s[i], ref[i])}}
      ins  == {<<GAP, RefPos(ref, i), SelectSeq(SubSeq(s, i, RunEnd(ref, i)), LAMBDA c : c # GAP)>> :
                 i \in {i \in InsertRunStarts(ref) : \E j \in i..RunEnd(ref, i) : s[j] # GAP}}
  IN subs \cup ins
\* ---- site conservation (the Clustal conservation line; groups from the ClustalW documentation) -------------------
StrongGroups == {{83, 84, 65}, {78, 69, 81, 75}, {78, 72, 81, 75}, {78, 68, 69, 81}, {81, 72, 82, 75}, {77, 73, 76, 86}, {77, 73, 76, 70}, {72, 89}, {70, 89, 87}}
WeakGroups == {{67, 83, 65}, {65, 84, 86}, {83, 65, 71}, {83, 84, 78, 75}, {83, 84, 80, 65}, {83, 71, 78, 68}, {83, 78, 68, 69, 81, 75}, {78, 68, 69, 81, 72, 75}, {78, 69, 81, 72, 82, 75}, {70, 86, 76, 73, 77}, {72, 70, 89}}
\* 0 identical (all rows equal and no gap), 1 all residues in one strong group, 2 in one weak group, 3 otherwise;
\* the groups only apply to protein alignments
SiteConservationErr(o, pos) == pos < 0 \/ pos >= o.len
SiteConservation(o, pos) ==
  LET col == Col(o, pos + 1)
      up == {Up(col[r]) : r \in 1..Len(col)}
      same == (\A r \in 1..Len(col) : col[r] = col[1]) /\ (\A r \in 1..Len(col) : col[r] # GAP)
  IN IF same THEN 0
     ELSE IF o.al = AMINOACIDS /\ \E g \in StrongGroups : up \subseteq g THEN 1
     ELSE IF o.al = AMINOACIDS /\ \E g \in WeakGroups : up \subseteq g THEN 2
     ELSE 3
\* the characters of the alphabet and their indexes
AlphabetIndex(o, c) == IF \E k \in 1..Len(AlphaChars(o)) : AlphaChars(o)[k] = Up(c) /\ o.al \in {AMINOACIDS, NUCLEOTIDS}
                       THEN (CHOOSE k \in 1..Len(AlphaChars(o)) : AlphaChars(o)[k] = Up(c)) - 1 ELSE -1
=============================================================================
