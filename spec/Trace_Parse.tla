------------------------------ MODULE Trace_Parse ------------------------------
(* Total trace validation of parser outcomes (C03). *)
EXTENDS ParseOutcome, Json, IOUtils, TLC
Trace == ndJsonDeserialize(IOEnv.TRACE)
VARIABLES l, bad
Init == l = 1 /\ bad = <<>>
Next == /\ l <= Len(Trace)
        /\ LET ch == OutcomeChecks(Trace[l])
               f == {k \in DOMAIN ch : ~ch[k]}
           IN bad' = IF f = {} THEN bad ELSE Append(bad, [i |-> l, failing |-> SetToSeq(f)])
        /\ l' = l + 1
Spec == Init /\ [][Next]_<<l, bad>>
Done == l = Len(Trace) + 1 => PrintT(<<"RESULT", ToJson([consumed |-> l - 1, bad |-> bad])>>)
=============================================================================
