---------------------------------- MODULE SW ----------------------------------
(***************************************************************************)
(* Pairwise local alignment (property C09).  All scores are integers: the   *)
(* configured values times 2 (gap extension -0.5 is -1).                    *)
(*                                                                         *)
(* A scheme is [mode, match, mismatch, open, ext]: mode "scores" compares   *)
(* raw bytes; mode "dna" / "prot" looks the case-folded residues up in the  *)
(* EDNAFULL / EBLOSUM62 tables (SWTables).                                  *)
(*   Score(r1, r2)  score of a gapped pair of rows: a gap run of length n   *)
(*                  costs open + (n-1)*ext;                                 *)
(*   Opt(s1, s2)    the best local alignment score, Gotoh's recurrences     *)
(*                  written as folds (TLC does not memoise recursion);      *)
(*   Brute(s1, s2)  the same by enumeration of every local alignment        *)
(*                  (tiny inputs; MC_SW checks Opt = Brute).                *)
(***************************************************************************)
EXTENDS Residues, SWTables

PosIn(order, c) == IF \E k \in 1..Len(order) : order[k][1] = c THEN order[CHOOSE k \in 1..Len(order) : order[k][1] = c][2] ELSE 0
\* scores are integers in units of 1/Unit (halves by default; tenths for penalties that are not exact in binary)
Unit(sch) == IF "unit" \in DOMAIN sch THEN sch.unit ELSE 2
Sub(sch, a, b) ==
  CASE sch.mode = "scores" -> IF a = b THEN sch.match ELSE sch.mismatch
    [] sch.mode = "dna"  -> Unit(sch) * DnaFull[PosIn(DnaFullOrder, Up(a))][PosIn(DnaFullOrder, Up(b))]
    [] sch.mode = "prot" -> Unit(sch) * Blosum62[PosIn(Blosum62Order, Up(a))][PosIn(Blosum62Order, Up(b))]
InAlphabet(sch, s) ==
  CASE sch.mode = "dna"  -> \A i \in 1..Len(s) : PosIn(DnaFullOrder, Up(s[i])) > 0
    [] sch.mode = "prot" -> \A i \in 1..Len(s) : PosIn(Blosum62Order, Up(s[i])) > 0
    [] OTHER -> TRUE

Max2(a, b) == IF a >= b THEN a ELSE b
NEG == -100000000

\* ---- score of a gapped pair of rows ------------------------------------------------------------
Score(sch, r1, r2) ==
  LET step(acc, k) ==
        IF r1[k] = GAP THEN [t |-> acc.t + (IF acc.g = 1 THEN sch.ext ELSE sch.open), g |-> 1]
        ELSE IF r2[k] = GAP THEN [t |-> acc.t + (IF acc.g = 2 THEN sch.ext ELSE sch.open), g |-> 2]
        ELSE [t |-> acc.t + Sub(sch, r1[k], r2[k]), g |-> 0]
  IN FoldLeft(step, [t |-> 0, g |-> 0], [k \in 1..Len(r1) |-> k]).t

\* ---- Gotoh ---------------------------------------------------------------------------------------
\* a row of the tables is [H, F]: sequences indexed 1..m+1 (column j of the DP = index j+1)
GotohRow(sch, prev, a, s2) ==
  LET m == Len(s2)
      step(acc, j) ==
        LET e == Max2(acc.E + sch.ext, acc.H[j] + sch.open)
            f == Max2(prev.F[j + 1] + sch.ext, prev.H[j + 1] + sch.open)
            h == Max2(0, Max2(prev.H[j] + Sub(sch, a, s2[j]), Max2(e, f)))
        IN [H |-> Append(acc.H, h), F |-> Append(acc.F, f), E |-> e, best |-> Max2(acc.best, h)]
  IN FoldLeft(step, [H |-> <<0>>, F |-> <<NEG>>, E |-> NEG, best |-> prev.best], [j \in 1..m |-> j])
Opt(sch, s1, s2) ==
  LET m == Len(s2)
      row0 == [H |-> [j \in 1..(m + 1) |-> 0], F |-> [j \in 1..(m + 1) |-> NEG], E |-> NEG, best |-> 0]
  IN FoldLeft(LAMBDA prev, i : GotohRow(sch, prev, s1[i], s2), row0, [i \in 1..Len(s1) |-> i]).best

\* ---- brute force: every pair of substrings, every sequence of columns (M both, I gap in row 2, D gap in row 1) ----
ColSeqs(n1, n2) == {cs \in UNION {[1..k -> {"M", "I", "D"}] : k \in Max2(n1, n2)..(n1 + n2)} :
                      /\ Cardinality({k \in DOMAIN cs : cs[k] # "D"}) = n1
                      /\ Cardinality({k \in DOMAIN cs : cs[k] # "I"}) = n2}
RowsOf(cs, u, v) ==
  LET c1(k) == Cardinality({x \in 1..k : cs[x] # "D"})
      c2(k) == Cardinality({x \in 1..k : cs[x] # "I"})
  IN [r1 |-> [k \in DOMAIN cs |-> IF cs[k] = "D" THEN GAP ELSE u[c1(k)]],
      r2 |-> [k \in DOMAIN cs |-> IF cs[k] = "I" THEN GAP ELSE v[c2(k)]]]
Subs(s) == {SubSeq(s, a, b) : a \in 1..Len(s), b \in 1..Len(s)} \ {<<>>}
Brute(sch, s1, s2) ==
  LET all == UNION {{Score(sch, RowsOf(cs, u, v).r1, RowsOf(cs, u, v).r2) : cs \in ColSeqs(Len(u), Len(v))} : u \in Subs(s1), v \in Subs(s2)}
  IN IF all = {} THEN 0 ELSE Max2(0, Max(all))

\* ---- the relation between inputs and an observed result ---------------------------------------------
\* obs = [r1, r2, score, st1, st2, e1, e2, nm, nmm, ng, len, after1, after2]
Ungapped(r) == SelectSeq(r, LAMBDA c : c # GAP)
Structure(s1, s2, obs) ==
  /\ Len(obs.r1) = Len(obs.r2)
  /\ \A k \in 1..Len(obs.r1) : ~(obs.r1[k] = GAP /\ obs.r2[k] = GAP)
  /\ obs.st1 >= 0 /\ obs.e1 < Len(s1) /\ obs.st2 >= 0 /\ obs.e2 < Len(s2)
  /\ Ungapped(obs.r1) = SubSeq(s1, obs.st1 + 1, obs.e1 + 1)
  /\ Ungapped(obs.r2) = SubSeq(s2, obs.st2 + 1, obs.e2 + 1)
Counts(obs) ==
  /\ obs.len = Len(obs.r1)
  /\ obs.nm + obs.nmm + obs.ng = obs.len
  /\ obs.ng  = Cardinality({k \in 1..Len(obs.r1) : obs.r1[k] = GAP \/ obs.r2[k] = GAP})
  /\ obs.nm  = Cardinality({k \in 1..Len(obs.r1) : obs.r1[k] # GAP /\ obs.r2[k] # GAP /\ obs.r1[k] = obs.r2[k]})
SWChecks(sch, s1, s2, obs) ==
  LET opt == Opt(sch, s1, s2) IN
  [structure       |-> Structure(s1, s2, obs),
   counts          |-> Counts(obs),
   scoreEqualsRows |-> opt > 0 => obs.score = Score(sch, obs.r1, obs.r2),
   optimal         |-> opt > 0 => obs.score = opt,
   inputsUnchanged |-> obs.after1 = s1 /\ obs.after2 = s2]
=============================================================================
