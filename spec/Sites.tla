-------------------------------- MODULE Sites --------------------------------
(***************************************************************************)
(* Site extraction and coordinates (property C04).  All site arguments are *)
(* 0-based as in the Go API; sequences are 1-based in TLA+.                *)
(***************************************************************************)
EXTENDS Container

NewAlignFrom(o, rows) == [k |-> "align", al |-> o.al, pol |-> 0, rows |-> rows,
                          len |-> IF Len(rows) = 0 THEN -1 ELSE Len(rows[1].s)]
MapRows(o, f(_)) == [i \in 1..Len(o.rows) |-> [o.rows[i] EXCEPT !.s = f(@)]]

\* ---- ranges and lists -------------------------------------------------------
SubAlignErr(o, start, len) == start < 0 \/ start > o.len \/ len < 0 \/ start + len > o.len
SubAlignOp(o, start, len) ==
  IF SubAlignErr(o, start, len) THEN Fail(o)
  ELSE OkNew(o, NewAlignFrom(o, MapRows(o, LAMBDA s : SubSeq(s, start + 1, start + len))))

SiteOut(o, site) == site < 0 \/ site >= o.len
SelectSitesOp(o, sites) ==
  IF \E k \in 1..Len(sites) : SiteOut(o, sites[k]) THEN Fail(o)
  ELSE OkNew(o, NewAlignFrom(o, MapRows(o, LAMBDA s : [k \in 1..Len(sites) |-> s[sites[k] + 1]])))

InverseCoordinatesOp(o, start, len) ==
  IF SubAlignErr(o, start, len) THEN Fail(o)
  ELSE LET before == IF start > 0 THEN <<[s |-> 0, l |-> start]>> ELSE <<>>
           after  == IF start + len < o.len THEN <<[s |-> start + len, l |-> o.len - (start + len)]>> ELSE <<>>
           iv == before \o after
       IN Res(FALSE, o, <<>>, [starts |-> [i \in 1..Len(iv) |-> iv[i].s], lens |-> [i \in 1..Len(iv) |-> iv[i].l]], TRUE)

InversePositionsOp(o, sites) ==
  IF \E k \in 1..Len(sites) : SiteOut(o, sites[k]) THEN Fail(o)
  ELSE Res(FALSE, o, <<>>, [sites |-> SeqOfSet({i \in 0..(o.len - 1) : ~Member(sites, i)})], TRUE)

TrimSequencesOp(o, n, fromStart) ==
  IF n < 0 \/ n >= o.len THEN Fail(o)
  ELSE Ok([o EXCEPT !.rows = MapRows(o, LAMBDA s : IF fromStart THEN SubSeq(s, n + 1, Len(s)) ELSE SubSeq(s, 1, Len(s) - n)),
                    !.len = @ - n])

\* ---- reference coordinates -----------------------------------------------------
\* positions (1-based) of the non-gap residues of s, ascending
NonGapPos(s) == SeqOfSet({i \in 1..Len(s) : s[i] # GAP})
\* smallest alignment window whose reference residues are exactly ungapped positions
\* refstart .. refstart+reflen-1 (0-based): from the refstart-th non-gap to the last requested one
RefCoordinatesErr(o, nm, refstart, reflen) ==
  \/ ~HasName(o, nm) \/ refstart < 0 \/ reflen <= 0
  \/ refstart + reflen > Len(NonGapPos(RowOfName(o, nm).s))
RefCoordinatesOp(o, nm, refstart, reflen) ==
  IF RefCoordinatesErr(o, nm, refstart, reflen) THEN Fail(o)
  ELSE LET p == NonGapPos(RowOfName(o, nm).s)
           first == p[refstart + 1]
           last  == p[refstart + reflen]
       IN Res(FALSE, o, <<>>, [start |-> first - 1, len |-> last - first + 1], TRUE)
\* RefSites: the alignment positions of the given ungapped reference positions, in the order given (repeats kept:
\* "the addressed columns in the addressed order"); a position the reference does not have is rejected
RefSitesErr(o, nm, sites) ==
  ~HasName(o, nm) \/ \E k \in 1..Len(sites) : sites[k] < 0 \/ sites[k] >= Len(NonGapPos(RowOfName(o, nm).s))
RefSitesOp(o, nm, sites) ==
  IF RefSitesErr(o, nm, sites) THEN Fail(o)
  ELSE LET p == NonGapPos(RowOfName(o, nm).s)
       IN Res(FALSE, o, <<>>, [sites |-> [k \in 1..Len(sites) |-> p[sites[k] + 1] - 1]], TRUE)

\* ---- partitions ------------------------------------------------------------------
\* AddRange(part, start, end, modulo) applied in order to a fresh partition set of length plen.
\* Result: [err, vec] where vec[i+1] is the partition index of site i (-1 = unassigned) and
\* partitions are numbered by first appearance of their name.
RangeSites(r) == {i \in r.s..r.e : (i - r.s) % r.m = 0}
AddRangeErr(vec, plen, r) == r.s < 0 \/ r.e >= plen \/ r.m <= 0 \/ \E i \in RangeSites(r) : vec[i + 1] # -1
PartitionOf(plen, ranges) ==
  LET step(acc, r) ==
        IF acc.err THEN acc
        ELSE IF AddRangeErr(acc.vec, plen, r) THEN [acc EXCEPT !.err = TRUE]
        ELSE LET known == Member(acc.names, r.p)
                 names == IF known THEN acc.names ELSE Append(acc.names, r.p)
                 pi    == FirstIdx(names, LAMBDA x : x = r.p) - 1
             IN [err |-> FALSE, names |-> names,
                 vec |-> [i \in 1..plen |-> IF (i - 1) \in RangeSites(r) THEN pi ELSE acc.vec[i]]]
  IN FoldLeft(step, [err |-> FALSE, names |-> <<>>, vec |-> [i \in 1..plen |-> -1]], ranges)
SplitErr(o, plen, np) == np <= 1 \/ plen # o.len
SplitOp(o, plen, part) ==   \* part = PartitionOf(...), not in error
  LET np == Len(part.names) IN
  IF SplitErr(o, plen, np) THEN Fail(o)
  ELSE Res(FALSE, o,
           [p \in 1..np |->
              LET cols == SeqOfSet({i \in 1..plen : part.vec[i] = p - 1})
              IN NewAlignFrom(o, IF Len(cols) = 0 THEN <<>> ELSE MapRows(o, LAMBDA s : Pick(s, cols)))],
           NoRet, TRUE)

\* ---- transposition, diff ---------------------------------------------------------------
TransposeOp(o) ==
  OkNew(o, NewAlignFrom(o, [i \in 1..Width(o) |-> [n |-> Digits(i - 1), s |-> [r \in 1..Len(o.rows) |-> o.rows[r].s[i]]]]))
DiffWithFirstOp(o) ==
  IF Len(o.rows) < 2 THEN Ok(o)
  ELSE Ok([o EXCEPT !.rows = [r \in 1..Len(o.rows) |->
            IF r = 1 THEN o.rows[1]
            ELSE [o.rows[r] EXCEPT !.s = [i \in 1..Len(@) |-> IF @[i] = o.rows[1].s[i] THEN POINT ELSE @[i]]]]])
ReplaceMatchCharsOp(o) ==
  IF Len(o.rows) < 2 THEN Ok(o)
  ELSE Ok([o EXCEPT !.rows = [r \in 1..Len(o.rows) |->
            IF r = 1 THEN o.rows[1]
            ELSE [o.rows[r] EXCEPT !.s = [i \in 1..Len(@) |->
                    IF @[i] = POINT /\ o.rows[1].s[i] # POINT THEN o.rows[1].s[i] ELSE @[i]]]]])
=============================================================================
