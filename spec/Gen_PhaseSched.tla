----------------------------- MODULE Gen_PhaseSched -----------------------------
(***************************************************************************)
(* TLC as generator of SCHEDULES of the Phase protocol (model -> code):     *)
(* random behaviours of PhaseConc (simulation mode) from the call to the    *)
(* point where every process is finished, recorded as the sequence of       *)
(* actions taken.  The Go harness (harness/phsched.go) replays them on the  *)
(* real goroutines, every hook being a gate; the consumer of the result     *)
(* stream is the harness itself and receives exactly when the schedule      *)
(* says so.                                                                 *)
(***************************************************************************)
EXTENDS PhaseConc, Json, TLC
VARIABLE sched
svars == <<vars, sched>>
L(g, act, a) == sched' = Append(sched, [g |-> g, act |-> act, a |-> a])
Configs == {[n |-> n, nw |-> nw, scap |-> 50, ocap |-> 50, fail |-> f] :
              n \in 1..4, nw \in 1..3, f \in {<<>>, <<1>>, <<2>>, <<3>>, <<1, 2>>, <<2, 4>>}}
SInit == sched = <<>> /\ \E c \in {c \in Configs : \A i \in 1..Len(c.fail) : c.fail[i] <= c.n} : InitWith(c)
SNext ==
  \/ \E s \in 1..N : ph_f_send(s) /\ L(0, "f.send", s)
  \/ ph_f_close /\ L(0, "f.close", 0)
  \/ \E w \in Workers : ph_w_start(w) /\ L(w, "w.start", 0)
  \/ \E w \in Workers : \E s \in 1..N : ph_w_recv(w, s) /\ L(w, "w.recv", s)
  \/ \E w \in Workers : ph_w_result(w) /\ L(w, "w.result", cur[w])
  \/ \E w \in Workers : ph_w_fail(w) /\ L(w, "w.fail", cur[w])
  \/ \E w \in Workers : ph_w_stop(w) /\ L(w, "w.stop", cur[w])
  \/ \E w \in Workers : ph_w_done(w) /\ L(w, "w.done", 0)
  \/ ph_c_wait /\ L(-1, "c.wait", 0)
  \/ ph_c_close /\ L(-1, "c.close", 0)
  \/ c_drain /\ L(-1, "c.drain", 0)
  \/ k_recv /\ L(-2, "k.recv", Head(out))
SSpec == SInit /\ [][SNext]_svars
\* every process is finished: the feeder has closed its channel and it is empty, the stream is closed and empty
Terminal == Finished /\ fpc = "done" /\ sch = <<>> /\ \A w \in Workers : wpc[w] = "exited"
Emit == Terminal => PrintT(ToJson([cfg |-> cfg, got |-> got, goterr |-> gotErr, sched |-> sched]))
=============================================================================
