----------------------------- MODULE ParseOutcome -----------------------------
(***************************************************************************)
(* What a parser may answer to an arbitrary byte string (property C03).     *)
(* The outcome of one call is                                               *)
(*   kind  "err" (explicit error) | "exit" (the process stopped with an     *)
(*         explicit message) | "eos" (Phylip: no further alignment) | "ok"  *)
(*         | "panic" | "hang";                                              *)
(*   outs  the alignments / sequence sets delivered; part the partition map.*)
(* Never allowed: panic, hang, success with an empty or ragged alignment,   *)
(* duplicate names, or counts that contradict the header the input itself   *)
(* declares (read here, from the bytes, by the specification).              *)
(***************************************************************************)
EXTENDS Container

Blank == {32, 9, 10, 13}
IsDigit(c) == c >= 48 /\ c <= 57
\* first index >= i whose byte is not in S (Len+1 if none)
SkipSet(b, i, S) == CHOOSE j \in i..(Len(b) + 1) : (j = Len(b) + 1 \/ b[j] \notin S) /\ \A k \in i..(j - 1) : b[k] \in S
SkipDigits(b, i) == CHOOSE j \in i..(Len(b) + 1) : (j = Len(b) + 1 \/ ~IsDigit(b[j])) /\ \A k \in i..(j - 1) : IsDigit(b[k])
NatOf(b, i, j) == FoldLeft(LAMBDA acc, k : acc * 10 + (b[k] - 48), 0, [k \in 1..(j - i) |-> i + k - 1])   \* digits b[i..j-1]
\* the input up to its first NUL byte (every lexer of goalign uses rune 0 as its end-of-input mark)
Visible(b) == IF \E i \in 1..Len(b) : b[i] = 0 THEN SubSeq(b, 1, (CHOOSE i \in 1..Len(b) : b[i] = 0 /\ \A k \in 1..(i - 1) : b[k] # 0) - 1) ELSE b

\* Phylip header "n L": declared = [ok, n, len]; numbers of more than 8 digits are treated as undeclared
PhylipHeader(b0) ==
  LET b  == Visible(b0)
      i1 == SkipSet(b, 1, Blank)
      j1 == SkipDigits(b, i1)
      i2 == SkipSet(b, j1, {32, 9})
      j2 == SkipDigits(b, i2)
  IN IF j1 > i1 /\ j1 - i1 <= 8 /\ i2 > j1 /\ j2 > i2 /\ j2 - i2 <= 8 /\ (j2 = Len(b) + 1 \/ b[j2] \in Blank)
     THEN [ok |-> TRUE, n |-> NatOf(b, i1, j1), len |-> NatOf(b, i2, j2)]
     ELSE [ok |-> FALSE, n |-> 0, len |-> 0]
\* Nexus: the counts the input declares.  A declaration is "<key> = <digits>" inside a DIMENSIONS command (the text
\* from the previous ';' starts with that word) of a TAXA, DATA or CHARACTERS block (the last BEGIN before it names one
\* and no END lies in between), outside a comment; when a command repeats the key its last value counts, and when
\* several blocks of one kind declare it the last block does (io/nexus: parseTaxa / parseData overwrite the value).
\* kinds: "taxa" | "data".  The result is a set with at most one value per kind.
WordEnd == Blank \cup {59, 61, 91, 93}
WordAt(b, i, w) == /\ i >= 1 /\ i + Len(w) - 1 <= Len(b) /\ UpS(SubSeq(b, i, i + Len(w) - 1)) = w
                   /\ (i = 1 \/ b[i - 1] \in WordEnd) /\ (i + Len(w) > Len(b) \/ b[i + Len(w)] \in WordEnd)
sBEGIN == <<66, 69, 71, 73, 78>>  sEND == <<69, 78, 68>>  sDIM == <<68, 73, 77, 69, 78, 83, 73, 79, 78, 83>>
sTAXA == <<84, 65, 88, 65>>  sDATA == <<68, 65, 84, 65>>  sCHARS == <<67, 72, 65, 82, 65, 67, 84, 69, 82, 83>>
MaxOf(S) == CHOOSE x \in S : \A y \in S : y <= x
Declared(b0, key, kind) ==
  LET b == Visible(b0)
      K == Len(key)
      val(i) == LET e1 == SkipSet(b, i + K, {32, 9})
                    e2 == IF e1 <= Len(b) /\ b[e1] = 61 THEN SkipSet(b, e1 + 1, {32, 9}) ELSE 0
                    e3 == IF e2 = 0 THEN 0 ELSE SkipDigits(b, e2)
                IN IF e2 # 0 /\ e3 > e2 /\ e3 - e2 <= 8 THEN NatOf(b, e2, e3) ELSE -1
      cmdStart(i) == LET S == {j \in 1..(i - 1) : b[j] = 59} IN IF S = {} THEN 1 ELSE MaxOf(S) + 1
      cmdEnd(i) == LET S == {j \in i..Len(b) : b[j] = 59} IN IF S = {} THEN Len(b) + 1 ELSE CHOOSE j \in S : \A k \in S : j <= k
      inDim(i) == WordAt(b, SkipSet(b, cmdStart(i), Blank), sDIM)
      inComment(i) == \E j \in 1..(i - 1) : b[j] = 91 /\ \A k \in (j + 1)..(i - 1) : b[k] # 93
      blockOf(i) == LET B == {j \in 1..(i - 1) : WordAt(b, j, sBEGIN)} IN
                    IF B = {} THEN "none"
                    ELSE LET j == MaxOf(B)
                             n == SkipSet(b, j + 5, Blank)
                         IN IF \E k \in j..(i - 1) : WordAt(b, k, sEND) THEN "none"
                            ELSE IF WordAt(b, n, sTAXA) THEN "taxa"
                            ELSE IF WordAt(b, n, sDATA) \/ WordAt(b, n, sCHARS) THEN "data" ELSE "none"
      cand == {i \in 1..Len(b) : WordAt(b, i, key) /\ val(i) # -1}
      good == {i \in cand : /\ inDim(i) /\ ~inComment(i) /\ blockOf(i) = kind
                             /\ ~\E i2 \in cand : i2 > i /\ i2 < cmdEnd(i)}
  IN IF good = {} THEN {} ELSE {val(MaxOf(good))}
DeclaredValues(b0, key) == Declared(b0, key, "taxa") \cup Declared(b0, key, "data")
sNTAX == <<78, 84, 65, 88>>
sNCHAR == <<78, 67, 72, 65, 82>>

WellFormedOut(o) ==
  [nonEmpty    |-> o.nb >= 1 /\ Len(o.rows) = o.nb /\ (o.k = "align" => o.len >= 1),
   rectangular |-> o.k = "align" => \A r \in 1..Len(o.rows) : Len(o.rows[r].s) = o.len,
   namesDistinct |-> NoDup([r \in 1..Len(o.rows) |-> o.rows[r].n])]
HeaderOK(c, o) ==
  CASE c.fmt \in {"phylip", "phylipmulti"} ->
         \* (under the duplicate-name policies that DROP a row, fewer rows than declared is the policy's meaning)
         LET h == PhylipHeader(c.bytes) IN h.ok => ((IF c.pol = 0 THEN o.nb = h.n ELSE o.nb <= h.n) /\ o.len = h.len)
    [] c.fmt = "nexus" ->
         LET nt == DeclaredValues(c.bytes, sNTAX)  nc == DeclaredValues(c.bytes, sNCHAR)
         \* every NTAX the input declares (TAXA block, DATA / CHARACTERS block) and every NCHAR: the parser compares each with
         \* what it read, so a success agrees with all of them
         IN (\A x \in nt : IF c.pol = 0 THEN o.nb = x ELSE o.nb <= x) /\ (\A x \in nc : o.len = x)
    [] OTHER -> TRUE
\* e = [c: [fmt, strict, pol, alpha, plen, bytes], kind, outs, part]
OutcomeChecks(e) ==
  LET wf(k) == \A i \in 1..Len(e.outs) : WellFormedOut(e.outs[i])[k] IN
  [noPanic       |-> e.kind # "panic",
   terminates    |-> e.kind # "hang",
   eosOnlyAtEnd  |-> e.kind = "eos" => (e.c.fmt = "phylip" /\ \A i \in 1..Len(Visible(e.c.bytes)) : Visible(e.c.bytes)[i] \in Blank),
   delivers      |-> (e.kind = "ok" /\ e.c.fmt \notin {"partition", "phylipmulti"}) => Len(e.outs) = 1,
   nonEmpty      |-> e.kind = "ok" => wf("nonEmpty"),
   rectangular   |-> e.kind = "ok" => wf("rectangular"),
   namesDistinct |-> e.kind = "ok" => wf("namesDistinct"),
   headerConsistent |-> (e.kind = "ok" /\ Len(e.outs) >= 1) => HeaderOK(e.c, e.outs[1]),
   \* a stream whose layout the generator knows delivers exactly that list
   declaredStream |-> (e.kind = "ok" /\ Len(e.c.decl) > 0) =>
                        (Len(e.outs) = Len(e.c.decl) /\ ~e.finalerr /\ \A k \in 1..Len(e.c.decl) : e.outs[k].nb = e.c.decl[k][1] /\ e.outs[k].len = e.c.decl[k][2]),
   \* the channel interface of the Phylip stream parser (what the commands read) tells the same story as repeated Parse
   \* calls: as many alignments, then an error or a clean end of stream
   channelSame   |-> (e.kind = "ok" /\ "chn" \in DOMAIN e) => (e.chn = Len(e.outs) /\ e.cherr = e.finalerr),
   partitionMap  |-> (e.kind = "ok" /\ e.c.fmt = "partition") => (Len(e.part) = e.c.plen /\ \A i \in 1..Len(e.part) : e.part[i] >= -1)]
=============================================================================
