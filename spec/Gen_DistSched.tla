------------------------------ MODULE Gen_DistSched ------------------------------
(***************************************************************************)
(* TLC as generator of SCHEDULES of the DistMatrix protocol (model -> code): *)
(* random behaviours of DistMatrixConc (simulation mode) from the initial    *)
(* state to the return of the call, recorded as the sequence of actions      *)
(* taken - process, hook name, argument.  The Go harness replays each        *)
(* schedule on the real goroutines: every hook is a gate, a goroutine is     *)
(* released exactly when the schedule gives it its next action, and it must  *)
(* then arrive at the hook the model names, with the model's argument        *)
(* (harness/distsched.go).                                                   *)
(***************************************************************************)
EXTENDS DistMatrixConc, Json, TLC
VARIABLE sched
svars == <<vars, sched>>
L(g, act, a) == sched' = Append(sched, [g |-> g, act |-> act, a |-> a])
Configs ==
  {[np |-> np, nw |-> nw, cap |-> 100, fd |-> fd, fs |-> fs] :
     np \in {1, 3, 6}, nw \in {1, 2, 3}, fd \in {<<>>, <<1>>, <<2>>, <<1, 2>>, <<3>>, <<2, 3, 4>>}, fs \in {0, 1, 2, 3, 4, 7}}
SInit == sched = <<>> /\ \E c \in {c \in Configs : c.fs <= c.np + 1 /\ (c.fd = <<>> \/ c.fs = 0)} : InitWith(c)
SNext ==
  \/ dm_p_start /\ L(0, "p.start", 0)
  \/ \E p \in 1..(NPairs + 1) : dm_p_send(p) /\ L(0, "p.send", p)
  \/ \E p \in 1..(NPairs + 1) : dm_p_err(p) /\ L(0, "p.err", p)
  \/ dm_p_close /\ L(0, "p.close", 0)
  \/ \E w \in Workers : dm_w_start(w) /\ L(w, "w.start", 0)
  \/ \E w \in Workers : \E p \in Pairs : dm_w_recv(w, p) /\ L(w, "w.recv", p)
  \/ \E w \in Workers : dm_w_dist(w) /\ L(w, "w.dist", cur[w])
  \/ \E w \in Workers : dm_w_err(w) /\ L(w, "w.err", cur[w])
  \/ \E w \in Workers : dm_w_lock(w) /\ L(w, "w.lock", cur[w])
  \/ \E w \in Workers : dm_w_unlock(w) /\ L(w, "w.unlock", cur[w])
  \/ \E w \in Workers : dm_w_done(w) /\ L(w, "w.done", 0)
  \/ dm_m_wait /\ L(-1, "m.wait", 0)
  \/ \E f \in {0, 1} : dm_m_ret(f) /\ L(-1, "m.ret", f)
SSpec == SInit /\ [][SNext]_svars
\* printed once, in the state where the call has returned (no step follows it)
Emit == mpc = "done" => PrintT(ToJson([cfg |-> cfg, ret |-> ret, sched |-> sched]))
=============================================================================
