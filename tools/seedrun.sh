#!/bin/bash
# tools/seedrun.sh <seeded-name> [property ...]
# Applies the seeded change to a scratch worktree of /repo (removed afterwards; /repo itself is not touched, so this can
# run next to other checks), runs the quick checks against that tree (VERIF_REPO) and prints what they report.
# VERIF_HOME: the copy of /verif whose checks are run (default /verif; tools/seedall.sh uses a snapshot so that edits made
# meanwhile do not reach the runs).
N=$1; shift
P=${@:-${N%%-*}}
HOME_V=${VERIF_HOME:-/verif}
cd $HOME_V
WT=/tmp/sr-$N-$$
git -C /repo worktree remove --force $WT 2>/dev/null; rm -rf $WT
git -C /repo worktree add -q --detach $WT HEAD || exit 2
trap "git -C /repo worktree remove --force $WT 2>/dev/null; rm -rf $WT" EXIT
(cd $WT && (git apply /verif/seeded/$N/patch.diff 2>/dev/null || patch -p1 --fuzz=3 -s < /verif/seeded/$N/patch.diff)) || { echo "$N: PATCH-DOES-NOT-APPLY"; exit 2; }
for p in $P; do
  out=$(VERIF_REPO=$WT ./check $p --tier ${TIER:-quick} 2>&1); rc=$?
  echo "$N $p rc=$rc $(echo "$out" | grep -c '^VIOLATION') violation(s) :: $(echo "$out" | grep 'violation:' | head -2 | cut -c1-220 | tr '\n' ' ')"
done
