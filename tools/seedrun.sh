#!/bin/bash
# tools/seedrun.sh <seeded-name> [property ...]   applies the seeded change to /repo, runs the quick checks, undoes it
N=$1; shift
P=${@:-${N%%-*}}
cd /verif
git -C /repo diff --quiet || { echo "repo dirty"; exit 2; }
git -C /repo apply /verif/seeded/$N/patch.diff || exit 2
for p in $P; do
  out=$(./check $p --tier ${TIER:-quick} 2>&1); rc=$?
  echo "$N $p rc=$rc $(echo "$out" | grep -c '^VIOLATION') violation(s) :: $(echo "$out" | grep 'violation:' | head -2 | cut -c1-220 | tr '\n' ' ')"
done
git -C /repo checkout -- .
