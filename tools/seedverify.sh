#!/bin/bash
# tools/seedverify.sh <srcdir with patch.diff + demo> <name>
# Confirms in a scratch worktree of /repo (removed afterwards) that a seeded change compiles, passes the existing
# test suite, and that its demonstration fails with the change and passes without it.
set -u
SRC=$1; NAME=$2
export GOFLAGS=-mod=mod GOPROXY=off GOSUMDB=off GOTOOLCHAIN=local
WT=/tmp/sv-$NAME
git -C /repo worktree remove --force $WT 2>/dev/null; rm -rf $WT
git -C /repo worktree add -q --detach $WT HEAD || exit 2
cleanup() { git -C /repo worktree remove --force $WT 2>/dev/null; rm -rf $WT; }
trap cleanup EXIT
cd $WT
rundemo() {
  if [ -f $SRC/demo.sh ]; then
    go build -o $WT/zz_goalign_bin . >/tmp/sv-$NAME.bb 2>&1 || return 99
    bash $SRC/demo.sh $WT/zz_goalign_bin >/tmp/sv-$NAME.out 2>&1; rc=$?; rm -f $WT/zz_goalign_bin; return $rc
  elif [ -f $SRC/demo/main.go ]; then
    mkdir -p $WT/zz_demo && cp $SRC/demo/*.go $WT/zz_demo/ && go run ./zz_demo >/tmp/sv-$NAME.out 2>&1; rc=$?; rm -rf $WT/zz_demo; return $rc
  else
    pkg=$(grep -m1 '^package ' $SRC/demo_test.go | awk '{print $2}')
    case $pkg in
      align|align_test) d=align;; partition) d=io/partition;; dna) d=$(grep -q 'distance' $SRC/README.md && echo distance/dna || echo models/dna);;
      *) d=$(grep -rl "^package $pkg\$" --include=*.go . | head -1 | xargs dirname);;
    esac
    # the README says where the test file goes ("copy ... into `io/phylip/`")
    hint=$(grep -o 'into `[A-Za-z0-9_/.]*`' $SRC/README.md 2>/dev/null | head -1 | sed 's/into `//; s/`//; s#/$##; s#^\./##')
    [ -n "$hint" ] && [ -d "$WT/$hint" ] && d=$hint
    [ -n "${DEMO_DIR:-}" ] && d=$DEMO_DIR
    cp $SRC/demo_test.go $WT/$d/zz_demo_test.go
    tests=$(grep -o '^func Test[A-Za-z0-9_]*' $SRC/demo_test.go | sed 's/func //' | paste -sd'|')
    go test -vet=off -count=1 -run "^($tests)\$" ./$d/ >/tmp/sv-$NAME.out 2>&1; rc=$?; rm -f $WT/$d/zz_demo_test.go; return $rc
  fi
}
rundemo; clean_rc=$?
if ! git apply $SRC/patch.diff 2>/dev/null; then
  patch -p1 --fuzz=3 -s < $SRC/patch.diff || { echo "$NAME: PATCH-DOES-NOT-APPLY"; exit 3; }
  git diff > /tmp/sv-$NAME.rebased.diff
fi
go build ./... >/tmp/sv-$NAME.build 2>&1; b=$?
go test -vet=off -count=1 ./... >/tmp/sv-$NAME.test 2>&1; t=$?
rundemo; mut_rc=$?
echo "$NAME: demo_clean=$clean_rc build=$b suite=$t demo_mutated=$mut_rc"
[ $clean_rc = 0 ] && [ $b = 0 ] && [ $t = 0 ] && [ $mut_rc != 0 ]
