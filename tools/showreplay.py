#!/usr/bin/env python3
import json,sys
def s(l): return ''.join(chr(x) for x in l)
def fmt(v):
    if isinstance(v,list) and v and all(isinstance(x,int) for x in v): return repr(s(v))
    if isinstance(v,list): return '['+','.join(fmt(x) for x in v)+']'
    if isinstance(v,dict): return '{'+','.join('%s:%s'%(k,fmt(x)) for k,x in v.items())+'}'
    return json.dumps(v)
for p in sys.argv[1:]:
    d=json.load(open(p))
    print(p, d['finding']['op'], d['finding']['failing'], d['finding'].get('msg'))
    for st in d['replay']['script']['steps']:
        print('   ',st['op'],st['recv'],fmt(st['a']))
