#!/bin/bash
# tools/seedall.sh [names...] : runs every seeded change (or the named ones) against a SNAPSHOT of /verif taken now,
# PAR at a time (default 4); one line per change on stdout.  Edits made to /verif while it runs do not reach it.
SNAP=/tmp/verif-snap-$$
rm -rf $SNAP; mkdir -p $SNAP
rsync -a --exclude .work --exclude replays --exclude .git --exclude seeded /verif/ $SNAP/
trap "rm -rf $SNAP" EXIT
names=${@:-$(ls /verif/seeded | grep -v '^B-')}
echo $names | tr ' ' '\n' | VERIF_HOME=$SNAP xargs -P ${PAR:-4} -I{} /verif/tools/seedrun.sh {}
