#!/usr/bin/env python3
"""Writes /verif/MANIFEST.json from the table below (one source of truth for the registered checks)."""
import json, os, subprocess
V = os.path.dirname(os.path.dirname(os.path.abspath(__file__)))
TECH = "TLA+ heap-machine spec; TLC-generated histories replayed into the Go objects; recorded traces validated by TLC (Trace_Heap)"
CHECKS = {
 "C06": dict(ref="5/C06", text="TLC checks the transform lemmas (involution, idempotence, ungapped content) exhaustively on the specification for all "
             "sequences up to a length over the 33-symbol DNA domain; TLC then generates every operation instance / sampled histories which are "
             "replayed on the real objects, and every logged event (plus seeded random workloads on larger alignments) is validated against the "
             "heap machine by TLC. The complement is derived in TLA+ from IUPAC base sets, not copied from the code.",
             note="Bounded: exhaustive for the listed small scopes, sampled beyond. Trusted: TLC, CommunityModules, the Go projection (public API reads only)."),
}
HEAPNOTE = "Bounded: exhaustive for the listed small scopes, sampled beyond. Trusted: TLC, CommunityModules, the Go projection (public API reads only)."
CHECKS["C01"] = dict(ref="5/C01", text="The container is specified as a heap machine over ONE list of (name, residues) rows; TLC enumerates every "
    "operation instance (all three duplicate-name policies, boundary arguments) from a set of seed heaps and samples longer histories, which are "
    "replayed on the real objects; after every call the object is read back through iteration, by index and by name (rotating accessor families) and "
    "TLC validates state, error class, cached length, rectangularity and view agreement against the specification, re-synchronising after a mismatch. "
    "The same machine without history is explored as a state graph (MC_Heap: every heap reachable in 2 / 3 operations) for rectangularity, name "
    "distinctness unless the caller merges names, rejection without change and the read-only operations.",
    note=HEAPNOTE)
CHECKS["C04"] = dict(ref="5/C04", text="Site extraction / coordinate operations are TLA+ functions with explicit error conditions; TLC enumerates every "
    "integer argument in -1..L+1, every small site list, every reference row and a family of AddRange partitions (modulo, blocks, invalid) on seed "
    "alignments with leading/internal/trailing gaps, the histories are replayed on the real code and validated by TLC; larger random alignments are "
    "driven from Go and validated the same way. Re-assembly identities are checked on the specification by TLC (MC_Sites).",
    note=HEAPNOTE)

CHECKS["C05"] = dict(ref="5/C05", text="The genetic codes are TLA+ constants taken from the NCBI strings; TLC computes the translation of every codon over "
    "the residue domain (A C G T U, 11 ambiguity codes, X O, both cases, - ? . *) for the three codes (packed into one sequence per first symbol), of "
    "every sequence of length 0..6 over {A,T,G,-} in every frame (incl. the error cases), every gap placement of a reference row for reference-guided "
    "translation and of a protein alignment for codon threading; the histories are replayed on the real code and every event is validated by TLC. "
    "TranslateByReference and CodonAlign are relations stating exactly the property's clauses.", note=HEAPNOTE)
CHECKS["C10"] = dict(ref="5/C10", text="Every randomised operation is a TLA+ relation Allowed(pre, post) (row permutation, per-column multisets, bootstrap columns, "
    "windows, ...); TLC enumerates all border arguments, the real code resolves the randomness, and TLC validates every logged outcome, accumulates the "
    "elementary outcomes seen per (operation, arguments, instance) over >= 260 seeds and requires all of them (support), and requires equal seeds to give "
    "equal outcomes (replay).", note=HEAPNOTE + " Support is statistical: a missing outcome on correct code has probability < 1e-30.")
CHECKS["C12"] = dict(ref="5/C12", text="Cleaning is specified with exact rational cutoffs; TLC enumerates all 2^5 option combinations x cutoffs {0,1/4,1/3,1/2,2/3,3/4,1} x "
    "character sets on alignments that contain EVERY column (resp. row) of height 2-3 over {A,a,N,n,X,-} side by side in both orders, nucleotide and "
    "protein, plus ends-mode shapes; histories are replayed on the real code and validated by TLC (kept/removed partition, first/last, resulting rows).",
    note=HEAPNOTE + " Exact ties with non-dyadic cutoffs are not judged (binary floating point).")
CHECKS["C13"] = dict(ref="5/C13", text="Deduplicate is a TLA+ function (first occurrences, groups), Compress a relation (distinct patterns, positive weights, exact "
    "multiplicities); TLC enumerates all small alignments / sequence sets over {A,N,-} (and X for proteins, prefixes of one another for sets) and depth-2 "
    "histories (idempotence), replayed on the real code and validated by TLC.", note=HEAPNOTE)
CHECKS["C14"] = dict(ref="5/C14", text="Every statistic is defined naively in TLA+ (entropy and PSSM in IEEE doubles through the F64 module); TLC enumerates alignments that "
    "contain every column of height 2-4 over {A,C,a,N,-,.} (all tie patterns), every reference gap pattern for the mutation lists, all site indices "
    "-1..L; the real code is run, every query is repeated, and TLC validates value, error class and determinism of every event.", note=HEAPNOTE)
CHECKS["C15"] = dict(ref="5/C15", text="Masking is a TLA+ relation over (pre, post) (window, protection flags, replacement modes with MAJ ties left open, rare-residue rule); "
    "TLC enumerates windows start -1..L+1 x lengths x 6 replacement arguments x 2^2 flags x reference choices x thresholds on an alignment containing "
    "every column of height 3 over {A,C,-,N} and on all small alignments; replayed on the real code and validated by TLC.", note=HEAPNOTE)
CHECKS["C19"] = dict(ref="5/C19", text="Every trace event carries the projection of ALL live objects; the heap machine's frame condition (objects other than the receiver, and the "
    "receiver of read-only / copy-producing operations, are unchanged) is evaluated by TLC on every event. TLC enumerates histories 'copy or query X, then "
    "mutate any live object' for X in clone, sub-alignment (all windows incl. (0,L)), site selection, transpose, split, unalign, every writer, statistics, "
    "distances, pairwise alignment (incl. the failing ATG path), ORF search; a change of an unrelated object is attributed to the copy-producing operation that links them.",
    note=HEAPNOTE + " Operations the property does not list as copy-producing (Sample, Append, Rarefy) are specified as the code behaves (they share rows).")

CHECKS["C09"] = dict(ref="5/C09", text="SW.tla defines the score of a gapped row pair, Gotoh's optimum (folds) and a brute-force enumeration of every local alignment; "
    "TLC checks Gotoh = brute force exhaustively on small pairs (MC_SW) and the substitution tables' symmetry/diagonals, generates every pair of sequences up to "
    "length 3 (thorough: 4) over {A,C,G} under six schemes (match/mismatch and EDNAFULL), the real aligner is run on them and on seeded related pairs (indels, "
    "flanks, EDNAFULL / EBLOSUM62, random admissible schemes), and TLC validates structure, counts, score = Score(rows) = optimum, inputs unchanged for every event.",
    note="Bounded: exhaustive for the listed small scopes, sampled beyond. Scores are exact integers (2 x value). Trusted: TLC, CommunityModules.",
    tech="TLA+ specification of local alignment (Gotoh + brute force, SW.tla); TLC-generated pairs replayed into the Go aligner; recorded events validated by TLC (Trace_SW)")

CHECKS["C02"] = dict(ref="5/C02", text="Formats.tla states when an alignment is representable in a format (names vs. the lexer's delimiters, keywords and numbers; translated "
    "characters) and what the byte channel must deliver (same names, order, residues, length, alphabet detected from the content, sniffed format). TLC generates "
    "alignments whose length straddles every line/block width (10, 50, 60, 80, 120 and neighbours), rows that spell lexer keywords, Phylip streams of 1-4 "
    "alignments and every chain of formats x writer options x transport (memory, plain, .gz, .xz file) x explicit/auto-detected parser; the real writers and "
    "parsers are run hop by hop (plus seeded random alignments and chains) and TLC validates every hop.",
    note="Bounded: exhaustive over the listed shapes/option cubes, sampled beyond. Writer byte layout is not pinned (only what is parsed back). Trusted: TLC, CommunityModules.",
    tech="TLA+ specification of the byte channel (Formats.tla); TLC-generated chains replayed through the Go writers/parsers; recorded hops validated by TLC (Trace_Formats)")
CHECKS["C03"] = dict(ref="5/C03", text="ParseOutcome.tla is the relation between an arbitrary input and an allowed parser answer: explicit error / exit with a message, end of "
    "stream only on a blank Phylip input, or a well-formed result (non-empty, rectangular, distinct names, consistent with the counts the input declares - the "
    "specification reads the Phylip header and the Nexus NTAX/NCHAR values from the bytes itself), a partition map over the declared length; never a panic or a "
    "hang. The driver feeds every parser (all options) all truncations, line deletions/duplications, byte substitutions/insertions/deletions and token splices of "
    "valid files (thorough: exhaustively over an 18-byte set), detects looping at end of input by counting reads after EOF, survives process exits, and TLC "
    "validates every outcome.", note="The corpus is finite (mutations of ~30 valid files); 'all byte strings' is not proved. Trusted: TLC, CommunityModules.",
    tech="TLA+ outcome relation (ParseOutcome.tla); mutational corpus run on the Go parsers with a post-EOF read counter; recorded outcomes validated by TLC (Trace_Parse)")

CHECKS["C07"] = dict(ref="5/C07", text="DnaDist.tla has a counting layer in exact integers (comparable sites per gap mode, disjoint-set differences, transitions / transversions, "
    "ambiguity shares in twelfths, quarter-unit weights, rm-gaps site selection) and an estimator layer evaluated by TLC in IEEE doubles through the F64 module: "
    "raw, p, JC69, K2P, F81, F84 (PHYLIP a/b/c form), TN93 and their gamma variants written from the literature, plus the matrix layer (symmetry, diagonal, ranges, "
    "class of an undefined estimate: NaN or twice the largest defined entry; zero for pairs without counted difference; corrected >= observed proportion). TLC "
    "generates all row pairs of length 2-3 over {A,C,G,T,R,-} x 7 models x gamma, an option cube on gapped / ambiguous alignments and saturation ladders; the real "
    "DistMatrix is run on them and on seeded alignments (model objects reused across calls) and TLC recomputes and compares every entry (relative 1e-9).",
    note="Real-valued laws hold to 1e-9 relative on the explored inputs, not for all reals. Trusted: TLC, CommunityModules, java.lang.Math (log, pow) and the 100-line F64 glue class.",
    tech="TLA+ specification of the estimators (DnaDist.tla, IEEE doubles via a TLC module override); TLC-generated alignments replayed into Go; recorded matrices validated by TLC (Trace_Dist)")
CHECKS["C08"] = dict(ref="5/C08", text="Functional half: pairs of real DistMatrix calls on transformed alignments (column permutation, k-fold replication vs integer weight k vs raw "
    "scaling, explicit unit weights, reverse complement, row permutation, 1..32 threads) are validated by TLC (each call against the estimator specification, each pair "
    "against its relation; bit-identity across thread counts). Concurrency half: DistMatrixConc.tla specifies the producer / worker-pool / WaitGroup protocol at the grain of "
    "the observation hooks; TLC checks Termination, ErrorReturned, MutexOK, NoRace (error slots, cells), Determinate exhaustively for every failure position and kind, "
    "1-3 workers, capacities 1-2 (and rejects the pinned protocol as a sanity check); caller-supplied models failing at the k-th evaluation or row request are run on the "
    "real code (must return, with the error); per-goroutine hook logs of free-running executions are validated by TLC as behaviours of the protocol (interleaving search, "
    "all invariants evaluated on the way); the same workloads run under the Go race detector with GOMAXPROCS varied.",
    note="Interleavings are exhaustive in the model for small constants and observed (not enumerated) in the code; data races are decided by the race detector on the executions that occur.",
    tech="TLA+ protocol specification (DistMatrixConc.tla) model-checked by TLC; hook logs of the real goroutines validated against it (Trace_Conc); relations between calls validated by TLC (Trace_Dist); Go race detector as observation")

CHECKS["C18"] = dict(ref="5/C18", text="Markov.tla writes the textbook rate matrices of JC, K2P, F81, F84, TN93, GTR and (from the exported exchangeabilities) the seven protein models, "
    "scaled to one substitution per unit time, and a scaling-and-squaring Taylor matrix exponential, all in IEEE doubles inside TLC (F64 module). TLC enumerates the "
    "parameter grid (kappa, kappa1/kappa2, GTR rates, simplex points, model/user protein frequencies); the real models are (re-)initialised on the same objects and "
    "P(t) is read for t in {0, 1e-8, 1e-3, 0.1, 0.25, 0.35, 1, 10, 11, 100}; TLC checks on the observed matrices: stochastic, P(0)=I, P(s+t)=P(s)P(t), detailed "
    "balance, convergence, P(t)=Expm(Qt), analytical = eigen-based.", note="Tolerances 1e-9 (4 states), 1e-6 (20 states), 1e-5 (convergence at t=100); finite parameter grid. "
    "Trusted: TLC, java.lang.Math, the F64 glue class; protein exchangeabilities are read from the code's exported tables.",
    tech="TLA+ specification of the rate matrices and of the matrix exponential (Markov.tla, IEEE doubles via a TLC module override); TLC-generated parameter grid replayed into Go; observed P(t) validated by TLC (Trace_Markov)")

CHECKS["C20"] = dict(ref="5/C20", text="Weights.tla states the relations: one strictly positive finite weight per site summing to the length; Dirichlet samples summing to the requested "
    "total and errors exactly for invalid parameter vectors; rate categories non-negative, non-decreasing, mean 1; incomplete gamma ratio in [0,1], monotone in x and equal "
    "(1e-7) to its series definition, which TLC evaluates term by term in IEEE doubles. The driver draws weight vectors for lengths that go up and down (3..200) and many "
    "seeds, Dirichlet parameter vectors over shapes {0.01..100} incl. invalid ones, categories 2..32 x shapes, and x grids straddling the series/continued-fraction switch "
    "up to 1e5*alpha; TLC validates every event.", note="Sampled seeds and grids; distributional correctness of the samplers is not claimed. Trusted: TLC, java.lang.Math, F64 glue.",
    tech="TLA+ relations and series definition (Weights.tla, IEEE doubles via a TLC module override); recorded samples and function values validated by TLC (Trace_Weights)")

CHECKS["C17"] = dict(ref="5/C17", text="ProtDist.tla counts the pair frequency table in exact integers (selected sites, quarter-unit weights, gap/X/* positions masked) and evaluates in IEEE "
    "doubles inside TLC the likelihood lnL(d) = sum F_ij ln(pi_i P_ij(d)) with P(d) assembled from the eigen-system and frequencies the model under test really uses "
    "(observed read-only through reflection), plain or with gamma-distributed rates. For every pair reported below 20, TLC requires lnL(d*) >= lnL(d') - tol for "
    "d' = d*(1 +- 1e-3), d*(1 +- 1e-2) and a 24-point log grid on [1e-8, 20]; plus symmetry, zero diagonal, range, zero without unambiguous difference, and the row / column "
    "reordering relations on pairs of real calls (7 models x model/empirical frequencies x gamma x rm-gaps x weights, fragments and masked rows).",
    note="The maximiser is compared with 28 other distances, not with all reals; the eigen-system is observed, its relation to the textbook rate matrix is C18's subject. Trusted: TLC, java.lang.Math, F64 glue.",
    tech="TLA+ specification of the pair likelihood (ProtDist.tla, IEEE doubles via a TLC module override); recorded matrices and eigen-systems validated by TLC (Trace_ProtDist)")

CHECKS["C16"] = dict(ref="5/C16", text="Functional half: Phase.tla states, per result, exactly the property's relations (trimmed nucleotides = substring of the read or of its reverse complement at "
    "the reported position, codon sequence = suffix at offset 0..2 (0 when translating), amino acids = translation of the codon sequence, a read holding a reference verbatim "
    "once is cut there in frame 0, one result per read unless an error is reported, inputs unchanged, longest ORF = an ATG..first-in-frame-stop ORF of some read / strand and "
    "none longer - all ORFs enumerated by the specification in the three frames); reads are mutated ORF copies in random flanks, fragments followed by the whole ORF on either "
    "strand, 1-2 references or none, translate / reverse / cut-end, three codes, 1..32 workers; TLC validates every event and the equality of the result sets for different "
    "worker counts. Concurrency half: PhaseConc.tla (feeder, workers, shared failure flag, closer, consumer) model-checked for StreamClosed, FeederFinishes, OneResultEach, "
    "NoDuplicate, NoSendAfterClose, ErrorSeen with failing reads anywhere; per-goroutine hook logs of free-running runs (incl. reads whose alignment fails) validated by TLC "
    "as behaviours of the protocol; the same workloads run under the Go race detector.",
    note="Interleavings are exhaustive in the model for small constants and observed in the code; races are decided by the race detector on the executions that occur.",
    tech="TLA+ relations (Phase.tla) and protocol specification (PhaseConc.tla) model-checked by TLC; recorded results validated by TLC (Trace_Phase); hook logs of the real goroutines validated against the protocol (Trace_PhaseConc); Go race detector as observation")

CHECKS["C11"] = dict(ref="5/C11", text="RunHistory.tla is the history machine of command-line runs: the key of a run is (command, flags, seed when the command draws random numbers, input); "
    "threads, repetition and GOMAXPROCS are not in the key; documented equivalences (build seqboot + compute distance per replicate = build distboot, for six model / "
    "rm-gaps settings; reformat cycles through phylip / nexus / clustal = the first fasta file) share a key; a run whose key is known must reproduce the recorded "
    "output. TLC generates the descriptors (53 representative command lines of the documented commands x seeds x thread counts 1..32 x repetitions), the binary built "
    "from /repo executes them in fresh directories (GOMAXPROCS varied), and TLC validates the history (digests of stdout and of every file written).",
    note="Byte equality is observed on the executed runs (SHA-1 of all output), not derived; finite command table. Trusted: TLC, the shell-less runner in lib/cli.py.",
    tech="TLA+ run-history specification (RunHistory.tla); TLC-generated run descriptors executed with the freshly built CLI; recorded history validated by TLC (Trace_Runs)")
NA = []
def main():
    props = [json.loads(l)["id"] for l in open(os.path.join(V, "properties.jsonl"))]
    checks = []
    for p in props:
        if p not in CHECKS: continue
        c = CHECKS[p]
        checks.append({
            "property_id": p,
            "quick_cmd": "./check %s --tier quick" % p,
            "thorough_cmd": "./check %s --tier thorough" % p,
            "evidence_file": "/verif/evidence/%s.json" % p,
            "replay_cmd_template": "./check %s --replay {path}" % p,
            "engine": "tla",
            "level_claimed": {"category": c.get("cat", "model_checking"), "text": c["text"], "design_ref": c["ref"]},
            "level_note": c["note"],
            "technique": c.get("tech", TECH),
        })
    claimed = {c["property_id"] for c in checks}
    na = [x for x in NA if x["property_id"] not in claimed]
    for p in props:
        if p not in claimed and p not in {x["property_id"] for x in na}:
            na.append({"property_id": p, "reason": "check not built yet in this round (planned with the same TLA+ technique, see DESIGN.md section 5)"})
    hooks_commits = []
    try:
        out = subprocess.run(["git", "-C", "/repo", "log", "--format=%H %s"], capture_output=True, text=True).stdout
        hooks_commits = [l.split()[0] for l in out.splitlines() if l.split(" ", 1)[1].startswith("verif:")]
    except Exception:
        pass
    m = {
        "version": 1,
        "setup_cmd": "javac -cp /opt/veriftools/tla/tla2tools.jar -d spec spec/F64.java && cp /repo/go.sum harness/go.sum && "
                     "(cd harness && GOFLAGS=-mod=mod GOPROXY=off GOSUMDB=off GOTOOLCHAIN=local go build -tags verif -o /dev/null .)",
        "hooks": {"guard": "verif", "enable": "go build -tags verif (the harness module replaces github.com/evolbioinfo/goalign by /repo)",
                  "baseline_off_cmd": "cd /repo && go build ./... && go test -vet=off -count=1 ./...",
                  "source_commits": hooks_commits, "add_only": True},
        "engines": [{"name": "tla", "path": "/verif/spec", "serves_properties": sorted(claimed),
                     "kind_free_text": "explicit TLA+ specification checked with TLC; conformance by TLC-generated histories replayed into the Go code and by validation of recorded traces"}],
        "checks": checks,
        "not_applicable": na,
        "notes": "See DESIGN.md. ./check <id> rebuilds the Go harness from /repo's working tree on every run.",
    }
    json.dump(m, open(os.path.join(V, "MANIFEST.json"), "w"), indent=1)
main()
