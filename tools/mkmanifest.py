#!/usr/bin/env python3
"""Writes /verif/MANIFEST.json from the table below (one source of truth for the registered checks)."""
import json, os, subprocess
V = os.path.dirname(os.path.dirname(os.path.abspath(__file__)))
TECH = "TLA+ heap-machine spec; TLC-generated histories replayed into the Go objects; recorded traces validated by TLC (Trace_Heap)"
CHECKS = {
 "C06": dict(ref="5/C06", text="TLC checks the transform lemmas (involution, idempotence, ungapped content) exhaustively on the specification for all "
             "sequences up to a length over the 33-symbol DNA domain; TLC then generates every operation instance / sampled histories which are "
             "replayed on the real objects, and every logged event (plus seeded random workloads on larger alignments) is validated against the "
             "heap machine by TLC. The complement is derived in TLA+ from IUPAC base sets, not copied from the code.",
             note="Bounded: exhaustive for the listed small scopes, sampled beyond. Trusted: TLC, CommunityModules, the Go projection (public API reads only)."),
}
HEAPNOTE = "Bounded: exhaustive for the listed small scopes, sampled beyond. Trusted: TLC, CommunityModules, the Go projection (public API reads only)."
CHECKS["C01"] = dict(ref="5/C01", text="The container is specified as a heap machine over ONE list of (name, residues) rows; TLC enumerates every "
    "operation instance (all three duplicate-name policies, boundary arguments) from a set of seed heaps and samples longer histories, which are "
    "replayed on the real objects; after every call the object is read back through iteration, by index and by name (rotating accessor families) and "
    "TLC validates state, error class, cached length, rectangularity and view agreement against the specification, re-synchronising after a mismatch.",
    note=HEAPNOTE)
CHECKS["C04"] = dict(ref="5/C04", text="Site extraction / coordinate operations are TLA+ functions with explicit error conditions; TLC enumerates every "
    "integer argument in -1..L+1, every small site list, every reference row and a family of AddRange partitions (modulo, blocks, invalid) on seed "
    "alignments with leading/internal/trailing gaps, the histories are replayed on the real code and validated by TLC; larger random alignments are "
    "driven from Go and validated the same way. Re-assembly identities are checked on the specification by TLC (MC_Sites).",
    note=HEAPNOTE)
NA = []
def main():
    props = [json.loads(l)["id"] for l in open(os.path.join(V, "properties.jsonl"))]
    checks = []
    for p in props:
        if p not in CHECKS: continue
        c = CHECKS[p]
        checks.append({
            "property_id": p,
            "quick_cmd": "./check %s --tier quick" % p,
            "thorough_cmd": "./check %s --tier thorough" % p,
            "evidence_file": "/verif/evidence/%s.json" % p,
            "replay_cmd_template": "./check %s --replay {path}" % p,
            "engine": "tla",
            "level_claimed": {"category": c.get("cat", "model_checking"), "text": c["text"], "design_ref": c["ref"]},
            "level_note": c["note"],
            "technique": c.get("tech", TECH),
        })
    claimed = {c["property_id"] for c in checks}
    na = [x for x in NA if x["property_id"] not in claimed]
    for p in props:
        if p not in claimed and p not in {x["property_id"] for x in na}:
            na.append({"property_id": p, "reason": "check not built yet in this round (planned with the same TLA+ technique, see DESIGN.md section 5)"})
    hooks_commits = []
    try:
        out = subprocess.run(["git", "-C", "/repo", "log", "--format=%H %s"], capture_output=True, text=True).stdout
        hooks_commits = [l.split()[0] for l in out.splitlines() if l.split(" ", 1)[1].startswith("verif:")]
    except Exception:
        pass
    m = {
        "version": 1,
        "setup_cmd": "javac -cp /opt/veriftools/tla/tla2tools.jar -d spec spec/F64.java && cp /repo/go.sum harness/go.sum && "
                     "(cd harness && GOFLAGS=-mod=mod GOPROXY=off GOSUMDB=off GOTOOLCHAIN=local go build -tags verif -o /dev/null .)",
        "hooks": {"guard": "verif", "enable": "go build -tags verif (the harness module replaces github.com/evolbioinfo/goalign by /repo)",
                  "baseline_off_cmd": "cd /repo && go build ./... && go test -vet=off -count=1 ./...",
                  "source_commits": hooks_commits, "add_only": True},
        "engines": [{"name": "tla", "path": "/verif/spec", "serves_properties": sorted(claimed),
                     "kind_free_text": "explicit TLA+ specification checked with TLC; conformance by TLC-generated histories replayed into the Go code and by validation of recorded traces"}],
        "checks": checks,
        "not_applicable": na,
        "notes": "See DESIGN.md. ./check <id> rebuilds the Go harness from /repo's working tree on every run.",
    }
    json.dump(m, open(os.path.join(V, "MANIFEST.json"), "w"), indent=1)
main()
