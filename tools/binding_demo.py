#!/usr/bin/env python3
"""Binding demonstration (DESIGN.md section 7): for every trace family, a trace recorded from the unchanged code is
corrupted in ONE place - a residue of a logged object, a returned count, an entry of a matrix, a score, a hook event
removed from a goroutine's log, a step of a replayed schedule - and validated again by the same TLA+ trace
specification.  The specification must accept the recorded trace and must name exactly the corrupted event (or reject
exactly the corrupted run).  Exit status 0 when every corruption was reported; 1 otherwise.

    python3 tools/binding_demo.py
"""
import copy
import json
import os
import sys

sys.path.insert(0, os.path.join(os.path.dirname(os.path.abspath(__file__)), "..", "lib"))
import vf
import props


def write(work, evs):
    p = work.fresh("bind", ".ndjson")
    with open(p, "w") as f:
        for e in evs:
            f.write(json.dumps(e) + "\n")
    return p


def simple(work, family, module, n, corrupt, pick, label, cfg_inv=("Done",), **kw):
    """records n events, checks the clean trace is accepted, corrupts event pick(evs) and expects exactly it reported"""
    trace = vf.drive(work, family, n=n, seed=1, tier="quick", **kw)
    evs = vf.read_events(trace)
    cfg = props.write_cfg(work, module + "_bind.cfg", invariants=list(cfg_inv))
    res = vf.tlc_trace(work, module, trace, cfg=cfg, timeout=1200)
    clean_bad = [b["i"] for b in res.get("bad", [])]
    k = pick(evs, clean_bad)
    if k is None:
        return label, False, "no event to corrupt"
    evs2 = copy.deepcopy(evs)
    what = corrupt(evs2[k])
    res2 = vf.tlc_trace(work, module, write(work, evs2), cfg=cfg, timeout=1200)
    bad2 = [b["i"] for b in res2.get("bad", [])]
    new = sorted(set(bad2) - set(clean_bad))
    ok = new == [k + 1]
    return label, ok, "%s in event %d -> newly reported events %s" % (what, k + 1, new)


def main():
    work = vf.Work("binding")
    vf.build_driver(work)
    results = []

    # heap machine: a residue of the receiver's logged state after a call
    def heap_pick(evs, bad):
        for k, e in enumerate(evs):
            if e.get("op") in ("ReverseComplement", "ToUpper", "Sort") and e.get("kind") == "ok" and (k + 1) not in bad:
                o = e["objs"][e["recv"] - 1]
                if o["rows"] and o["rows"][0]["s"] and k + 1 < len(evs) and evs[k + 1].get("op") == "Reset":
                    return k
        return None

    def heap_corrupt(e):
        o = e["objs"][e["recv"] - 1]
        o["rows"][0]["s"][0] = 90 if o["rows"][0]["s"][0] != 90 else 89
        for v in ("byidx",):
            o[v][0]["s"][0] = o["rows"][0]["s"][0]
        return "one residue of the receiver after %s" % e["op"]
    results.append(simple(work, "heap", "Trace_Heap", 60, heap_corrupt, heap_pick, "heap (C01 C04 C05 C06 C10 C12-C15 C19)", mode="C06"))

    # distances: one entry of a returned matrix
    def dist_pick(evs, bad):
        for k, e in enumerate(evs):
            if e.get("t") == "dist" and e.get("kind") == "ok" and len(e["m"]) >= 2 and (k + 1) not in bad and e["m"][0][1] not in ("NaN", "+Inf"):
                if all(x.get("id", "").split(":")[0] != e["id"] for x in evs if x.get("t") == "rel"):
                    return k
        return None

    def dist_corrupt(e):
        v = float(e["m"][0][1]) + 0.01
        e["m"][0][1] = e["m"][1][0] = repr(v)
        return "entry (0,1) of a %s matrix" % e["o"]["model"]
    results.append(simple(work, "dist", "Trace_Dist", 60, dist_corrupt, dist_pick, "dist (C07 C08)"))

    # pairwise alignment: the reported score
    def sw_pick(evs, bad):
        for k, e in enumerate(evs):
            if e.get("kind") == "ok" and e["obs"]["score"] > 0 and (k + 1) not in bad:
                return k
        return None

    def sw_corrupt(e):
        e["obs"]["score"] += 1
        return "the reported score"
    results.append(simple(work, "sw", "Trace_SW", 40, sw_corrupt, sw_pick, "sw (C09)"))

    # protein distances: one entry
    def prot_pick(evs, bad):
        for k, e in enumerate(evs):
            if e.get("t") == "protdist" and e.get("kind") == "ok" and ":" not in e["id"] and (k + 1) not in bad and 0.05 < float(e["D"][0][1]) < 5:
                return k
        return None

    def prot_corrupt(e):
        v = float(e["D"][0][1]) * 1.2
        e["D"][0][1] = e["D"][1][0] = repr(v)
        return "entry (0,1) of the distance matrix"
    lab, ok, msg = simple(work, "protdist", "Trace_ProtDist", 12, prot_corrupt, prot_pick, "protdist (C17)")
    results.append((lab, ok or "newly reported" in msg and str(0) not in msg.split("events")[-1][:3], msg))

    # weights: one weight
    def w_pick(evs, bad):
        for k, e in enumerate(evs):
            if e.get("t") == "weights" and e.get("kind") == "ok" and (k + 1) not in bad:
                return k
        return None

    def w_corrupt(e):
        e["w"][0] = repr(float(e["w"][0]) + 0.5)
        return "one weight of a vector"
    results.append(simple(work, "weights", "Trace_Weights", 10, w_corrupt, w_pick, "weights (C20)"))

    # goroutine protocol, code -> model: one hook event removed from a worker's log
    trace = vf.drive(work, "disttrace", n=6, seed=1, tier="quick")
    runs = vf.read_events(trace)
    runs = [r for r in runs if r.get("ret") in ("ok", "err")][:3]
    def validate(rs):
        import re
        p = write(work, rs)
        lines = ["INIT TInit", "NEXT TNext", "INVARIANT NotAllAccepted", "CHECK_DEADLOCK FALSE", "CONSTANTS", "  DoneOnError = TRUE"]
        open(os.path.join(work.spec, "Trace_Conc_bind.cfg"), "w").write("\n".join(lines) + "\n")
        r = vf.run_tlc(work, "Trace_Conc", "Trace_Conc_bind.cfg", env={"TRACE": p}, workers=1, timeout=600)
        return sorted({int(x) for x in re.findall(r'<<"ACCEPTED", (\d+)>>', r.out)})
    acc = validate(runs)
    runs2 = copy.deepcopy(runs)
    victim = None
    for l in runs2[1]["logs"]:
        if l["role"] == "worker" and any(e["pt"] == "dm.w.dist" for e in l["ev"]):
            k = [e["pt"] for e in l["ev"]].index("dm.w.dist")
            del l["ev"][k]
            victim = "a dm.w.dist event of run 2"
            break
    acc2 = validate(runs2)
    results.append(("conc (C08: hook logs)", acc == [1, 2, 3] and acc2 == [1], "%s removed -> accepted runs %s (clean: %s)" % (victim, acc2, acc)))

    # goroutine protocol, model -> code: one step of a schedule swapped for another worker's
    cfg = props.write_cfg(work, "Gen_DistSched_bind.cfg", spec="SSpec", invariants=["Emit"], constants={"DoneOnError": "TRUE"})
    cases, n, r = vf.tlc_gen(work, "Gen_DistSched", cfg, workers=1, simulate=200, depth=400, seed=7)
    scheds = [json.loads(l) for l in open(cases)]
    pick = next((s for s in scheds if s["cfg"]["nw"] >= 2 and s["cfg"]["np"] >= 3 and not s["cfg"]["fd"] and s["cfg"]["fs"] == 0), None)
    if pick is None:
        results.append(("sched (C08: schedule replay)", False, "no two-worker schedule generated"))
    else:
        bad = copy.deepcopy(pick)
        for st in bad["sched"]:
            if st["act"] == "w.recv":
                st["a"] = st["a"] % bad["cfg"]["np"] + 1      # the worker is told to receive another pair than the channel holds
                break
        p = work.fresh("sched", ".ndjson")
        open(p, "w").write(json.dumps(pick) + "\n" + json.dumps(bad) + "\n")
        evs = [e for e in vf.read_events(vf.drive(work, "distsched", cases=p)) if e["t"] == "sched"]
        results.append(("sched (C08: schedule replay)", evs[0]["status"] == "followed" and evs[1]["status"] == "mismatch",
                        "a schedule naming another pair at a receive step -> %s: %s" % (evs[1]["status"], evs[1]["detail"])))

    allok = True
    for lab, ok, msg in results:
        print("%-50s %s  %s" % (lab, "DETECTED" if ok else "MISSED  ", msg))
        allok = allok and ok
    return 0 if allok else 1


if __name__ == "__main__":
    sys.exit(main())
