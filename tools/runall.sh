#!/bin/bash
# tools/runall.sh [tier] : runs every registered check (4 at a time) and prints one line each
cd /verif
TIER=${1:-quick}
ids=$(python3 -c "import json;print(' '.join(c['property_id'] for c in json.load(open('MANIFEST.json'))['checks']))")
mkdir -p .work/logs
echo $ids | tr ' ' '\n' | xargs -P ${PAR:-4} -I{} sh -c "./check {} --tier $TIER > .work/logs/{}.log 2>&1; echo {} rc=\$? \$(tail -1 .work/logs/{}.log)"
