#!/usr/bin/env python3
"""Prints the Markdown table of the seeded changes of a round from seeded/*/meta.json (used for DESIGN.md section 10)."""
import glob, json, sys
rnd = int(sys.argv[1]) if len(sys.argv) > 1 else 3
print("| change | what it does | needs, to manifest | reported by |")
print("|---|---|---|---|")
for f in sorted(glob.glob("/verif/seeded/*/meta.json")):
    d = json.load(open(f))
    if d.get("round") != rnd:
        continue
    name = f.split("/")[-2]
    by = d["detected_by"].replace("|", "/")
    print("| %s | %s | %s | `./check %s`: %s |" % (name, d["change"].replace("|", "/"), d["needs_to_manifest"].replace("|", "/"), d["property"], by))
