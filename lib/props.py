"""Per-property pipelines (what TLC checks, what it generates, what the driver runs, how events are attributed)."""
import hashlib
import json
import os

import vf

# ---------------------------------------------------------------------------------------------------
# heap family: attribution of (operation, violated conjunct) to properties
# ---------------------------------------------------------------------------------------------------
OP_PROPS = {}


def _ops(prop, names):
    for n in names.split():
        OP_PROPS.setdefault(n, set()).add(prop)


_ops("C01", "New NewFromFasta Describe Add AddString IgnoreIdentical Append Concat Rename RenameRegexp CleanNames TrimNames TrimNamesAuto "
            "AppendSeqIdentifier Sort ShuffleSequences FilterLength Deduplicate Translate Clone CloneSeqBag Sample "
            "SampleSeqBag Clear SetSequenceChar ReplaceChar Replace AutoAlphabet SetAlphabet DetectAlphabet Identical "
            "RemoveGapSeqs RemoveCharacterSeqs RemoveGapSites RemoveCharacterSites RemoveMajorityCharacterSites")
_ops("C04", "SubAlign Extract SelectSites InverseCoordinates InversePositions TrimSequences RefCoordinates RefSites Concat "
            "Append Split Transpose DiffWithFirst ReplaceMatchChars")
_ops("C05", "Translate TranslateByReference CodonAlign")
_ops("C06", "ReverseComplement ReverseComplementSequences ToUpper ToLower Unalign")
_ops("C16", "LongestORFObj")
_ops("C12", "RemoveGapSites RemoveCharacterSites RemoveMajorityCharacterSites RemoveGapSeqs RemoveCharacterSeqs")
_ops("C13", "Deduplicate Compress")
_ops("C14", "MaxCharStats Consensus CharStats CharStatsSite CharStatsSeq UniqueCharacters Entropy EntropyAll NbVariableSites "
            "InformativeSites AvgAllelesPerSite Pssm CountDifferences NumGapsUnique NumMutationsUnique NumMutRef "
            "ListMutRef CountProfile ProfileOnly")
_ops("C15", "Mask MaskPositions MaskOccurences MaskUnique")
_ops("C10", "ShuffleSequences ShuffleSites Swap SimulateRogue BuildBootstrap Sample SampleSeqBag RandSubAlign Mutate "
            "AddGaps Recombine Rarefy")
_ops("C19", "Query")

READ_ONLY = set("Clone CloneSeqBag Unalign Sample SampleSeqBag SubAlign Extract SelectSites InverseCoordinates InversePositions "
                "RefCoordinates RefSites Split Transpose MaxCharStats Consensus CharStats CharStatsSite CharStatsSeq "
                "UniqueCharacters Entropy EntropyAll NbVariableSites InformativeSites AvgAllelesPerSite Pssm CountDifferences "
                "NumGapsUnique NumMutationsUnique NumMutRef ListMutRef CountProfile ProfileOnly SiteConservation AlphabetInfo BuildBootstrap RandSubAlign Rarefy "
                "DetectAlphabet Identical Describe Query LongestORFObj".split())


def attribute(op, conjunct):
    """Which properties does a violated conjunct of an event of `op` speak about?"""
    props = set(OP_PROPS.get(op, ()))
    if conjunct == "frame":
        return {"C19"}
    if conjunct == "othersViews":
        return {"C19", "C01"}
    if conjunct in ("views", "rect"):
        # the container's access paths disagree right after `op` (an object is reported once, at the step that broke it):
        # a matter of the container property, and of the property that says what `op` leaves behind
        return {"C01"} | (props - {"C19"})
    if conjunct in ("recvState", "allowed") and op in READ_ONLY:
        props.add("C19")
    if conjunct == "noPanic":
        props = props or {"C01"}
    return props


def abstract(objs):
    return [[o["k"], o["al"], o["len"], o["rows"]] for o in objs]


def heap_account(v, trace, res):
    """Counts the judged cases of a heap trace and turns the trace spec's `bad` list into findings."""
    evs = vf.read_events(trace)
    prev = []
    hist = []
    for idx, e in enumerate(evs):
        if e["op"] == "Reset":
            prev, hist = [], []
            e["_hist"] = hist
            continue
        if e["op"] == "Drop":           # the object read back from the command line is forgotten again
            prev = prev[:-1]
            e["_hist"] = list(hist)
            continue
        if e["op"] == "Cli":            # the command-line twin of the NEXT step of the history (harness/heap_cli.go)
            inner = e["a"]["op"]
            e["_hist"] = hist + [{"op": inner, "recv": e["recv"], "a": e["a"]["a"]}]
            if v.prop in OP_PROPS.get(inner, ()) or v.prop == "C11":
                v.count_case(vf.digest(["Cli", inner, e["a"]["a"], prev]))
                v.sample({"history": e["h"], "step": e["i"], "command": e["a"]["argv"], "fronts": inner, "outcome": e["kind"]})
            prev = abstract(e["objs"])
            continue
        hist.append({"op": e["op"], "recv": e["recv"], "a": e["a"]})
        e["_hist"] = list(hist)
        cur = abstract(e["objs"])
        recv_rows = prev[e["recv"] - 1][3] if 0 < e["recv"] <= len(prev) else None
        trivial = e["kind"] == "ok" and recv_rows == [] and cur == prev
        relevant = v.prop in OP_PROPS.get(e["op"], ()) or (v.prop == "C19" and e["op"] != "New") or (v.prop == "C01")
        if relevant and e["op"] != "New":
            v.count_case(vf.digest([e["op"], e["a"], prev]), not trivial)
            v.sample({"history": e["h"], "step": e["i"], "op": e["op"], "args": e["a"], "outcome": e["kind"],
                      "receiver_before": recv_rows})
        prev = cur
    nh = sum(1 for e in evs if e["op"] == "Reset")
    v.add_trace(res, nh)
    lineage_pass(evs)
    for b in res.get("bad", []):
        e = evs[b["i"] - 1]
        if e["op"] == "Cli":
            inner = e["a"]["op"]
            mine = [c for c in b["failing"] if v.prop in OP_PROPS.get(inner, ()) or v.prop == "C11"]
            if os.environ.get("VERIF_DEBUG"):
                vf.log("bad: Cli %s %s %s argv=%s msg=%s" % (inner, b["failing"], e["kind"], e["a"]["argv"], e.get("msg", "")[:200]))
            if mine:
                v.finding({"op": "Cli:" + inner, "failing": sorted(mine), "kind": e["kind"], "args": e["a"]["a"], "command": e["a"]["argv"],
                           "history": e["h"], "step": e["i"], "msg": e.get("msg", "")[:300]},
                          {"family": "heap", "cli": True, "script": {"id": e["h"], "steps": e["_hist"]}})
            continue
        if "frame" in b["failing"] and e.get("_alias_ok"):
            # every changed object is connected to the receiver through operations that the property does not
            # require to copy (Sample, Append, ...): sharing is the code's documented-by-behaviour meaning there
            b = dict(b, failing=[c for c in b["failing"] if c != "frame"])
            if not b["failing"]:
                continue
        if os.environ.get("VERIF_DEBUG"):
            vf.log("bad: %s %s %s args=%s msg=%s" % (e["op"], b["failing"], e["kind"], json.dumps(e["a"])[:300], e.get("msg", "")[:200]))
        def owners(c):
            if c == "frame" and e.get("_alias_ops") and set(e["_alias_ops"]) <= LIST_MODEL_EDGES:
                return {"C01"}
            if c == "frame" and e.get("_alias_ops"):
                # the operation that links the two objects did not deliver a result of its own: also a matter of the
                # properties that own that operation (extraction: C04; un-alignment: C06; ...)
                own = set()
                for op in e["_alias_ops"]:
                    own |= {p for p in OP_PROPS.get(op, ()) if p in ("C04", "C05", "C06", "C13", "C14", "C16")}
                return {"C19"} | own
            return attribute(e["op"], c)
        mine = [c for c in b["failing"] if v.prop in owners(c)]
        if not mine:
            continue
        desc = {"op": e["op"], "failing": sorted(mine), "kind": e["kind"], "args": e["a"], "history": e["h"],
                "step": e["i"], "msg": e.get("msg", "")}
        if "frame" in mine and e.get("_alias_ops"):
            desc["shared_by"] = e["_alias_ops"]
        v.finding(desc, {"family": "heap", "script": {"id": e["h"], "steps": e["_hist"]}})
    for s in res.get("support", []):
        if s["n"] >= 100 and not s["ok"] and v.prop == "C10":
            e = evs[s["at"] - 1]
            v.finding({"op": s["op"], "failing": ["support"], "seen": s["seen"], "all": s["all"], "draws": s["n"], "args": e["a"]},
                      {"family": "heap", "note": "support", "script": {"id": e["h"], "steps": e["_hist"]}})
    return res


# No operation's result may share row storage with its source any more (Sample, Append and Rarefy used to; repaired).
# A change of an unrelated object is attributed through the lineage graph: to C19 when an operation the property lists
# as copy-producing links the two objects, to C01 (list model: "appending ... sampling") when only these do.
MAY_SHARE = set()
LIST_MODEL_EDGES = {"Sample", "SampleSeqBag", "Append", "Rarefy"}


def lineage_pass(evs):
    """For every event whose mutation changed another object, decides whether the sharing is explained by
    MAY_SHARE edges only (sets e['_alias_ok']) and records the responsible copy-producing operations."""
    edges = []          # (i, j, op): object j was derived from object i by op (or Append made recv share with other)
    prev = []
    for e in evs:
        if e["op"] == "Reset":
            edges, prev = [], []
            continue
        if e["op"] == "Drop":
            prev = prev[:-1]
            continue
        if e["op"] == "Cli":
            prev = abstract(e["objs"])
            continue
        cur = abstract(e["objs"])
        recv = e["recv"]
        changed = [i + 1 for i in range(min(len(prev), len(cur))) if i + 1 != recv and prev[i] != cur[i]]
        if changed and recv:
            ok = True
            culprits = set()
            for c in changed:
                # is there a path recv .. c using MAY_SHARE edges only?
                seen, todo = {recv}, [recv]
                while todo:
                    x = todo.pop()
                    for (i, j, op) in edges:
                        if op in MAY_SHARE:
                            for a, b2 in ((i, j), (j, i)):
                                if a == x and b2 not in seen:
                                    seen.add(b2)
                                    todo.append(b2)
                if c not in seen:
                    ok = False
                    culprits |= {op for (i, j, op) in edges if op not in MAY_SHARE and (i in (recv, c) or j in (recv, c))}
            e["_alias_ok"] = ok
            e["_alias_ops"] = sorted(culprits)
        for k in range(len(prev), len(cur)):
            if e["op"] != "New" and recv:
                edges.append((recv, k + 1, e["op"]))
        if e["op"] == "Append" and "other" in e["a"] and e["kind"] == "ok":
            edges.append((e["a"]["other"], recv, "Append"))
        prev = cur


def write_cfg(work, name, spec="Spec", invariants=(), constants=None, deadlock=False, props=(), view=None):
    lines = ["SPECIFICATION %s" % spec] if spec else ["INIT Init", "NEXT Next"]
    if view:
        lines.append("VIEW %s" % view)
    for i in invariants:
        lines.append("INVARIANT %s" % i)
    for p in props:
        lines.append("PROPERTY %s" % p)
    lines.append("CHECK_DEADLOCK %s" % ("TRUE" if deadlock else "FALSE"))
    if constants:
        lines.append("CONSTANTS")
        for k, val in constants.items():
            lines.append("  %s = %s" % (k, json.dumps(val) if isinstance(val, str) and val not in ("TRUE", "FALSE") else val))
    path = os.path.join(work.spec, name)
    with open(path, "w") as f:
        f.write("\n".join(lines) + "\n")
    return name


def dedup_lines(path):
    seen = set()
    out = []
    for line in open(path):
        if line not in seen:
            seen.add(line)
            out.append(line)
    with open(path, "w") as f:
        f.writelines(out)
    return len(out)


def heap_gen_validate(work, v, profile, depth, scope="quick", simulate=None, seed=None, label=""):
    cfg = write_cfg(work, "Gen_Heap_%s_%s.cfg" % (profile, label or depth), invariants=["Emit", "RectInv", "RaggedOnlyBy3Frames"],
                    constants={"Depth": depth, "Profile": profile, "Scope": scope})
    cases, n, r = vf.tlc_gen(work, "Gen_Heap", cfg, workers=1 if simulate else 8, simulate=simulate,
                             depth=depth + 3 if simulate else None, seed=seed)
    if simulate:
        n = dedup_lines(cases)
    if n == 0:
        raise vf.ToolingError("generator produced no history for profile %s" % profile)
    v.add_mc(r, "gen:%s:%s" % (profile, label or depth))
    cap = 150000
    if n > cap:
        # deeper enumerations are replayed as a deterministic sample (every history of the shallower depth is a prefix of these)
        lines = open(cases).read().splitlines()
        rnd = __import__("random").Random(seed or 1)
        keep = sorted(rnd.sample(range(len(lines)), cap))
        with open(cases, "w") as f:
            for i in keep:
                f.write(lines[i] + "\n")
        v.notes.append("profile %s depth %s: %d of %d generated histories replayed (sampled)" % (profile, depth, cap, n))
    trace = vf.drive(work, "heap", cases=cases, timeout=3000)
    for part in split_trace(work, trace, 300000):
        res = vf.tlc_trace(work, "Trace_Heap", part, timeout=3000, heap="12g")
        heap_account(v, part, res)
    return cases


def split_trace(work, trace, maxev):
    """Cuts a heap trace at history boundaries (Reset events) into parts of at most ~maxev events."""
    nlines = sum(1 for _ in open(trace))
    if nlines <= maxev:
        return [trace]
    parts, cur, out = [], 0, None
    for line in open(trace):
        if out is None or (cur >= maxev and '"op":"Reset"' in line):
            if out:
                out.close()
            p = work.fresh("tracepart", ".ndjson")
            parts.append(p)
            out = open(p, "w")
            cur = 0
        out.write(line)
        cur += 1
    out.close()
    return parts


def cli_histories(work, trace):
    """Keeps the histories of a heap trace in which a step was also run through the command line."""
    out = work.fresh("clitrace", ".ndjson")
    nh = nc = 0
    with open(out, "w") as f:
        cur, has = [], False
        def flush():
            nonlocal nh
            if has:
                f.writelines(cur)
                nh += 1
        for line in open(trace):
            if '"op":"Reset"' in line:
                flush()
                cur, has = [], False
            if '"op":"Cli"' in line:
                has = True
                nc += 1
            cur.append(line)
        flush()
    return out, nh, nc


def heap_cli_validate(work, v, profile, every, seed, tier, cases=None, n=0, maxcmds=0):
    """The command-line front (harness/heap_cli.go): the same histories, a sampled subset of their steps also run through
    `goalign <command>` built from /repo, judged by the transition of the operation the command fronts."""
    import cli as clilib
    if not getattr(work, "goalign", None):
        work.goalign = clilib.build_cli(work)
    trace = vf.drive(work, "heap", cases=cases, n=n, seed=seed, mode=profile, tier=tier, timeout=3000,
                     env={"VERIF_GOALIGN": work.goalign, "VERIF_CLI_EVERY": every, "VERIF_CLI_MAX": maxcmds})
    part, nh, nc = cli_histories(work, trace)
    if nc == 0:
        raise vf.ToolingError("no step of profile %s was run through the command line" % profile)
    vf.log("cli front: %d commands in %d histories" % (nc, nh))
    for p in split_trace(work, part, 300000):
        res = vf.tlc_trace(work, "Trace_Heap", p, timeout=3000, heap="12g")
        heap_account(v, p, res)
    v.notes.append("command-line front: %d goalign commands judged by the transitions of the operations they front" % nc)


def heap_random_validate(work, v, mode, n, seed, tier):
    trace = vf.drive(work, "heap", n=n, seed=seed, mode=mode, tier=tier, timeout=3000)
    for part in split_trace(work, trace, 300000):
        res = vf.tlc_trace(work, "Trace_Heap", part, timeout=3000, heap="12g")
        heap_account(v, part, res)


# bounded models of the specification: name -> (invariants, constants for quick, constants for thorough)
MC = {
    "MC_Sites": (["PrefixSuffix", "WindowInverse", "PositionsInverse", "SplitReassemble", "ModuloPartition", "TransposeTwice",
                  "DiffRoundTrip", "RefWindowMinimal", "TrimIsSubAlign"], {"MaxLen": 2}, {"MaxLen": 4}),
    "MC_SW": (["GotohIsBrute", "Symmetric", "TablesOK"], {"MaxLen": 2}, {"MaxLen": 3}),
    "MC_Clean": (["CleanPartition", "EndsMaximal", "DedupLemmas", "MaskFrame"], {"Rows": 2, "Cols": 3}, {"Rows": 3, "Cols": 3}),
    "MC_Transforms": (["Involution", "KeepsShape", "CaseIdem", "CaseOnly", "UngapKept", "ObjLevel"], {"MaxLen": 2}, {"MaxLen": 3}),
    # the heap machine as a state machine: every heap reachable in MaxDepth operations (900 heaps at depth 2 in seconds,
    # 158 599 at depth 3 in 3.5 minutes with 8 workers)
    "MC_Heap": (["Rectangular", "LengthCached", "Distinct", "Policies", "RejectLeaves", "ReadOnly", "NewAreFresh", "AddRejects"],
                {"MaxDepth": 2, "MaxObjs": 4, "MaxRows": 4, "MaxWidth": 6, "MaxName": 4},
                {"MaxDepth": 3, "MaxObjs": 4, "MaxRows": 4, "MaxWidth": 6, "MaxName": 4}),
}
MC_VIEW = {"MC_Heap": "View"}


def run_mc(work, v, module, tier, timeout=1500):
    invs, cq, ct = MC[module]
    cfg = write_cfg(work, "%s_%s.cfg" % (module, tier), spec=None, invariants=invs, constants=cq if tier == "quick" else ct,
                    view=MC_VIEW.get(module))
    v.add_mc(vf.tlc_mc(work, module, cfg, workers=8, timeout=timeout), "mc:" + module)


CLI_DEFAULT = ((2, 1200, 150), (1, 20000, 1500))


def heap_pipeline(profile, quick, thorough, mc=None, cli=CLI_DEFAULT):
    """quick/thorough: dicts with keys depth, sim (num, depth), rand (n)."""
    def run(work, v, tier, seed):
        p = quick if tier == "quick" else thorough
        vf.build_driver(work)
        for m in (mc or []):
            run_mc(work, v, m, tier)
        cases = heap_gen_validate(work, v, profile, p["depth"], scope=p.get("scope", "quick"))
        if cli:
            # the command-line front: a sample of the generated histories and random ones, their steps also run through goalign
            every, maxcmds, nrand = cli[0 if tier == "quick" else 1]
            heap_cli_validate(work, v, profile, every, seed, tier, cases=cases, maxcmds=maxcmds)
            heap_cli_validate(work, v, profile, 1, seed, tier, n=nrand)
        if p.get("sim"):
            num, d = p["sim"]
            heap_gen_validate(work, v, profile, d, scope=p.get("scope", "quick"), simulate=num, seed=seed, label="sim")
        if p.get("rand"):
            heap_random_validate(work, v, profile, p["rand"], seed, tier)
        v.assumptions += ["TLC and the CommunityModules evaluate TLA+ correctly", "the Go projection reads objects only through the public API"]
    return run


PIPELINES = {}
PIPELINES["C06"] = heap_pipeline("C06", quick=dict(depth=1, sim=(30, 4), rand=150),
                                 thorough=dict(depth=2, scope="full", sim=(300, 6), rand=3000), mc=["MC_Transforms"])


def replay(work, v, prop, path):
    data = json.load(open(path))
    rp = data["replay"]
    vf.build_driver(work)
    if rp.get("family") == "heap":
        cases = work.fresh("replay", ".ndjson")
        with open(cases, "w") as f:
            f.write(json.dumps(rp["script"]) + "\n")
        env = None
        if rp.get("cli"):       # the failing step was the command-line twin of the last step of the script
            import cli as clilib
            env = {"VERIF_GOALIGN": clilib.build_cli(work), "VERIF_CLI_EVERY": 1}
        trace = vf.drive(work, "heap", cases=cases, env=env)
        res = vf.tlc_trace(work, "Trace_Heap", trace)
        heap_account(v, trace, res)
        return v.finish()
    if rp.get("family") in SIMPLE_REPLAY:
        module, acct = SIMPLE_REPLAY[rp["family"]]
        cases = work.fresh("replay", ".ndjson")
        with open(cases, "w") as f:
            f.write(json.dumps(rp["case"]) + "\n")
        trace = vf.drive(work, rp["family"], cases=cases, env=cli_env(work, 1) if rp.get("cli") else None)
        res = vf.tlc_trace(work, module, trace, cfg=write_cfg(work, module + ".cfg", invariants=["Done"]))
        acct(v, trace, res)
        return v.finish()
    # families whose workloads are produced by a seeded driver (pairs of calls, recorded runs, command lines): the
    # reproduction is the same stage of the pipeline with the recorded tier and seed, judged again from scratch
    v.tier, v.seed = data.get("tier", "quick"), data.get("seed", 1)
    vf.log("replaying by re-running the %s pipeline of %s with seed %s (looking for: %s)" % (v.tier, prop, v.seed, json.dumps(data.get("finding", {}))[:200]))
    PIPELINES[prop](work, v, v.tier, v.seed)
    return v.finish()


SIMPLE_REPLAY = {}

PIPELINES["C01"] = heap_pipeline("C01", quick=dict(depth=1, sim=(25, 4), rand=250),
                                 thorough=dict(depth=2, sim=(400, 6), rand=4000), mc=["MC_Heap"])
def _c04(work, v, tier, seed):
    heap_pipeline("C04", quick=dict(depth=1, sim=(6, 3), rand=250), thorough=dict(depth=2, sim=(100, 5), rand=4000), mc=["MC_Sites"])(work, v, tier, seed)
    heap_gen_validate(work, v, "C04b", 3)      # extraction / concatenation onto the extract / further extraction


PIPELINES["C04"] = _c04

PIPELINES["C05"] = heap_pipeline("C05", quick=dict(depth=1, rand=200), thorough=dict(depth=1, scope="full", rand=4000))
PIPELINES["C12"] = heap_pipeline("C12", quick=dict(depth=1, rand=250), thorough=dict(depth=1, scope="full", rand=4000), mc=["MC_Clean"])
PIPELINES["C13"] = heap_pipeline("C13", quick=dict(depth=1, rand=250), thorough=dict(depth=2, scope="full", rand=4000), mc=["MC_Clean"])
PIPELINES["C14"] = heap_pipeline("C14", quick=dict(depth=1, rand=200), thorough=dict(depth=1, scope="full", rand=3000))
PIPELINES["C15"] = heap_pipeline("C15", quick=dict(depth=1, rand=250), thorough=dict(depth=1, scope="full", rand=4000), mc=["MC_Clean"])
PIPELINES["C19"] = heap_pipeline("C19", quick=dict(depth=2, rand=250), thorough=dict(depth=2, scope="full", rand=4000))


def _c10(work, v, tier, seed):
    heap_pipeline("C10", quick=dict(depth=1, rand=200), thorough=dict(depth=1, rand=3000))(work, v, tier, seed)
    # support (every admissible elementary outcome is observed) and seed replay on small instances
    trace = vf.drive(work, "heap", seed=seed, mode="C10sup", tier=tier)
    res = vf.tlc_trace(work, "Trace_Heap", trace)
    heap_account(v, trace, res)
    judged = [s for s in res.get("support", []) if s["n"] >= 100]
    if not judged:
        raise vf.ToolingError("support workload judged no key")
    v.notes.append("support: %d (operation, arguments, instance) keys with >= 100 draws each, all elementary outcomes required" % len(judged))


PIPELINES["C10"] = _c10


# ---------------------------------------------------------------------------------------------------
# simple families: one event per case, judged by a total trace specification
# ---------------------------------------------------------------------------------------------------
def simple_account(v, trace, res, fam, module, key=lambda e: e, sample=lambda e: e, ntraces=1, describe=None):
    evs = vf.read_events(trace)
    for e in evs:
        v.count_case(vf.digest(key(e)))
        v.sample(sample(e))
    v.add_trace(res, ntraces, "trace:" + module)
    for b in res.get("bad", []):
        e = evs[b["i"] - 1]
        if os.environ.get("VERIF_DEBUG"):
            vf.log("bad: %s %s" % (b["failing"], json.dumps(e)[:int(os.environ.get("VERIF_DEBUG_LEN", "400"))]))
        desc = {"op": fam, "failing": sorted(b["failing"]), "kind": e.get("kind", "")}
        if describe:
            desc.update(describe(e))
        v.finding(desc, {"family": fam, "case": key(e)})


def _c09(work, v, tier, seed):
    vf.build_driver(work)
    run_mc(work, v, "MC_SW", tier)
    cfg = write_cfg(work, "Gen_SW_%s.cfg" % tier, spec=None, invariants=["Emit"], constants={"MaxLen": 3 if tier == "quick" else 4})
    cases, n, r = vf.tlc_gen(work, "Gen_SW", cfg, workers=8)
    v.add_mc(r, "gen:SW")
    trace = vf.drive(work, "sw", cases=cases, n=400 if tier == "quick" else 6000, seed=seed, tier=tier, env=cli_env(work, 2))
    ncli = sum(1 for l in open(trace) if ':cli"' in l)
    if ncli == 0:
        raise vf.ToolingError("no pair was aligned through the command line")
    v.notes.append("command-line front: %d pairs aligned by `goalign sw` (rows, positions, counts and score from its output and log) judged like the library's" % ncli)
    res = vf.tlc_trace(work, "Trace_SW", trace, cfg=write_cfg(work, "Trace_SW.cfg", invariants=["Done"]))
    simple_account(v, trace, res, "sw", "Trace_SW", key=lambda e: {"s1": e["s1"], "s2": e["s2"], "sch": e["sch"]},
                   sample=lambda e: {"s1": bytes(e["s1"]).decode(), "s2": bytes(e["s2"]).decode(), "scheme": e["sch"], "outcome": e["kind"],
                                     "score_x2": e["obs"]["score"]},
                   describe=lambda e: {"mode": e["sch"]["mode"]})
    v.assumptions += ["TLC and the CommunityModules evaluate TLA+ correctly", "scores are multiples of 0.5 (checked by the driver)"]


PIPELINES["C09"] = _c09

SIMPLE_REPLAY["sw"] = ("Trace_SW", lambda v, trace, res: simple_account(v, trace, res, "sw", "Trace_SW",
                                                                       key=lambda e: {"s1": e["s1"], "s2": e["s2"], "sch": e["sch"]}))


def _s(l):
    try:
        return bytes(l).decode("latin1")
    except Exception:
        return str(l)


def fmt_account(v, trace, res):
    simple_account(v, trace, res, "fmt", "Trace_Formats",
                   key=lambda e: {"als": [{"rows": a["rows"]} for a in e["in"]], "chain": [e["h"]]},
                   sample=lambda e: {"format": e["h"], "rows": len(e["in"][0]["rows"]) if e["in"] else 0,
                                     "length": len(e["in"][0]["rows"][0]["s"]) if e["in"] and e["in"][0]["rows"] else 0, "alignments": len(e["in"]),
                                     "outcome": e["kind"]},
                   describe=lambda e: {"fmt": e["h"]["fmt"], "msg": e.get("msg", "")[:200],
                                       "names": [_s(r["n"]) for a in e["in"] for r in a["rows"]][:4],
                                       "first_row": _s(e["in"][0]["rows"][0]["s"])[:40] if e["in"] and e["in"][0]["rows"] else ""})


def _c02(work, v, tier, seed):
    vf.build_driver(work)
    cfg = write_cfg(work, "Gen_Formats_%s.cfg" % tier, spec=None, invariants=["Emit", "AllRepresentable"],
                    constants={"Scope": "quick" if tier == "quick" else "full"})
    cases, n, r = vf.tlc_gen(work, "Gen_Formats", cfg, workers=8)
    if "AllRepresentable is violated" in r.out or n == 0:
        raise vf.ToolingError("Gen_Formats: a generated case is not representable (specification defect):\n" + vf.tail(r.out))
    v.add_mc(r, "gen:Formats")
    # one file hop in three (quick) is written by `goalign reformat` (from a file, "-" or the default standard input)
    trace = vf.drive(work, "fmt", cases=cases, n=300 if tier == "quick" else 5000, seed=seed, tier=tier, env=cli_env(work, 3 if tier == "quick" else 2), timeout=3000)
    ncli = sum(1 for l in open(trace) if "written by goalign reformat" in l or '"goalign reformat' in l)
    if ncli == 0:
        raise vf.ToolingError("no hop was written through the command line")
    v.notes.append("command-line front: %d hops written by `goalign reformat` (plain / .gz / .xz outputs) and read back" % ncli)
    res = vf.tlc_trace(work, "Trace_Formats", trace, cfg=write_cfg(work, "Trace_Formats.cfg", invariants=["Done"]))
    fmt_account(v, trace, res)
    v.notes.append("%d of %d hops were on representable inputs and judged" % (res.get("judged", 0), res.get("consumed", 0)))
    v.assumptions += ["TLC and the CommunityModules evaluate TLA+ correctly", "names restricted to the representable ones defined in Formats.tla"]


PIPELINES["C02"] = _c02
SIMPLE_REPLAY["fmt"] = ("Trace_Formats", fmt_account)


def parse_account(v, trace, res):
    simple_account(v, trace, res, "parse", "Trace_Parse", key=lambda e: e["c"],
                   sample=lambda e: {"parser": e["c"]["fmt"], "strict": e["c"]["strict"], "input": _s(e["c"]["bytes"])[:60], "outcome": e["kind"]},
                   describe=lambda e: {"fmt": e["c"]["fmt"], "msg": e.get("msg", "")[:200], "input": _s(e["c"]["bytes"])[:300]})


def _c03(work, v, tier, seed):
    vf.build_driver(work)
    cfg = write_cfg(work, "Gen_Parse_%s.cfg" % tier, spec=None, invariants=["Emit"], constants={"MaxExtra": 1 if tier == "quick" else 2})
    cases, n, r = vf.tlc_gen(work, "Gen_Parse", cfg, workers=8, timeout=3000)
    if n == 0:
        raise vf.ToolingError("Gen_Parse produced no case")
    dedup_lines(cases)
    v.add_mc(r, "gen:Parse")
    trace = vf.drive_resumable(work, "parse", cases=cases, n=250 if tier == "quick" else 100000, seed=seed, tier=tier)
    res = vf.tlc_trace(work, "Trace_Parse", trace, cfg=write_cfg(work, "Trace_Parse.cfg", invariants=["Done"]))
    parse_account(v, trace, res)
    v.assumptions += ["TLC and the CommunityModules evaluate TLA+ correctly",
                      "a parser that reads 2000 times after the end of its input is looping; a parser silent for 20 s is looping"]


PIPELINES["C03"] = _c03
SIMPLE_REPLAY["parse"] = ("Trace_Parse", parse_account)


def dist_account(v, trace, res, prop):
    evs = vf.read_events(trace)
    for e in evs:
        mine = (e["t"] in ("rel", "fault")) == (prop == "C08") or (prop == "C08" and e["t"] == "dist")
        if not mine:
            continue
        v.count_case(vf.digest({k: e.get(k) for k in ("rows", "o", "r", "rel", "what", "cpus")}))
        if e["t"] == "dist":
            v.sample({"rows": [_s(r) for r in e["rows"]][:3], "options": e["o"], "outcome": e["kind"]})
        elif e["t"] == "fault":
            v.sample({"failing_evaluation": e["faildist"], "failing_row_request": e["failseq"], "threads": e["cpus"], "outcome": e["kind"]})
        else:
            v.sample({"relation": e["what"], "rows": [_s(r) for r in e["rows"]][:3], "options": e["o"]})
    v.add_trace(res, 1, "trace:Trace_Dist")
    for b in res.get("bad", []):
        e = evs[b["i"] - 1]
        if os.environ.get("VERIF_DEBUG"):
            vf.log("bad: %s %s" % (b["failing"], json.dumps({k: e.get(k) for k in ("t", "id", "o", "r", "cpus", "kind", "msg", "what", "m", "m1", "m2")})[:700]))
            vf.log("     rows: %s" % [_s(r) for r in e["rows"]])
        if e["t"] in ("rel", "fault"):
            owner = "C08"
        else:
            owner = "C08" if set(b["failing"]) <= {"returns"} else "C07"
        if owner != prop:
            continue
        viacli = str(e.get("id", "")).endswith(":cli")
        desc = {"op": ("Cli:" if viacli else "") + (e.get("what") or "DistMatrix"), "failing": sorted(b["failing"]), "kind": e.get("kind", ""), "model": e["o"]["model"],
                "options": e["o"], "rows": [_s(r) for r in e["rows"]], "msg": e.get("msg", "")}
        v.finding(desc, {"family": "dist", "cli": viacli, "event": {k: e.get(k) for k in ("t", "rows", "o", "r", "cpus", "what", "rel", "k", "perm", "faildist", "failseq")}})


def cli_env(work, every):
    import cli as clilib
    if not getattr(work, "goalign", None):
        work.goalign = clilib.build_cli(work)
    return {"VERIF_GOALIGN": work.goalign, "VERIF_CLI_EVERY": every}


def _dist(prop):
    def run(work, v, tier, seed):
        vf.build_driver(work)
        cases = None
        if prop == "C07":
            cfg = write_cfg(work, "Gen_Dist_%s.cfg" % tier, spec=None, invariants=["Emit"], constants={"Scope": "quick" if tier == "quick" else "full"})
            cases, n, r = vf.tlc_gen(work, "Gen_Dist", cfg, workers=8)
            if n == 0:
                raise vf.ToolingError("Gen_Dist produced no case")
            v.add_mc(r, "gen:Dist")
        env = None
        if prop == "C07":
            # the command-line front: a sample of the cases is also asked of `goalign compute distance` (same judge)
            env = cli_env(work, 12 if tier == "quick" else 2)
        trace = vf.drive(work, "dist", cases=cases, n=400 if tier == "quick" else 5000, seed=seed, tier=tier, env=env, timeout=3000)
        if env:
            ncli = sum(1 for l in open(trace) if ':cli"' in l)
            if ncli == 0:
                raise vf.ToolingError("no distance case was asked of the command line")
            v.notes.append("command-line front: %d matrices printed by `goalign compute distance` judged like the library's" % ncli)
        res = vf.tlc_trace(work, "Trace_Dist", trace, cfg=write_cfg(work, "Trace_Dist.cfg", invariants=["Done"]))
        dist_account(v, trace, res, prop)
        v.assumptions += ["TLC and the CommunityModules evaluate TLA+ correctly", "java.lang.Math log/pow are accurate to 1e-9 relative"]
    return run


PIPELINES["C07"] = _dist("C07")


# ---------------------------------------------------------------------------------------------------
# goroutine protocols: exhaustive model checking, validation of free-running hook logs, race detector
# ---------------------------------------------------------------------------------------------------
CONC_INVS = {"Trace_Conc": ["NoRaceOnErr", "NoRaceOnCells", "MutexOK", "ErrorReturned", "Determinate", "OneResultPerPair"],
             "Trace_PhaseConc": ["NoSendAfterClose", "OneResultEach", "NoDuplicate", "ErrorDelivered", "ErrorSeen"]}


def conc_validate(work, v, module, trace, what, consts):
    """Validates recorded runs one TLC search at a time; a run that no interleaving of the specification explains (or
    that breaks an invariant of the protocol on the way) is a divergence of the code from the protocol."""
    allruns = vf.read_events(trace)
    # a call that did not return (or crashed) has no complete log: it is a divergence by itself
    runs = []
    for r in allruns:
        if r.get("ret") in ("hang", "panic"):
            v.finding({"op": what, "failing": ["returns" if r["ret"] == "hang" else "noPanic"], "kind": r["ret"], "cfg": r.get("cfg"),
                       "faildist": r.get("faildist"), "failseq": r.get("failseq")}, {"family": "conc", "module": module, "run": r})
        else:
            runs.append(r)
    start = 0
    nacc = 0
    while start < len(runs):
        part = work.fresh("runs", ".ndjson")
        with open(part, "w") as f:
            for r in runs[start:]:
                f.write(json.dumps(r, separators=(",", ":")) + "\n")
        lines = ["INIT TInit", "NEXT TNext", "INVARIANT NotAllAccepted"] + ["INVARIANT %s" % i for i in CONC_INVS[module]]
        lines += ["CHECK_DEADLOCK FALSE", "CONSTANTS"] + ["  %s = %s" % (k, val) for k, val in consts.items()]
        cfg = "%s_run.cfg" % module
        open(os.path.join(work.spec, cfg), "w").write("\n".join(lines) + "\n")
        r = vf.run_tlc(work, module, cfg, env={"TRACE": part}, workers=1, timeout=1200)
        acc = [int(x) for x in __import__("re").findall(r'<<"ACCEPTED", (\d+)>>', r.out)]
        k = max(acc) if acc else 0
        v.states += r.distinct
        v.transitions += r.generated
        nacc += k
        broken = [i for i in CONC_INVS[module] if ("Invariant %s is violated" % i) in r.out]
        if "NotAllAccepted is violated" in r.out and k == len(runs) - start:
            break
        if "Error:" in r.out and not broken and "is violated" not in r.out:
            raise vf.ToolingError("trace validation with %s failed:\n%s" % (module, vf.tail(r.out)))
        bad = runs[start + k]
        desc = {"op": what, "failing": broken or ["notABehaviourOfTheProtocol"], "kind": bad.get("ret", ""), "cfg": bad.get("cfg"),
                "faildist": bad.get("faildist"), "failseq": bad.get("failseq")}
        v.finding(desc, {"family": "conc", "module": module, "run": bad})
        start += k + 1
    for r in runs:
        v.count_case(vf.digest({"cfg": r.get("cfg"), "logs": r.get("logs")}))
        v.sample({"run": r["id"], "config": r.get("cfg"), "returned": r.get("ret"), "goroutines": len(r.get("logs", []))})
    v.traces += len(runs)
    v.stage_stats.append({"stage": "trace:" + module, "runs": len(runs), "accepted": nacc})
    vf.log("conc  %-21s %8d runs %5d accepted" % (module, len(runs), nacc))


def race_run(work, v, family, n, seed, what, procs=(1, 2, 4, 16)):
    """Free-running executions under the Go race detector (no hook installed, GOMAXPROCS varied).  A report whose
    stack goes through goalign code is the observation that falsifies the NoRace invariants on the code."""
    drv = vf.build_driver(work, race=True, name="driver_race")
    total = 0
    for gp in procs:
        logp = work.fresh("race", "")
        out = work.fresh("racetrace", ".ndjson")
        env = {"GORACE": "log_path=%s halt_on_error=0 exitcode=0" % logp, "GOMAXPROCS": str(gp), "VERIF_NOHOOK": "1"}
        vf.drive(work, family, n=n, seed=seed + gp, driver=drv, out=out, env=env, timeout=1800)
        total += sum(1 for _ in open(out))
        reports = ""
        for fn in os.listdir(work.dir):
            if fn.startswith(os.path.basename(logp) + "."):
                reports += open(os.path.join(work.dir, fn)).read()
        chunks = [c for c in reports.split("==================") if "DATA RACE" in c]
        for c in chunks:
            if "evolbioinfo/goalign/" not in c:
                raise vf.ToolingError("the race detector reported a race outside goalign (harness defect):\n" + c[:1500])
            funcs = sorted(set(__import__("re").findall(r"(github.com/evolbioinfo/goalign/[\w/.()*]+)", c)))[:6]
            v.finding({"op": what, "failing": ["noDataRace"], "kind": "race", "functions": funcs, "gomaxprocs": gp},
                      {"family": "race", "report": c[:4000]})
    v.evaluations += total
    v.stage_stats.append({"stage": "race:" + family, "calls": total, "gomaxprocs": list(procs)})
    v.notes.append("%d calls executed under the Go race detector (GOMAXPROCS %s)" % (total, ",".join(map(str, procs))))


def sched_replay(work, v, gen_module, family, trace_module, consts, num, seed, what):
    """TLC simulates the protocol specification and prints each behaviour as a schedule; the driver replays the schedules
    on the real goroutines through the gating hooks; a schedule the code cannot follow (a goroutine that does not arrive
    where the model says, or arrives elsewhere) or a different return value is a divergence of the code from the protocol.
    The arrival logs of the followed schedules are validated again by the trace specification."""
    cfg = write_cfg(work, gen_module + ".cfg", spec="SSpec", invariants=["Emit"], constants=consts)
    cases, n, r = vf.tlc_gen(work, gen_module, cfg, workers=1, simulate=num, depth=400, seed=seed)
    n = dedup_lines(cases)
    if n == 0:
        raise vf.ToolingError("%s generated no schedule" % gen_module)
    v.add_mc(r, "gen:" + gen_module)
    trace = vf.drive(work, family, cases=cases, timeout=3000)
    evs = vf.read_events(trace)
    runs = work.fresh("schedruns", ".ndjson")
    nsteps = 0
    with open(runs, "w") as f:
        nunusable = 0
        for e in evs:
            if e["t"] in ("conc", "phconc"):
                f.write(json.dumps(e) + "\n")
                continue
            if e["status"] == "unusable":      # (Phase: no read set with exactly the failing reads of the configuration)
                nunusable += 1
                continue
            v.count_case(vf.digest([e["cfg"], e["steps"], e["id"]]))
            v.sample({"schedule": e["id"], "configuration": e["cfg"], "steps": e["steps"], "followed": e["done"], "returned": e.get("ret", e.get("closed"))})
            nsteps += e["done"]
            failing = []
            if e["status"] != "followed":
                failing.append("followsSchedule")
            elif e["t"] == "sched" and e["ret"] != e["want"]:
                failing.append("returns" if e["ret"] == "hang" else "sameReturn")
            elif e["t"] == "phsched" and not e["closed"]:
                failing.append("streamClosed")
            if failing:
                v.finding({"op": what, "failing": failing, "kind": e["status"], "cfg": e["cfg"], "at_step": e["done"], "action": e.get("at"),
                           "detail": e["detail"], "returned": e.get("ret"), "model_returns": e.get("want")},
                          {"family": "sched", "note": "re-run the pipeline of this property with the recorded tier and seed"})
        if nunusable > n // 2:
            raise vf.ToolingError("%s: %d of %d schedules could not be set up" % (what, nunusable, n))
    v.notes.append("%s: %d schedules generated by TLC replayed on the real goroutines (%d gated steps followed)" % (what, n, nsteps))
    if os.path.getsize(runs) > 0:
        conc_validate(work, v, trace_module, runs, what + " (arrival logs)", consts)


def _c08(work, v, tier, seed):
    vf.build_driver(work)
    q = tier == "quick"
    # 1. the protocol: exhaustive, every failure position, both failure kinds
    cfg = write_cfg(work, "MC_DistConc_%s.cfg" % tier, spec="Spec", props=["Termination"],
                    invariants=["NoRaceOnErr", "NoRaceOnCells", "MutexOK", "ErrorReturned", "Determinate", "OneResultPerPair"],
                    constants={"MaxPairs": 3 if q else 4, "MaxWorkers": 2 if q else 3, "DoneOnError": "TRUE"})
    v.add_mc(vf.tlc_mc(work, "MC_DistConc", cfg, workers=8, timeout=3000, coverage=True), "mc:DistMatrixConc")
    # the protocol of the pinned code (failing worker returns without signalling) must be rejected: the model is sharp
    cfg2 = write_cfg(work, "MC_DistConc_pinned.cfg", spec="Spec", props=["Termination"], constants={"MaxPairs": 2, "MaxWorkers": 2, "DoneOnError": "FALSE"})
    r = vf.run_tlc(work, "MC_DistConc", cfg2, workers=4, timeout=600)
    if "Termination was violated" not in r.out:
        raise vf.ToolingError("sanity: the model of the pinned protocol should violate Termination")
    # 2. relations between calls on transformed alignments, thread counts (functional half)
    #    ... on random alignments, and on the cases TLC generates for C07 (exactly saturated pairs, every gap-counting mode,
    #    single-kind rows): each with one relation in turn and always the row permutation
    cfg = write_cfg(work, "Gen_Dist_rel_%s.cfg" % tier, spec=None, invariants=["Emit"], constants={"Scope": "quick" if q else "full"})
    cases, ncases, r = vf.tlc_gen(work, "Gen_Dist", cfg, workers=8)
    if ncases == 0:
        raise vf.ToolingError("Gen_Dist produced no case")
    v.add_mc(r, "gen:Dist")
    step = 6 if q else 2          # a sample of the generated cases (coprime with the six relations' rotation is not needed: ids rotate)
    sub = work.fresh("relcases", ".ndjson")
    with open(sub, "w") as f:
        for k, line in enumerate(open(cases)):
            c = json.loads(line)
            # (all-gaps counting: the mode that must NOT depend on column order, unlike its exempt neighbour - always taken)
            # (sampled by a digest of the case, not by its rank: the ranks of TLC's enumeration are periodic in the options)
            pick = int(hashlib.sha1(line.encode()).hexdigest()[:8], 16) % step == (seed % step)
            if pick or (c["o"]["model"] in ("pdist", "rawdist") and c["o"]["gapmode"] == 2 and c["r"][0] < 0):
                f.write(line)
    trace = vf.drive(work, "dist", cases=sub, n=250 if q else 4000, seed=seed, tier=tier, extra="rel=1", timeout=3000)
    res = vf.tlc_trace(work, "Trace_Dist", trace, cfg=write_cfg(work, "Trace_Dist.cfg", invariants=["Done"]))
    dist_account(v, trace, res, "C08")
    # 3. caller-supplied models failing at the k-th evaluation / row request: the call returns, with the error
    trace = vf.drive(work, "distconc", n=150 if q else 2500, seed=seed, tier=tier, timeout=3000)
    res = vf.tlc_trace(work, "Trace_Dist", trace, cfg="Trace_Dist.cfg")
    dist_account(v, trace, res, "C08")
    # 4. hook logs of free-running executions are behaviours of the protocol
    trace = vf.drive(work, "disttrace", n=40 if q else 400, seed=seed, tier=tier)
    conc_validate(work, v, "Trace_Conc", trace, "DistMatrix protocol", {"DoneOnError": "TRUE"})
    # 5. model -> code: schedules generated by TLC from the protocol are replayed on the real goroutines (every hook a gate)
    sched_replay(work, v, "Gen_DistSched", "distsched", "Trace_Conc", {"DoneOnError": "TRUE"}, 60 if q else 1500, seed, "DistMatrix schedule")
    # 6. race detector
    race_run(work, v, "distconc", 40 if q else 400, seed, "DistMatrix", procs=(1, 4, 16) if q else (1, 2, 4, 8, 16))
    v.assumptions += ["TLC and the CommunityModules evaluate TLA+ correctly", "the Go race detector reports every unordered conflicting access that occurs"]


PIPELINES["C08"] = _c08


def markov_account(v, trace, res):
    simple_account(v, trace, res, "markov", "Trace_Markov", key=lambda e: {"model": e["model"], "p": e["p"], "pi": e["pi"] if len(e["pi"]) == 4 or e["model"] in ("jc", "k2p") else (e["pi"] if not e.get("_model_pi") else [])},
                   sample=lambda e: {"model": e["model"], "parameters": e["p"], "frequencies": e["pi"][:4], "branch_lengths": e.get("ts"), "outcome": e["kind"]},
                   describe=lambda e: {"model": e["model"], "p": e["p"], "pi": e["pi"][:4], "reused_object": e.get("reused"), "msg": e.get("msg", "")})


def _c18(work, v, tier, seed):
    vf.build_driver(work)
    cfg = write_cfg(work, "Gen_Markov_%s.cfg" % tier, spec=None, invariants=["Emit"], constants={"Scope": "quick" if tier == "quick" else "full"})
    cases, n, r = vf.tlc_gen(work, "Gen_Markov", cfg, workers=1)
    if n == 0:
        raise vf.ToolingError("Gen_Markov produced no case")
    v.add_mc(r, "gen:Markov")
    # consecutive cases of one model re-initialise the same object: shuffle deterministically so that parameters really change
    lines = open(cases).read().splitlines()
    # random points of the open simplex (the solver's answer for a repeated eigenvalue depends on the frequencies: about one
    # vector in fifty comes back with a complex-conjugate pair), seeded
    rnd = __import__("random").Random(1000 + seed)
    def simplex():
        x = [rnd.uniform(0.02, 1.0) for _ in range(4)]
        if rnd.random() < 0.2:      # next to a face of the simplex: one frequency of 1e-5 .. 1e-3
            x[rnd.randrange(4)] = 10 ** rnd.uniform(-5, -3)
        t = sum(x)
        x = [a / t for a in x[:3]]
        return [repr(a) for a in x] + [repr(1.0 - sum(x))]
    nf81, nother = (250, 40) if tier == "quick" else (4000, 600)
    for _ in range(nf81):
        lines.append(json.dumps({"model": "f81", "p": [], "pi": simplex()}, separators=(",", ":")))
    for _ in range(nother):
        k1, k2 = repr(rnd.uniform(0.2, 8)), repr(rnd.uniform(0.2, 8))
        if rnd.random() < 0.25:     # slowly mixing chains
            k1 = repr(rnd.uniform(8, 60))
        lines.append(json.dumps({"model": "k2p", "p": [k1], "pi": []}, separators=(",", ":")))
        lines.append(json.dumps({"model": "f84", "p": [k1], "pi": simplex()}, separators=(",", ":")))
        lines.append(json.dumps({"model": "tn93", "p": [k1, k2], "pi": simplex()}, separators=(",", ":")))
        lines.append(json.dumps({"model": "gtr", "p": [repr(rnd.uniform(0.2, 5)) for _ in range(6)], "pi": simplex()}, separators=(",", ":")))
    __import__("random").Random(seed).shuffle(lines)
    open(cases, "w").write("\n".join(lines) + "\n")
    trace = vf.drive(work, "markov", cases=cases, seed=seed, tier=tier)
    res = vf.tlc_trace(work, "Trace_Markov", trace, cfg=write_cfg(work, "Trace_Markov.cfg", invariants=["Done"]), timeout=3000)
    markov_account(v, trace, res)
    v.assumptions += ["TLC and the CommunityModules evaluate TLA+ correctly", "java.lang.Math exp/pow accurate to 1e-12",
                      "the protein exchangeabilities are read from the exported matrices of the code under test"]


PIPELINES["C18"] = _c18
SIMPLE_REPLAY["markov"] = ("Trace_Markov", markov_account)


def weights_account(v, trace, res):
    simple_account(v, trace, res, "weights", "Trace_Weights", key=lambda e: {k: e.get(k) for k in ("t", "what", "L", "seed", "alphas", "alpha", "n", "ncat", "total")},
                   sample=lambda e: {k: e.get(k) for k in ("t", "what", "L", "seed", "alpha", "ncat", "kind")},
                   describe=lambda e: {k: e.get(k) for k in ("t", "what", "L", "seed", "alphas", "alpha", "n", "ncat", "total", "msg")})


def _c20(work, v, tier, seed):
    vf.build_driver(work)
    trace = vf.drive(work, "weights", n=60 if tier == "quick" else 1500, seed=seed, tier=tier, env=cli_env(work, 3))
    res = vf.tlc_trace(work, "Trace_Weights", trace, cfg=write_cfg(work, "Trace_Weights.cfg", invariants=["Done"]), timeout=3000)
    weights_account(v, trace, res)
    v.assumptions += ["TLC and the CommunityModules evaluate TLA+ correctly", "java.lang.Math exp/log accurate to 1e-12",
                      "lnGamma(alpha) is the value the caller passes to the routine (math.Lgamma)"]


PIPELINES["C20"] = _c20


def prot_account(v, trace, res):
    simple_account(v, trace, res, "protdist", "Trace_ProtDist",
                   key=lambda e: {k: e.get(k) for k in ("t", "rows", "model", "modelfreqs", "gamma", "alpha", "rmgaps", "wts", "what")},
                   sample=lambda e: {"rows": [_s(r) for r in e["rows"]][:3], "model": e["model"], "model_frequencies": e["modelfreqs"], "gamma": e["gamma"],
                                     "rmgaps": e["rmgaps"], "outcome": e.get("kind", e.get("what"))},
                   describe=lambda e: {"model": e["model"], "modelfreqs": e["modelfreqs"], "gamma": e["gamma"], "alpha": e["alpha"], "rmgaps": e["rmgaps"],
                                       "rows": [_s(r) for r in e["rows"]], "D": e.get("D"), "what": e.get("what"), "msg": e.get("msg", "")})


def _c17(work, v, tier, seed):
    vf.build_driver(work)
    trace = vf.drive(work, "protdist", n=80 if tier == "quick" else 1500, seed=seed, tier=tier, timeout=3000, env=cli_env(work, 1))
    ncli = sum(1 for l in open(trace) if ':cli"' in l)
    if ncli == 0:
        raise vf.ToolingError("no protein distance case was asked of the command line")
    v.notes.append("command-line front: %d matrices printed by `goalign compute distance` (protein models) judged like the library's" % ncli)
    res = vf.tlc_trace(work, "Trace_ProtDist", trace, cfg=write_cfg(work, "Trace_ProtDist.cfg", invariants=["Done"]), timeout=6000)
    prot_account(v, trace, res)
    v.assumptions += ["TLC and the CommunityModules evaluate TLA+ correctly", "java.lang.Math exp/log/pow accurate to 1e-12",
                      "the eigen-system logged is the one the model uses (read through reflection, not recomputed)"]


PIPELINES["C17"] = _c17


def phase_account(v, trace, res):
    simple_account(v, trace, res, "phase", "Trace_Phase", key=lambda e: {k: e.get(k) for k in ("t", "seqs", "refs", "o", "cpus", "reverse")},
                   sample=lambda e: {"event": e["t"], "reads": len(e["seqs"]), "references": len(e.get("refs", [])), "options": e.get("o"), "workers": e.get("cpus"), "outcome": e.get("kind")},
                   describe=lambda e: {"event": e["t"], "seqs": [_s(x) for x in e["seqs"]], "refs": [_s(x) for x in e.get("refs", [])], "o": e.get("o"), "cpus": e.get("cpus"),
                                       "msg": e.get("msg", ""), "results": [{k: (_s(r[k]) if k in ("nt", "codon", "aa") else r[k]) for k in r} for r in e.get("results", [])][:6]})


def _c16(work, v, tier, seed):
    vf.build_driver(work)
    q = tier == "quick"
    cfg = write_cfg(work, "MC_PhaseConc_%s.cfg" % tier, spec="Spec", props=["StreamClosed", "FeederFinishes"],
                    invariants=["NoSendAfterClose", "OneResultEach", "NoDuplicate", "ErrorDelivered", "ErrorSeen"],
                    constants={"MaxSeqs": 3 if q else 4, "MaxWorkers": 2 if q else 3, "SignalOnFail": "TRUE"})
    v.add_mc(vf.tlc_mc(work, "MC_PhaseConc", cfg, workers=8, timeout=3000, coverage=True), "mc:PhaseConc")
    cfg2 = write_cfg(work, "MC_PhaseConc_sanity.cfg", spec="Spec", props=["StreamClosed"], constants={"MaxSeqs": 2, "MaxWorkers": 2, "SignalOnFail": "FALSE"})
    r = vf.run_tlc(work, "MC_PhaseConc", cfg2, workers=4, timeout=600)
    if "StreamClosed" not in r.out or "violated" not in r.out:
        raise vf.ToolingError("sanity: a worker that forgets the WaitGroup on its error path should violate StreamClosed")
    trace = vf.drive(work, "phase", n=35 if q else 1200, seed=seed, tier=tier, timeout=3000, env=cli_env(work, 1 if q else 2))
    ncli = sum(1 for l in open(trace) if ':cli' in l)
    if ncli == 0:
        raise vf.ToolingError("no phasing case was run through the command line")
    v.notes.append("command-line front: %d events from `goalign phasent --unaligned` / `goalign orf` judged like the library's" % ncli)
    res = vf.tlc_trace(work, "Trace_Phase", trace, cfg=write_cfg(work, "Trace_Phase.cfg", invariants=["Done"]), timeout=3000)
    phase_account(v, trace, res)
    trace = vf.drive(work, "phconc", n=40 if q else 400, seed=seed, tier=tier, timeout=3000)
    conc_validate(work, v, "Trace_PhaseConc", trace, "Phase protocol", {"SignalOnFail": "TRUE"})
    # model -> code: schedules generated by TLC from the protocol, replayed on the real goroutines and the real consumer
    sched_replay(work, v, "Gen_PhaseSched", "phsched", "Trace_PhaseConc", {"SignalOnFail": "TRUE"}, 50 if q else 1200, seed, "Phase schedule")
    race_run(work, v, "phconc", 30 if q else 300, seed, "Phase", procs=(1, 4, 16) if q else (1, 2, 4, 8, 16))
    v.assumptions += ["TLC and the CommunityModules evaluate TLA+ correctly", "the Go race detector reports every unordered conflicting access that occurs"]


PIPELINES["C16"] = _c16


def _c11(work, v, tier, seed):
    import cli
    cfg = write_cfg(work, "Gen_Runs_%s.cfg" % tier, spec=None, invariants=["Emit"], constants={"NCmds": len(cli.CMDS), "Scope": "quick" if tier == "quick" else "full"})
    cases, n, r = vf.tlc_gen(work, "Gen_Runs", cfg, workers=4)
    if n == 0:
        raise vf.ToolingError("Gen_Runs produced no descriptor")
    v.add_mc(r, "gen:Runs")
    desc = [json.loads(l) for l in open(cases)]
    desc.sort(key=lambda d: (d["rep"], d["threads"], d["cmd"], d["seed"]))
    trace, nev = cli.run_history(work, v, desc, tier)
    res = vf.tlc_trace(work, "Trace_Runs", trace, cfg=write_cfg(work, "Trace_Runs.cfg", invariants=["Done"]))
    evs = vf.read_events(trace)
    for e in evs:
        v.count_case(vf.digest([e["key"], e.get("threads"), e.get("rep"), e.get("procs")]))
        v.sample({"command": e["what"], "threads": e.get("threads"), "output_digest": e["out"]})
    v.add_trace(res, 1, "trace:Trace_Runs")
    for b in res.get("bad", []):
        e = evs[b["i"] - 1]
        first = evs[b["first"] - 1] if b.get("first") else None
        desc = {"op": e["key"].split("/")[0], "failing": sorted(b["failing"]), "kind": e["kind"], "command": e["what"],
                "first_command": first["what"] if first else None, "out": e["out"], "first_out": first["out"] if first else None}
        if os.environ.get("VERIF_DEBUG"):
            vf.log("bad: %s" % json.dumps(desc))
        v.finding(desc, {"family": "cli", "commands": [first["what"] if first else None, e["what"]]})
    v.notes.append("%d keys, %d runs" % (res.get("keys", 0), nev))
    v.assumptions += ["TLC and the CommunityModules evaluate TLA+ correctly", "byte equality is observed through SHA-1 digests"]


PIPELINES["C11"] = _c11
