"""Command-line runs of the goalign binary built from /repo (property C11).

The command table below lists representative invocations of the documented commands; 'seed' marks the commands that
draw random numbers (their key includes the seed), every command receives --threads.  A run executes in a fresh scratch
directory holding copies of the input files; its output is the digest of stdout plus every file it created."""
import hashlib
import json
import os
import random
import shutil
import subprocess
import time

import vf

# (name, arguments, uses the seed, extra)
CMDS = [
    ("random-nt", "random -n 6 -l 50", True),
    ("random-aa", "random -a -n 4 -l 30", True),
    ("shuffle-seqs", "shuffle seqs -i in.fa", True),
    ("shuffle-sites", "shuffle sites -i in.fa -r 0.5", True),
    ("shuffle-sites-rogue", "shuffle sites -i in.fa -r 0.5 --rogue 0.5 --rogue-file rogues.txt", True),
    ("shuffle-recomb", "shuffle recomb -i in.fa -n 0.5 -l 0.5", True),
    ("shuffle-rogue", "shuffle rogue -i in.fa -n 0.5 -l 0.5 --rogue-file rogues.txt", True),
    ("shuffle-swap", "shuffle swap -i in.fa -r 0.5", True),
    ("sample-seqs", "sample seqs -i in.fa -n 3", True),
    ("sample-sites", "sample sites -i in.fa -l 10 -n 2", True),
    ("sample-sites-scattered", "sample sites -i in.fa -l 10 --consecutive=false", True),
    ("sample-rarefy", "sample rarefy -i in.fa -c counts.txt -n 5 -r 2", True),
    ("mutate-snvs", "mutate snvs -i in.fa -r 0.1", True),
    ("mutate-gaps", "mutate gaps -i in.fa -n 0.5 -r 0.2", True),
    ("seqboot", "build seqboot -i gaps.fa -n 3 -o boot_", True),
    ("seqboot-shuf", "build seqboot -i gaps.fa -n 2 -S -o boot_", True),
    ("seqboot-frac", "build seqboot -i gaps.fa -n 2 -f 0.5 -o boot_", True),
    ("seqboot-tar", "build seqboot -i gaps.fa -n 2 --tar -o boot", True),
    ("distboot", "build distboot -i gaps.fa -n 3 -m k2p -o dist.txt", True),
    ("distboot-f81", "build distboot -i gaps.fa -n 2 -m f81 -r -o dist.txt", True),
    ("weightboot", "build weightboot -i in.fa -n 2", True),
    ("distance-k2p", "compute distance -i gaps.fa -m k2p", False),
    ("distance-f81-gamma", "compute distance -i gaps.fa -m f81 --alpha 0.5", False),
    ("distance-pdist-gaps", "compute distance -i gaps.fa -m pdist --gap-mut 1", False),
    ("distance-tn93-rmgaps", "compute distance -i gaps.fa -m tn93 -r", False),
    ("distance-saturated", "compute distance -i sat.fa -m jc", False),
    ("consensus", "consensus -i ties.fa", False),
    ("stats", "stats -i gaps.fa", False),
    ("stats-maxchar", "stats maxchar -i ties.fa", False),
    ("stats-char", "stats char -i gaps.fa", False),
    ("entropy", "compute entropy -i gaps.fa", False),
    ("pssm", "compute pssm -i gaps.fa -n 1", False),
    ("dedup", "dedup -i ties.fa", False),
    ("clean-sites", "clean sites -i gaps.fa -c 0.2", False),
    ("clean-seqs", "clean seqs -i gaps.fa -c 0.3", False),
    ("compress", "compress -i ties.fa", False),
    ("reformat-phylip", "reformat phylip -i in.fa", False),
    ("reformat-nexus", "reformat nexus -i in.fa", False),
    ("reformat-clustal", "reformat clustal -i in.fa", False),
    ("translate", "translate -i in.fa --phase -1", False),
    ("revcomp", "revcomp -i in.fa", False),
    ("sort", "sort -i in.fa", False),
    ("transpose", "transpose -i ties.fa", False),
    ("unalign", "unalign -i gaps.fa", False),
    ("subseq", "subseq -i in.fa -s 2 -l 10", False),
    ("mask", "mask -i in.fa -s 3 -l 5", False),
    ("diff", "diff -i ties.fa", False),
    ("orf", "orf -i reads.fa", False),
    ("orf-reverse", "orf -i reads.fa --reverse", False),
    ("phase", "phase -i reads.fa --unaligned -o phased.fa --aa-output phased_aa.fa -l phase.log", False),
    ("phase-reverse", "phase -i reads.fa --unaligned --reverse --cut-end", False),
    ("phasent", "phasent -i reads.fa --unaligned -o phased.fa -l phase.log", False),
    ("sw", "sw -i pair.fa", False),
    ("trim-name-map", "trim name -i in.fa -n 3 -m map.txt", False),
    ("trim-name-auto-map", "trim name -i in.fa -a -m map.txt", False),
    ("rename-regexp-map", "rename -i in.fa --regexp Seq --replace S -m map.txt", False),
    ("dedup-log", "dedup -i ties.fa -l dedup.log", False),
    ("clean-sites-positions", "clean sites -i gaps.fa -c 0.2 --positions kept.txt --positions-rm rm.txt", False),
    ("compress-weights", "compress -i ties.fa --weight-out w.txt", False),
    ("distance-lg", "compute distance -i aagaps.fa -m lg", False),
    ("distance-jtt-rmgaps-gamma", "compute distance -i aagaps.fa -m jtt -r --alpha 0.8", False),
    ("distboot-lg", "build distboot -i aagaps.fa -n 2 -m lg -r -o dist.txt", True),
    # compressed outputs: the container (gzip / xz header) is part of the bytes a user compares
    ("revcomp-gz", "revcomp -i in.fa -o out.fa.gz", False),
    ("distance-gz", "compute distance -i gaps.fa -m k2p -o dist.txt.gz", False),
    ("reformat-phylip-xz", "reformat phylip -i in.fa -o out.phy.xz", False),
    ("shuffle-seqs-gz", "shuffle seqs -i in.fa -o out.fa.gz", True),
    # a Phylip file holding 40 alignments: each is handled in turn while the reader goes on with the next
    ("reformat-multi", "reformat phylip -p -i multi.phy", False),
    ("reformat-multi-oneline", "reformat phylip -p -i multi.phy --one-line --no-block", False),
    ("reformat-multi-fasta", "reformat fasta -p -i multi.phy", False),
    ("consensus-multi", "consensus -p -i multi.phy", False),
    ("revcomp-multi", "revcomp -p -i multi.phy", False),
]
NAMES = [c[0] for c in CMDS]


def build_cli(work):
    out = work.path("goalign")
    r = subprocess.run(["go", "build", "-o", out, "."], cwd=vf.REPO, env=vf.goenv(), capture_output=True, text=True)
    if r.returncode != 0:
        raise vf.ToolingError("goalign does not build:\n" + r.stderr[-3000:])
    return out


def run_cli(binary, args, cwd, timeout=120):
    try:
        r = subprocess.run([binary] + args, cwd=cwd, capture_output=True, timeout=timeout)
    except subprocess.TimeoutExpired:
        return None, b"", b"timeout"
    return r.returncode, r.stdout, r.stderr


def make_inputs(work, binary):
    """Input files, written once: alignments produced by goalign itself with fixed seeds plus hand-made ones."""
    d = work.path("inputs")
    os.makedirs(d, exist_ok=True)

    def gen(name, args):
        rc, out, err = run_cli(binary, args, d)
        if rc != 0:
            raise vf.ToolingError("cannot create input %s: %s" % (name, err.decode()[-500:]))
        open(os.path.join(d, name), "wb").write(out)
    gen("in.fa", ["random", "-n", "8", "-l", "60", "--seed", "11"])
    gen("gaps.fa", ["mutate", "gaps", "-i", "in.fa", "-n", "0.8", "-r", "0.15", "--seed", "3"])
    gen("aagaps.fa", ["translate", "-i", "gaps.fa", "--phase", "0"])
    multi = b""
    for k in range(40):
        rc, out, err = run_cli(binary, ["random", "-n", str(3 + k % 4), "-l", str(30 + 7 * (k % 5)), "--seed", str(100 + k), "-p"], d)
        if rc != 0:
            raise vf.ToolingError("cannot create input multi.phy: %s" % err.decode()[-500:])
        multi += out
    open(os.path.join(d, "multi.phy"), "wb").write(multi)
    rng = random.Random(5)
    ties = ["ACGTACGTAAC", "ACGTACGTAAC", "CCGTTCGAAAC", "CCGTTCGAAAG", "AAGTACGTTTG", "AAGTACGTTTG"]
    open(os.path.join(d, "ties.fa"), "w").write("".join(">t%d\n%s\n" % (i, s) for i, s in enumerate(ties)))
    # a saturated pair (JC: more than 3/4 of differing sites) next to ordinary ones
    sat = ["A" * 20, "C" * 16 + "A" * 4, "A" * 18 + "CC", "A" * 10 + "G" * 10]
    open(os.path.join(d, "sat.fa"), "w").write("".join(">s%d\n%s\n" % (i, s) for i, s in enumerate(sat)))
    orf = "ATG" + "".join(rng.choice(["GCT", "AAA", "GAT", "CTG", "TTC", "CCA", "GGT", "CAC"]) for _ in range(14)) + "TAA"
    reads = []
    for i in range(40):
        cp = list(orf)
        for _ in range(rng.randint(0, 3)):
            cp[rng.randint(3, len(cp) - 4)] = rng.choice("ACGT")
        reads.append("".join(rng.choice("ACGT") for _ in range(rng.randint(0, 15))) + "".join(cp) + "".join(rng.choice("ACGT") for _ in range(rng.randint(0, 15))))
    open(os.path.join(d, "reads.fa"), "w").write("".join(">r%02d\n%s\n" % (i, s) for i, s in enumerate(reads)))
    open(os.path.join(d, "pair.fa"), "w").write(">a\n%s\n>b\n%s\n" % (reads[0], reads[1]))
    names = [l[1:].strip() for l in open(os.path.join(d, "in.fa")) if l.startswith(">")]
    open(os.path.join(d, "counts.txt"), "w").write("".join("%s\t%d\n" % (n, 1 + i % 3) for i, n in enumerate(names)))
    return d


def digest_run(stdout, cwd, inputs):
    h = hashlib.sha1()
    h.update(b"stdout\0" + stdout)
    files = []
    for root, _, fs in os.walk(cwd):
        for f in sorted(fs):
            p = os.path.join(root, f)
            rel = os.path.relpath(p, cwd)
            if rel in inputs:
                continue
            files.append(rel)
            h.update(b"\0file\0" + rel.encode() + b"\0" + open(p, "rb").read())
    return h.hexdigest()[:16], sorted(files)


def execute(work, binary, inputs_dir, args, tag, procs=None):
    """Runs one command line in a fresh directory; returns (kind, digest, stdout, files, cwd)."""
    cwd = work.fresh("run", "")
    shutil.copytree(inputs_dir, cwd)
    inputs = set(os.listdir(inputs_dir))
    env = dict(os.environ)
    if procs:
        env["GOMAXPROCS"] = str(procs)
    try:
        r = subprocess.run([binary] + args, cwd=cwd, capture_output=True, timeout=180, env=env)
    except subprocess.TimeoutExpired:
        shutil.rmtree(cwd, ignore_errors=True)
        return "hang", "", b"", [], None
    dg, files = digest_run(r.stdout, cwd, inputs)
    kind = "ok" if r.returncode == 0 else "exit%d" % r.returncode
    return kind, dg, r.stdout, files, cwd


def run_history(work, v, descriptors, tier):
    binary = build_cli(work)
    ind = make_inputs(work, binary)
    out = work.fresh("runs", ".ndjson")
    n = 0
    with open(out, "w") as f:
        def emit(key, kind, dg, what, **kw):
            nonlocal n
            n += 1
            e = {"key": key, "out": dg, "kind": kind, "what": what}
            e.update(kw)
            f.write(json.dumps(e, separators=(",", ":")) + "\n")
        lastsec = {}
        for d in descriptors:
            name, argstr, seeded = CMDS[d["cmd"] - 1]
            args = argstr.split() + ["-t", str(d["threads"])]
            key = name
            if seeded:
                args += ["--seed", str(d["seed"])]
                key += "/seed=%d" % d["seed"]
            elif d["seed"] != descriptors[0]["seed"] and d["rep"] > 1:
                continue      # commands without randomness: the seed is not an input; fewer repetitions are enough
            procs = [None, 1, 4][(d["rep"] + d["threads"]) % 3]
            if (name == "seqboot-tar" or name.endswith("-gz") or name.endswith("-xz")) and d["rep"] > 1:
                # archive members / compressed containers can carry a time stamp with a resolution of one second:
                # the repetition runs in another second than the previous run of the same command
                while int(time.time()) == lastsec.get(key, 0):
                    time.sleep(0.05)
            lastsec[key] = int(time.time())
            kind, dg, so, files, cwd = execute(work, binary, ind, args, name, procs)
            emit(key, kind, dg, " ".join(args), threads=d["threads"], rep=d["rep"], procs=procs or 0, files=files)
            if cwd:
                shutil.rmtree(cwd, ignore_errors=True)
        # equivalences ------------------------------------------------------------------------------------
        seeds = sorted({d["seed"] for d in descriptors})
        for s in seeds:
            # (a) distance matrices of the seeded bootstrap alignments = build distboot with the same seed
            for (model, extra) in (("k2p", []), ("k2p", ["-r"]), ("jc", ["-r"]), ("f81", ["-r"]), ("tn93", ["-r"]), ("f84", []), ("lg", []), ("lg", ["-r"]), ("jtt", ["-r"])):
                src = "aagaps.fa" if model in ("lg", "jtt") else "gaps.fa"
                kind, dg, so, files, cwd = execute(work, binary, ind, ["build", "seqboot", "-i", src, "-n", "3", "-o", "boot_", "--seed", str(s)], "seqboot")
                parts = b""
                ok = kind == "ok"
                if ok:
                    for bf in sorted(x for x in files if x.startswith("boot_")):
                        rc, o2, e2 = run_cli(binary, ["compute", "distance", "-i", bf, "-m", model] + extra, cwd)
                        ok = ok and rc == 0
                        parts += o2
                if cwd:
                    shutil.rmtree(cwd, ignore_errors=True)
                kind2, dg2, so2, files2, cwd2 = execute(work, binary, ind, ["build", "distboot", "-i", src, "-n", "3", "-m", model, "--seed", str(s)] + extra, "distboot")
                if cwd2:
                    shutil.rmtree(cwd2, ignore_errors=True)
                k = "bootdist/%s%s/seed=%d" % (model, "".join(extra), s)
                emit(k, "ok" if ok else "failed", hashlib.sha1(parts).hexdigest()[:16], "build seqboot --seed %d ; compute distance -m %s %s per replicate" % (s, model, " ".join(extra)))
                emit(k, kind2, hashlib.sha1(so2).hexdigest()[:16], "build distboot -m %s %s --seed %d" % (model, " ".join(extra), s))
        # (b) reformat cycles return to the first file
        first = open(os.path.join(ind, "in.fa"), "rb").read()
        rc, canon, _ = run_cli(binary, ["reformat", "fasta", "-i", "in.fa"], ind)
        emit("cycle/in.fa", "ok" if rc == 0 else "failed", hashlib.sha1(canon).hexdigest()[:16], "reformat fasta -i in.fa")
        chains = [["phylip", "fasta"], ["nexus", "fasta"], ["clustal", "fasta"], ["phylip", "nexus", "clustal", "fasta"], ["nexus", "phylip", "fasta"]]
        flag = {"fasta": [], "phylip": ["-p"], "nexus": ["-x"], "clustal": ["-u"]}
        # the same cycles on a protein alignment with stop codons ('*'), produced by goalign translate
        rc, aa, _ = run_cli(binary, ["translate", "-i", "in.fa", "--phase", "0"], ind)
        emit("cycle/aa", "ok" if rc == 0 and b"*" in aa else "failed", hashlib.sha1(aa).hexdigest()[:16], "translate -i in.fa --phase 0")
        for ch in chains:
            cur, curfmt, ok = aa, "fasta", True
            cwd = work.fresh("cyc", "")
            os.makedirs(cwd)
            for fmt in ch:
                open(os.path.join(cwd, "cur"), "wb").write(cur)
                rc, cur, _ = run_cli(binary, ["reformat", fmt, "-i", "cur"] + flag[curfmt], cwd)
                ok = ok and rc == 0
                curfmt = fmt
            shutil.rmtree(cwd, ignore_errors=True)
            emit("cycle/aa", "ok" if ok else "failed", hashlib.sha1(cur).hexdigest()[:16], "translate ; reformat " + " -> ".join(ch))
        # ... and on a protein alignment whose FIRST row is written with letters that are nucleotide codes too: what a
        # reader decides from the first row alone (alphabet, hence the datatype of a Nexus header) must not change the data
        aa2 = b">p0\nMKTAYGHSVW\n>p1\nMKTEYGLSVW\n>p2\nMQTAYGHPVF\n"
        open(os.path.join(ind, "aa2.fa"), "wb").write(aa2)
        rc, canon2, _ = run_cli(binary, ["reformat", "fasta", "-i", "aa2.fa"], ind)
        emit("cycle/aa2", "ok" if rc == 0 else "failed", hashlib.sha1(canon2).hexdigest()[:16], "reformat fasta -i aa2.fa")
        for ch in chains + [["clustal", "nexus", "fasta"], ["clustal", "clustal", "fasta"], ["nexus", "clustal", "nexus", "fasta"]]:
            cur, curfmt, ok = canon2, "fasta", True
            cwd = work.fresh("cyc", "")
            os.makedirs(cwd)
            for fmt in ch:
                open(os.path.join(cwd, "cur"), "wb").write(cur)
                rc, cur, _ = run_cli(binary, ["reformat", fmt, "-i", "cur"] + flag[curfmt], cwd)
                ok = ok and rc == 0
                curfmt = fmt
            shutil.rmtree(cwd, ignore_errors=True)
            emit("cycle/aa2", "ok" if ok else "failed", hashlib.sha1(cur).hexdigest()[:16], "aa2.fa ; reformat " + " -> ".join(ch))
        # a file of 40 Phylip alignments written by goalign comes back byte for byte, also through the one-line layout
        multi = open(os.path.join(ind, "multi.phy"), "rb").read()
        emit("cycle/multi", "ok", hashlib.sha1(multi).hexdigest()[:16], "multi.phy (40 alignments written by goalign random -p)")
        rc, back, _ = run_cli(binary, ["reformat", "phylip", "-p", "-i", "multi.phy"], ind)
        emit("cycle/multi", "ok" if rc == 0 else "failed", hashlib.sha1(back).hexdigest()[:16], "reformat phylip -p -i multi.phy")
        cwd = work.fresh("cyc", "")
        os.makedirs(cwd)
        rc1, one, _ = run_cli(binary, ["reformat", "phylip", "-p", "-i", os.path.join(ind, "multi.phy"), "--one-line", "--no-block"], cwd)
        open(os.path.join(cwd, "one.phy"), "wb").write(one)
        rc2, back2, _ = run_cli(binary, ["reformat", "phylip", "-p", "-i", "one.phy"], cwd)
        shutil.rmtree(cwd, ignore_errors=True)
        emit("cycle/multi", "ok" if rc1 == 0 and rc2 == 0 else "failed", hashlib.sha1(back2).hexdigest()[:16], "reformat phylip -p --one-line --no-block ; reformat phylip -p")
        for ch in chains:
            cur, curfmt, ok = canon, "fasta", True
            cwd = work.fresh("cyc", "")
            os.makedirs(cwd)
            for fmt in ch:
                open(os.path.join(cwd, "cur"), "wb").write(cur)
                rc, cur, _ = run_cli(binary, ["reformat", fmt, "-i", "cur"] + flag[curfmt], cwd)
                ok = ok and rc == 0
                curfmt = fmt
            shutil.rmtree(cwd, ignore_errors=True)
            emit("cycle/in.fa", "ok" if ok else "failed", hashlib.sha1(cur).hexdigest()[:16], "reformat " + " -> ".join(ch))
    return out, n
