"""Common machinery of the goalign model-based verification framework.

Pipeline pieces (all run offline, from /repo's current working tree):
  Work        scratch directory under /verif/.work/<pid> (removed on exit), private copy of spec/
  build_driver  go build -tags verif of /verif/harness against /repo
  tlc_mc      exhaustive TLC run of a bounded model (lemmas / invariants of the specification)
  tlc_gen     TLC as case generator: collects the JSON lines printed by a Gen_* specification
  drive       runs the Go driver on generated cases and/or its own seeded workloads -> ndjson trace
  tlc_trace   validates a trace with a Trace_* specification -> RESULT record
  Verdict     classification against known_findings.json, replay files, evidence, exit code

Verdict discipline: a VIOLATION is only ever derived from events logged by the real code; any
tooling problem (TLC crash, driver build failure, timeout of the tooling, a false lemma of the
specification) is exit 2.
"""
import hashlib
import json
import os
import re
import shutil
import subprocess
import sys
import time

VERIF = os.path.dirname(os.path.dirname(os.path.abspath(__file__)))
REPO = os.environ.get("VERIF_REPO", "/repo")
SPEC = os.path.join(VERIF, "spec")
HARNESS = os.path.join(VERIF, "harness")
TLA_JAR = "/opt/veriftools/tla/tla2tools.jar"
CM_JAR = "/opt/veriftools/tla/CommunityModules-deps.jar"
GOENV = {"GOFLAGS": "-mod=mod", "GOPROXY": "off", "GOSUMDB": "off", "GOTOOLCHAIN": "local"}


class ToolingError(Exception):
    pass


class LibraryCrash(Exception):
    """The driver process died of a Go panic raised INSIDE the code under test, in a goroutine the harness cannot
    protect with recover() (a worker the library started itself): real behaviour of the code - a verdict, not a tooling
    problem.  A panic whose first frames are the harness's own stays a tooling error."""
    def __init__(self, family, text):
        Exception.__init__(self, text)
        self.family, self.text = family, text


def library_panic(stderr):
    """The text of the panic when the stack of the dying goroutine starts in the code under test, else None."""
    i = stderr.find("panic: ")
    if i < 0:
        return None
    tail = stderr[i:]
    frames = [l.strip() for l in tail.splitlines() if re.match(r"^[A-Za-z0-9_./\-]+(\.\(\*?\w+\))?\.[\w.]+\(", l.strip())]
    frames = [f for f in frames if not f.startswith(("panic(", "runtime.", "created by"))]
    if frames and frames[0].startswith("github.com/evolbioinfo/goalign/") and "/verifhook" not in frames[0]:
        return tail[:1500]
    return None


def log(*a):
    print("[check]", *a, file=sys.stderr, flush=True)


class Work:
    def __init__(self, tag):
        self.dir = os.path.join(VERIF, ".work", "%s-%d" % (tag, os.getpid()))
        if os.path.exists(self.dir):
            shutil.rmtree(self.dir)
        os.makedirs(self.dir)
        self.spec = os.path.join(self.dir, "spec")
        shutil.copytree(SPEC, self.spec, ignore=shutil.ignore_patterns("states", "*.old", "*TTrace*"))
        for mod in ("F64",):
            cls = os.path.join(self.spec, mod + ".class")
            src = os.path.join(self.spec, mod + ".java")
            if not os.path.exists(cls) or os.path.getmtime(cls) < os.path.getmtime(src):
                r = subprocess.run(["javac", "-cp", TLA_JAR, "-d", self.spec, src], capture_output=True, text=True)
                if r.returncode != 0:
                    raise ToolingError("javac failed: " + r.stderr)
        self.driver = None
        self.n = 0

    def path(self, name):
        return os.path.join(self.dir, name)

    def fresh(self, prefix, suffix=""):
        self.n += 1
        return os.path.join(self.dir, "%s%d%s" % (prefix, self.n, suffix))

    def cleanup(self):
        shutil.rmtree(self.dir, ignore_errors=True)
        try:
            os.rmdir(os.path.join(VERIF, ".work"))
        except OSError:
            pass


def goenv():
    env = dict(os.environ)
    env.update(GOENV)
    return env


def build_driver(work, race=False, name="driver"):
    """Builds the harness against the current /repo tree with the verif hooks enabled."""
    src_sum = os.path.join(REPO, "go.sum")
    dst_sum = os.path.join(HARNESS, "go.sum")
    try:
        if open(src_sum).read() != (open(dst_sum).read() if os.path.exists(dst_sum) else None):
            shutil.copy(src_sum, dst_sum)
    except OSError as e:
        raise ToolingError("cannot sync go.sum: %s" % e)
    out = work.path(name)
    cmd = ["go", "build", "-tags", "verif"]
    if race:
        cmd.append("-race")
    cmd += ["-o", out, "."]
    t0 = time.time()
    hdir = HARNESS
    if REPO != "/repo":
        # (VERIF_REPO: a scratch copy of the tree, used when trying seeded changes without touching /repo) the harness
        # module is copied next to the driver with its replace directive pointing at that copy
        hdir = work.path("harness_src")
        if not os.path.isdir(hdir):
            shutil.copytree(HARNESS, hdir)
            gm = os.path.join(hdir, "go.mod")
            text = open(gm).read().replace("=> /repo", "=> " + REPO)
            open(gm, "w").write(text)
    r = subprocess.run(cmd, cwd=hdir, env=goenv(), capture_output=True, text=True)
    if r.returncode != 0:
        raise ToolingError("driver build failed (does /repo compile?):\n" + r.stderr[-4000:])
    log("driver built in %.1fs%s" % (time.time() - t0, " (race)" if race else ""))
    if not race:
        work.driver = out
    return out


_STATES_RE = re.compile(r"(\d+) states generated, (\d+) distinct states found")


class TlcResult:
    def __init__(self, out, rc, wall):
        self.out = out
        self.rc = rc
        self.wall = wall
        m = None
        for m in _STATES_RE.finditer(out):
            pass
        self.generated = int(m.group(1)) if m else 0
        self.distinct = int(m.group(2)) if m else 0
        self.ok = "Model checking completed. No error has been found." in out or \
                  "Finished simulating" in out or "The number of states generated" in out

    def printed(self):
        """JSON values printed with PrintT(ToJson(..)) or PrintT(<<"TAG", ToJson(..)>>)."""
        res = []
        for line in self.out.splitlines():
            line = line.strip()
            if line.startswith('"') and line.endswith('"') and len(line) > 2 and line[1] in "[{":
                try:
                    res.append((None, json.loads(json.loads(line))))
                except ValueError:
                    pass
            elif line.startswith('<<"') and line.endswith('">>'):
                m = re.match(r'<<"([A-Za-z0-9_]+)", (".*")>>$', line)
                if m:
                    try:
                        res.append((m.group(1), json.loads(json.loads(m.group(2)))))
                    except ValueError:
                        pass
        return res


def run_tlc(work, module, cfg=None, env=None, workers=1, timeout=600, simulate=None, depth=None, seed=None,
            extra=None, heap=None, deadlock=True):
    meta = work.fresh("md")
    jopts = []
    if heap:
        jopts.append("-Xmx%s" % heap)
    jopts.append("-Xss64m")
    cmd = ["java", "-XX:+UseParallelGC"] + jopts + ["-cp", TLA_JAR + ":" + CM_JAR, "tlc2.TLC",
                                                    "-workers", str(workers), "-metadir", meta, "-noGenerateSpecTE"]
    if cfg:
        cmd += ["-config", cfg]
    if not deadlock:
        cmd += ["-deadlock"]
    if simulate is not None:
        cmd += ["-simulate", "num=%d" % simulate]
        if depth:
            cmd += ["-depth", str(depth)]
    if seed is not None:
        cmd += ["-seed", str(seed)]
    if extra:
        cmd += extra
    cmd.append(module + ".tla")
    e = dict(os.environ)
    e.pop("JAVA_TOOL_OPTIONS", None)
    if env:
        e.update({k: str(v) for k, v in env.items()})
    t0 = time.time()
    try:
        r = subprocess.run(cmd, cwd=work.spec, env=e, capture_output=True, text=True, timeout=timeout)
    except subprocess.TimeoutExpired:
        subprocess.run(["pkill", "-f", meta], capture_output=True)
        raise ToolingError("TLC timed out after %ds on %s" % (timeout, module))
    finally:
        shutil.rmtree(meta, ignore_errors=True)
    res = TlcResult(r.stdout + r.stderr, r.returncode, time.time() - t0)
    return res


def tlc_mc(work, module, cfg=None, workers=8, timeout=900, env=None, heap=None, coverage=False):
    """Exhaustive check of a bounded model of the specification.  A counter-example here is a
    defect of the specification (a false lemma), i.e. a tooling error, never a verdict on the code.
    With coverage=True TLC reports how often every action fired; an action that never fired means the
    properties were checked vacuously for it, which is also a tooling error."""
    r = run_tlc(work, module, cfg or module + ".cfg", env=env, workers=workers, timeout=timeout, heap=heap,
                extra=["-coverage", "1"] if coverage else None)
    if "No error has been found" not in r.out:
        raise ToolingError("model checking of %s did not succeed:\n%s" % (module, tail(r.out)))
    if coverage:
        last = {}
        for m in re.finditer(r"<(\w+) line \d+, col \d+ to line \d+, col \d+ of module (\w+)>: (\d+):(\d+)", r.out):
            last[(m.group(2), m.group(1))] = int(m.group(4))
        dead = sorted(a for (mod, a), n in last.items() if n == 0 and a not in ("Init", "Next", "Finished", "Stutter"))
        if dead:
            raise ToolingError("vacuity: actions never taken in %s: %s" % (module, ", ".join(dead)))
        log("coverage %-18s %d actions, all taken" % (module, len(last)))
    log("mc %-24s %8d states %9d generated  %.1fs" % (module, r.distinct, r.generated, r.wall))
    return r


def tail(s, n=3000):
    s = "\n".join(l for l in s.splitlines() if not l.startswith(("Semantic processing", "Parsing file", "Linting of", "Loading ")))
    return s[-n:]


def tlc_gen(work, module, cfg=None, out=None, env=None, workers=4, timeout=900, simulate=None, depth=None,
            seed=None, tag=None, heap=None):
    """Runs a generator specification and writes the JSON values it prints, one per line."""
    r = run_tlc(work, module, cfg or module + ".cfg", env=env, workers=workers, timeout=timeout,
                simulate=simulate, depth=depth, seed=seed, heap=heap)
    if r.rc not in (0,) and "No error has been found" not in r.out and "Finished simulating" not in r.out:
        # simulation mode ends with its own message; anything else with an error is a tooling problem
        if "Error:" in r.out:
            raise ToolingError("generator %s failed:\n%s" % (module, tail(r.out)))
    vals = [v for (t, v) in r.printed() if t == tag]
    out = out or work.fresh("cases", ".ndjson")
    with open(out, "w") as f:
        for v in vals:
            f.write(json.dumps(v, separators=(",", ":")) + "\n")
    log("gen %-23s %8d cases  %8d states  %.1fs" % (module, len(vals), r.distinct, r.wall))
    return out, len(vals), r


def drive(work, family, cases=None, n=0, seed=1, tier="quick", mode="", extra="", timeout=900, out=None,
          driver=None, env=None, ok_rc=(0,)):
    out = out or work.fresh("trace", ".ndjson")
    cmd = [driver or work.driver, family, "-out", out, "-seed", str(seed), "-n", str(n), "-tier", tier]
    if cases:
        cmd += ["-in", cases]
    if mode:
        cmd += ["-mode", mode]
    if extra:
        cmd += ["-extra", extra]
    e = dict(os.environ)
    if env:
        e.update({k: str(v) for k, v in env.items()})
    t0 = time.time()
    try:
        r = subprocess.run(cmd, capture_output=True, text=True, timeout=timeout, env=e)
    except subprocess.TimeoutExpired:
        raise ToolingError("driver %s timed out after %ds" % (family, timeout))
    if r.returncode not in ok_rc:
        lp = library_panic(r.stderr)
        if lp:
            raise LibraryCrash(family, lp)
        raise ToolingError("driver %s exited with %d:\n%s" % (family, r.returncode, r.stderr[-3000:]))
    log("drive %-21s %s  %.1fs" % (family + (":" + mode if mode else ""), r.stderr.strip().splitlines()[-1] if r.stderr.strip() else "", time.time() - t0))
    return out


def drive_resumable(work, family, cases=None, n=0, seed=1, tier="quick", timeout=1800, max_restarts=3000):
    """Runs a family whose cases can kill the driver process (goalign calls os.Exit from inside two lexers; a loop that
    does not read cannot be stopped).  Every case is announced by an 'intent' line; a dangling intent becomes an event of
    kind 'exit' (resp. the driver's own 'hang' event is kept) and the driver is restarted after that case."""
    final = work.fresh("trace", ".ndjson")
    start = 0
    nrestart = 0
    t0 = time.time()
    with open(final, "w") as out:
        while True:
            part = work.fresh("part", ".ndjson")
            cmd = [work.driver, family, "-out", part, "-seed", str(seed), "-n", str(n), "-tier", tier, "-extra", "start=%d" % start]
            if cases:
                cmd += ["-in", cases]
            try:
                r = subprocess.run(cmd, capture_output=True, text=True, timeout=timeout)
            except subprocess.TimeoutExpired:
                raise ToolingError("driver %s timed out after %ds" % (family, timeout))
            if r.returncode == 3:
                raise ToolingError("driver %s failed:\n%s" % (family, r.stderr[-3000:]))
            pending = None
            for line in open(part):
                if not line.strip():
                    continue
                e = json.loads(line)
                if e["kind"] == "intent":
                    if pending is not None:
                        raise ToolingError("two intents in a row in %s" % part)
                    pending = e
                else:
                    out.write(line)
                    pending = None
            os.remove(part)
            if r.returncode == 0 and pending is None:
                break
            nrestart += 1
            if nrestart > max_restarts:
                raise ToolingError("driver %s died more than %d times" % (family, max_restarts))
            if pending is not None:
                pending["kind"] = "exit"
                pending["msg"] = "the process exited inside the parser (exit status %d): %s" % (r.returncode, r.stderr.strip()[-200:])
                out.write(json.dumps(pending, separators=(",", ":")) + "\n")
                start = int(pending["id"].rsplit("#", 1)[1]) + 1
            else:
                # the driver reported a wall-clock hang itself (exit status 4) or died between two cases
                last = e["id"] if r.returncode == 4 else None
                if last is None:
                    raise ToolingError("driver %s exited with %d outside a case:\n%s" % (family, r.returncode, r.stderr[-2000:]))
                start = int(last.rsplit("#", 1)[1]) + 1
    log("drive %-21s %d restart(s)  %.1fs" % (family, nrestart, time.time() - t0))
    return final


def read_events(path):
    evs = []
    with open(path) as f:
        for line in f:
            if line.strip():
                evs.append(json.loads(line))
    return evs


def tlc_trace(work, module, trace, cfg=None, timeout=1800, env=None, heap=None):
    """Validates one ndjson trace; returns the RESULT record printed by the total trace spec."""
    e = {"TRACE": trace}
    if env:
        e.update(env)
    r = run_tlc(work, module, cfg or module + ".cfg", env=e, workers=1, timeout=timeout, heap=heap)
    results = [v for (t, v) in r.printed() if t == "RESULT"]
    if not results:
        raise ToolingError("trace validation with %s produced no RESULT:\n%s" % (module, tail(r.out)))
    res = results[-1]
    nlines = sum(1 for _ in open(trace))
    if res.get("consumed") != nlines:
        raise ToolingError("trace validation consumed %s of %d events" % (res.get("consumed"), nlines))
    log("trace %-21s %8d events %5d bad  %.1fs" % (module, nlines, len(res.get("bad", [])), r.wall))
    res["_states"] = r.distinct
    res["_generated"] = r.generated
    return res


def digest(obj):
    return hashlib.sha1(json.dumps(obj, sort_keys=True, separators=(",", ":")).encode()).hexdigest()[:12]


class Verdict:
    """Collects findings for one property, classifies them, writes evidence and decides the exit code."""

    def __init__(self, prop, tier, seed, level="model_checking"):
        self.prop = prop
        self.tier = tier
        self.seed = seed
        self.level = level
        self.t0 = time.time()
        self.states = 0
        self.transitions = 0
        self.traces = 0
        self.evaluations = 0
        self.distinct = set()
        self.samples = []
        self.violations = []
        self.known_hits = {}
        self.notes = []
        self.assumptions = []
        self.stage_stats = []
        kf = os.path.join(VERIF, "known_findings.json")
        self.known = json.load(open(kf)).get("findings", []) if os.path.exists(kf) else []
        self.known = [k for k in self.known if k.get("property") == prop]

    def add_mc(self, r, name=None):
        self.states += r.distinct
        self.transitions += r.generated
        self.stage_stats.append({"stage": name or "mc", "states": r.distinct, "transitions": r.generated, "wall_s": round(r.wall, 1)})

    def add_trace(self, res, ntraces, name=None):
        self.states += res.get("_states", 0)
        self.transitions += res.get("_generated", 0)
        self.traces += ntraces
        self.stage_stats.append({"stage": name or "trace", "events": res.get("consumed"), "traces": ntraces,
                                 "bad": len(res.get("bad", []))})

    def count_case(self, key, nontrivial=True):
        self.evaluations += 1
        if nontrivial:
            self.distinct.add(key if isinstance(key, str) else digest(key))

    def sample(self, s, limit=4):
        if len(self.samples) < limit:
            self.samples.append(s)

    def match_known(self, desc):
        for k in self.known:
            m = k.get("match", {})
            ok = True
            for f, want in m.items():
                have = desc
                for part in f.split("."):
                    have = have.get(part) if isinstance(have, dict) else None
                if isinstance(want, list) and isinstance(have, list):
                    if sorted(want) != sorted(have):
                        ok = False
                elif have != want:
                    ok = False
            if ok:
                return k
        return None

    def finding(self, desc, replay):
        """desc: dict with at least 'op' and 'failing'; replay: JSON-serialisable reproduction data."""
        k = self.match_known(desc)
        if k is not None:
            self.known_hits.setdefault(k["id"], [k, 0])[1] += 1
            return
        self.violations.append((desc, replay))

    def finish(self, extra_cov=None):
        wall = time.time() - self.t0
        rdir = os.path.join(VERIF, "replays")
        lines = []
        for kid, (k, n) in sorted(self.known_hits.items()):
            lines.append("KNOWN-FINDING: property=%s %s (%d occurrence(s) this run)" % (self.prop, k["what"], n))
        seen = set()
        nviol = 0
        for desc, replay in self.violations:
            sig = digest({k: v for k, v in desc.items() if k in ("op", "failing", "class", "stage")})
            if sig in seen:
                continue
            seen.add(sig)
            nviol += 1
            os.makedirs(rdir, exist_ok=True)
            path = os.path.join(rdir, "%s-%s.json" % (self.prop, sig))
            with open(path, "w") as f:
                json.dump({"property": self.prop, "finding": desc, "replay": replay, "tier": self.tier, "seed": self.seed}, f, indent=1)
            lines.append("VIOLATION property=%s replay=%s" % (self.prop, path))
            log("violation: %s" % json.dumps(desc)[:600])
        cov = {
            "states": self.states, "transitions": self.transitions,
            "traces_validated_against_impl": self.traces,
            "evaluations": self.evaluations, "distinct_nontrivial": len(self.distinct),
            "samples": self.samples or [{"note": "no sample recorded"}],
            "stages": self.stage_stats,
            "rule": "a case is one call (or one generated input) executed on the real goalign code and judged by the TLA+ "
                    "trace specification; distinct = different (operation, arguments, pre-state) digests; trivial = a "
                    "successful no-op on an empty receiver",
        }
        if extra_cov:
            cov.update(extra_cov)
        ev = {"property_id": self.prop, "tier": self.tier, "seed": self.seed, "level": self.level, "coverage": cov,
              "assumptions": self.assumptions, "wall_s": round(wall, 2), "violations": nviol,
              "known_findings_hit": sorted(self.known_hits), "notes": self.notes}
        # (a run against a scratch copy of the tree - a seeded change being tried - says nothing about /repo: its evidence
        # goes next to the scratch files, not into evidence/)
        evdir = os.path.join(VERIF, "evidence") if "VERIF_REPO" not in os.environ else os.path.join(VERIF, ".work", "evidence-scratch")
        os.makedirs(evdir, exist_ok=True)
        with open(os.path.join(evdir, self.prop + ".json"), "w") as f:
            json.dump(ev, f, indent=1)
        for l in lines:
            print(l, flush=True)
        print("%s %s tier=%s seed=%d: %d events judged, %d distinct, %d states, %d violation(s), %.1fs" % (
            "FAIL" if nviol else "PASS", self.prop, self.tier, self.seed, self.evaluations, len(self.distinct),
            self.states, nviol, wall), flush=True)
        return 1 if nviol else 0
