package main

// Family "phase" (property C16): phasing of nucleotide sequences against reference ORFs and the longest-ORF search.
// Inputs are built as the property says: mutated copies of an ORF embedded in random flanks (pairwise distinct lengths,
// so that a sequence is identified by its length in the hook logs).  "phase": functional events and the relation
// "same results for every worker count"; "phconc": per-goroutine hook logs of free-running runs (incl. a failing read).

import (
	"fmt"
	"io"
	"math/rand"
	"os"
	"path/filepath"
	"sort"
	"strconv"
	"strings"
	"time"

	"github.com/evolbioinfo/goalign/align"
	"github.com/evolbioinfo/goalign/io/utils"
)

type phOpts struct {
	Translate bool `json:"translate"`
	Reverse   bool `json:"reverse"`
	Cutend    bool `json:"cutend"`
	Code      int  `json:"code"`
}
type phResult struct {
	I       int    `json:"i"`
	Err     bool   `json:"err"`
	Msg     string `json:"msg"`
	Removed bool   `json:"removed"`
	Pos     int    `json:"pos"`
	Nt      []int  `json:"nt"`
	Codon   []int  `json:"codon"`
	Aa      []int  `json:"aa"`
}
type phEvent struct {
	T       string     `json:"t"`
	ID      string     `json:"id"`
	Seqs    [][]int    `json:"seqs"`
	Refs    [][]int    `json:"refs"`
	O       phOpts     `json:"o"`
	Cpus    int        `json:"cpus"`
	Kind    string     `json:"kind"`
	Msg     string     `json:"msg"`
	Closed  bool       `json:"closed"`
	Results []phResult `json:"results"`
	After   [][]int    `json:"after"`
	Reverse bool       `json:"reverse"`
	Orf     []int      `json:"orf"`
	R1      []phResult `json:"r1"`
	R2      []phResult `json:"r2"`
	Reused  bool       `json:"reused"`
}

func mkBag(seqs [][]int) align.SeqBag {
	sb := align.NewSeqBag(align.NUCLEOTIDS)
	for i, s := range seqs {
		sb.AddSequenceChar(fmt.Sprintf("q%d", i+1), i2b(s), "")
	}
	return sb
}
func bagRows(sb align.SeqBag) [][]int {
	out := [][]int{}
	sb.IterateChar(func(name string, s []uint8) bool {
		out = append(out, b2i(s))
		return false
	})
	return out
}

var phaseTimeout = 30 * time.Second

// the phaser of the previous call and whether the next call uses it again (set by the workload, one call at a time)
var sharedPhaser align.Phaser
var reusePhaser bool

func phaseCall(seqs, refs [][]int, o phOpts, cpus int) phEvent {
	blank := func() phEvent {
		e := phEvent{T: "phase", Seqs: seqs, Refs: refs, O: o, Cpus: cpus, Results: []phResult{}, After: [][]int{}, Orf: []int{}, R1: []phResult{}, R2: []phResult{}}
		if e.Refs == nil {
			e.Refs = [][]int{}
		}
		return e
	}
	done := make(chan phEvent, 1)
	go func() {
		ev := blank()
		defer func() {
			if r := recover(); r != nil {
				ev.Kind, ev.Msg = "panic", fmt.Sprint(r)
			}
			done <- ev
		}()
		sb := mkBag(seqs)
		var rb align.SeqBag
		if len(refs) > 0 {
			rb = align.NewSeqBag(align.NUCLEOTIDS)
			for i, r := range refs {
				rb.AddSequenceChar(fmt.Sprintf("ref%d", i+1), i2b(r), "")
			}
		}
		// every other call is made on the phaser object of an earlier call (options set again, as a caller phasing several
		// files does): nothing of an earlier call - a failure, a closed stream, a cached reference - may reach this one
		ph := sharedPhaser
		if !reusePhaser || ph == nil {
			ph = align.NewPhaser()
		} else {
			ev.Reused = true
		}
		sharedPhaser = ph
		ph.SetTranslate(o.Translate, o.Code)
		ph.SetReverse(o.Reverse)
		ph.SetCutEnd(o.Cutend)
		ph.SetCpus(cpus)
		ch, err := ph.Phase(rb, sb)
		if err != nil {
			ev.Kind, ev.Msg = "err", err.Error()
			return
		}
		for p := range ch {
			r := phResult{Nt: []int{}, Codon: []int{}, Aa: []int{}}
			if p.Err != nil {
				r.Err, r.Msg = true, p.Err.Error()
			} else {
				var k int
				fmt.Sscanf(p.NtSeq.Name(), "q%d", &k)
				r.I, r.Removed, r.Pos = k, p.Removed, p.Position
				r.Nt, r.Codon, r.Aa = b2i(p.NtSeq.SequenceChar()), b2i(p.CodonSeq.SequenceChar()), b2i(p.AaSeq.SequenceChar())
				// (what was copied is now overwritten in the returned objects: the caller owns them - nothing of it may
				// show in the input sequences read back below)
				for _, sq := range []align.Sequence{p.NtSeq, p.CodonSeq, p.AaSeq} {
					if sq != nil {
						b := sq.SequenceChar()
						for j := range b {
							b[j] = '#'
						}
					}
				}
			}
			ev.Results = append(ev.Results, r)
		}
		ev.Closed = true
		ev.After = bagRows(sb)
		ev.Kind = "ok"
		sort.SliceStable(ev.Results, func(a, b int) bool { return ev.Results[a].I < ev.Results[b].I })
	}()
	select {
	case ev := <-done:
		return ev
	case <-time.After(phaseTimeout):
		// the goroutine above stays blocked on the stream: nothing of what it holds is touched here
		ev := blank()
		ev.Kind, ev.Msg = "hang", fmt.Sprintf("the result stream was not closed within %v", phaseTimeout)
		sharedPhaser = nil // (still in use by the blocked call)
		return ev
	}
}

// ---- the command-line front of phasing ----------------------------------------------------------------
func readsFasta(seqs [][]int, prefix string) []byte {
	var b strings.Builder
	for i, s := range seqs {
		fmt.Fprintf(&b, ">%s%d\n%s\n", prefix, i+1, string(i2b(s)))
	}
	return []byte(b.String())
}

func fastaMap(text string) map[string]string {
	m := map[string]string{}
	name := ""
	for _, l := range strings.Split(text, "\n") {
		if strings.HasPrefix(l, ">") {
			name = l[1:]
			m[name] = ""
		} else if name != "" {
			m[name] += l
		}
	}
	return m
}

// phasentCli runs `goalign phasent --unaligned` on the reads (nucleotide mode: the three sequences of a result are
// written to -o, --nt-output and --aa-output, the start position to the log) and rebuilds a phase event; the reference
// the command used is returned too (given, or detected and announced in the log).
func phasentCli(dir string, seqs, refs [][]int, o phOpts, cpus int) (ev phEvent, orf []int, ok bool) {
	ev = phEvent{T: "phase", Seqs: seqs, Refs: refs, O: o, Cpus: cpus, Results: []phResult{}, After: seqs, Orf: []int{}, R1: []phResult{}, R2: []phResult{}}
	if ev.Refs == nil {
		ev.Refs = [][]int{}
	}
	code, cok := map[int]string{align.GENETIC_CODE_STANDARD: "standard", align.GENETIC_CODE_VETEBRATE_MITO: "mitov", align.GENETIC_CODE_INVETEBRATE_MITO: "mitoi"}[o.Code]
	if o.Translate || !cok {
		return ev, nil, false
	}
	// (the three outputs take turns at being written compressed: every one of them must be complete and closed)
	ext := func(k int) string { return []string{"", ".gz", ".xz"}[(len(seqs)+cpus+k)%3] }
	in, out, nt, aa, lg, rf := filepath.Join(dir, "ph_in.fa"), filepath.Join(dir, "ph_out.fa"+ext(0)), filepath.Join(dir, "ph_nt.fa"+ext(1)), filepath.Join(dir, "ph_aa.fa"+ext(2)), filepath.Join(dir, "ph_log.txt"), filepath.Join(dir, "ph_ref.fa")
	for _, f := range []string{out, nt, aa, lg} {
		os.Remove(f)
	}
	if os.WriteFile(in, readsFasta(seqs, "q"), 0o644) != nil {
		return ev, nil, false
	}
	argv := []string{"phasent", "--unaligned", "-i", in, "-o", out, "--nt-output", nt, "--aa-output", aa, "-l", lg, "-t", fmt.Sprint(cpus), "--genetic-code", code}
	if o.Reverse {
		argv = append(argv, "--reverse")
	}
	if o.Cutend {
		argv = append(argv, "--cut-end")
	}
	if len(refs) > 0 {
		var b strings.Builder
		for i, r := range refs {
			fmt.Fprintf(&b, ">ref%d\n%s\n", i+1, string(i2b(r)))
		}
		if os.WriteFile(rf, []byte(b.String()), 0o644) != nil {
			return ev, nil, false
		}
		argv = append(argv, "--ref-orf", rf)
	}
	_, errs, rc := runGoalign(nil, argv...)
	ev.Msg = "goalign " + strings.Join(argv, " ")
	if rc != 0 {
		ev.Kind, ev.Msg = cliKind(errs), ev.Msg+": "+errs
		if len(ev.Msg) > 500 {
			ev.Msg = ev.Msg[:500]
		}
		return ev, nil, true
	}
	rd := func(p string) string {
		c, r, err := utils.GetReader(p)
		if err != nil {
			return ""
		}
		defer c.Close()
		b, _ := io.ReadAll(r)
		return string(b)
	}
	mo, mn, ma := fastaMap(rd(out)), fastaMap(rd(nt)), fastaMap(rd(aa))
	if (len(seqs)+cpus)%2 == 0 {
		// every other time the codon sequences are taken from a second run that asks for them only (no --aa-output, no log)
		nt2 := filepath.Join(dir, "ph_nt2.fa"+ext(1))
		os.Remove(nt2)
		argv2 := []string{}
		for k := 0; k < len(argv); k++ {
			switch argv[k] {
			case "--aa-output", "-l":
				k++
			case "--nt-output":
				argv2 = append(argv2, "--nt-output", nt2)
				k++
			default:
				argv2 = append(argv2, argv[k])
			}
		}
		if _, _, rc2 := runGoalign(nil, argv2...); rc2 == 0 {
			mn = fastaMap(rd(nt2))
			ev.Msg += " ; goalign " + strings.Join(argv2, " ")
		}
	}
	lines := strings.Split(rd(lg), "\n")
	seen := map[int]bool{}
	for k, l := range lines {
		if strings.HasPrefix(l, "Detected/Given ORF") && k+1 < len(lines) {
			if c := strings.Index(lines[k+1], ":"); c >= 0 && len(refs) == 0 {
				orf = s2i(lines[k+1][c+1:])
			}
		}
		f := strings.Split(l, "\t")
		var qi int
		if len(f) != 6 || f[0] == "SeqName" {
			continue
		}
		if n, _ := fmt.Sscanf(f[0], "q%d", &qi); n != 1 {
			continue
		}
		r := phResult{I: qi, Nt: []int{}, Codon: []int{}, Aa: []int{}}
		if f[2] == "Removed" {
			r.Removed = true
		} else {
			pos, err := strconv.Atoi(f[2])
			if err != nil {
				return ev, nil, false
			}
			r.Pos, r.Nt, r.Codon, r.Aa = pos, s2i(mo[f[0]]), s2i(mn[f[0]]), s2i(ma[f[0]])
		}
		seen[qi] = true
		ev.Results = append(ev.Results, r)
	}
	sort.SliceStable(ev.Results, func(a, b int) bool { return ev.Results[a].I < ev.Results[b].I })
	ev.Closed, ev.Kind = true, "ok"
	return ev, orf, true
}

var stopCodons = map[string]bool{"TAA": true, "TGA": true, "TAG": true}

func randNt(rng *rand.Rand, n int) []int {
	s := make([]int, n)
	for i := range s {
		s[i] = int("ACGT"[rng.Intn(4)])
	}
	return s
}
func randORF(rng *rand.Rand, codons int) []int {
	s := []int{'A', 'T', 'G'}
	for len(s) < 3*(codons+1) {
		c := randNt(rng, 3)
		if !stopCodons[string(i2b(c))] {
			s = append(s, c...)
		}
	}
	return append(s, b2i([]byte([]string{"TAA", "TGA", "TAG"}[rng.Intn(3)]))...)
}
func revcompInts(s []int) []int {
	m := map[int]int{'A': 'T', 'C': 'G', 'G': 'C', 'T': 'A'}
	out := make([]int, len(s))
	for i, c := range s {
		out[len(s)-1-i] = m[c]
	}
	return out
}

// phaseInputs: an ORF and n reads (mutated copies inside flanks), pairwise distinct lengths
func phaseInputs(rng *rand.Rand, n int, reverse bool) (orf []int, seqs [][]int) {
	orf = randORF(rng, 6+rng.Intn(10))
	used := map[int]bool{}
	for len(seqs) < n {
		cp := append([]int{}, orf...)
		if rng.Intn(3) != 0 { // mutated copy (substitutions only inside, start codon kept)
			for k := 0; k < 1+rng.Intn(3); k++ {
				cp[3+rng.Intn(len(cp)-6)] = int("ACGT"[rng.Intn(4)])
			}
		}
		s := append(append(randNt(rng, rng.Intn(12)), cp...), randNt(rng, rng.Intn(12))...)
		for used[len(s)] {
			s = append(s, int("ACGT"[rng.Intn(4)]))
		}
		used[len(s)] = true
		if reverse && rng.Intn(3) == 0 {
			s = revcompInts(s)
		}
		if rng.Intn(4) == 0 {
			// a fragment of the ORF that starts inside a codon, a flank, then the whole ORF (on the other strand when
			// both are searched): two candidate alignments per read, the weaker one met first
			k := 1 + rng.Intn(5)
			m := len(orf) - k - rng.Intn(4)
			full := append([]int{}, orf...)
			if reverse {
				full = revcompInts(full)
			}
			s = append(append(append(append([]int{}, orf[k:k+m]...), randNt(rng, 4+rng.Intn(8))...), full...), randNt(rng, rng.Intn(8))...)
			for used[len(s)] {
				s = append(s, int("ACGT"[rng.Intn(4)]))
			}
			used[len(s)] = true
		}
		seqs = append(seqs, s)
	}
	return
}

func phaseFamily(env *Env) error {
	rng := rand.New(rand.NewSource(env.Seed))
	for i := 0; i < env.N; i++ {
		id := fmt.Sprintf("ph%d_%d", env.Seed, i)
		o := phOpts{Translate: rng.Intn(2) == 0, Reverse: rng.Intn(2) == 0, Cutend: rng.Intn(3) == 0, Code: rng.Intn(3)}
		n := 1 + rng.Intn(6)
		orf, seqs := phaseInputs(rng, n, o.Reverse)
		refs := [][]int{orf}
		switch rng.Intn(4) {
		case 0:
			refs = nil // the longest ORF of the reads is used
		case 1:
			refs = append(refs, randORF(rng, 5)) // a second, unrelated reference
		}
		cpus := []int{1, 2, 3, 8, 16, 32}[rng.Intn(6)]
		if i%6 == 4 {
			// a read too short to be aligned: an alignment error is reported for it (the call is then not held to "one
			// result per read"), and the calls that follow on the same phaser object must not notice
			seqs = append(seqs, b2i([]byte("AC")))
		}
		reusePhaser = i%2 == 1 || i%6 == 5
		ev := phaseCall(seqs, refs, o, cpus)
		ev.ID = id
		env.Emit(ev)
		// (the command stops at the first read reporting an error: with the unalignable read it is not asked)
		if cliSampled(i) && !o.Translate && i%6 != 4 {
			// the same reads through `goalign phasent`; without a given reference, the one it announces is judged as an
			// answer to "the longest ORF of the reads"
			if ce, corf, ok := phasentCli(filepath.Dir(env.Out), seqs, refs, o, cpus); ok {
				ce.ID = id + ":cli"
				env.Emit(ce)
				if ce.Kind == "ok" && len(refs) == 0 && corf != nil {
					env.Emit(phEvent{T: "orf", ID: id + ":cli-ref", Seqs: seqs, Refs: [][]int{}, Reverse: o.Reverse, Results: []phResult{}, After: seqs, Orf: corf,
						R1: []phResult{}, R2: []phResult{}, Kind: "ok", Msg: ce.Msg})
				}
			}
		}
		if ev.Kind == "ok" {
			for _, cp := range []int{1, 4} {
				if cp == cpus {
					continue
				}
				e2 := phaseCall(seqs, refs, o, cp)
				if e2.Kind == "ok" {
					env.Emit(phEvent{T: "rel", ID: id, Seqs: seqs, Refs: ev.Refs, O: o, Cpus: cp, R1: ev.Results, R2: e2.Results,
						Results: []phResult{}, After: [][]int{}, Orf: []int{}})
				} else {
					e2.ID = id + fmt.Sprintf(":cpus=%d", cp)
					env.Emit(e2)
				}
			}
		}
		// longest ORF search, on reads whose ORFs may overlap in different frames
		oe := phEvent{T: "orf", ID: id, Seqs: seqs, Refs: [][]int{}, Reverse: rng.Intn(2) == 0, Results: []phResult{}, After: [][]int{}, Orf: []int{}, R1: []phResult{}, R2: []phResult{}}
		if rng.Intn(3) == 0 {
			oe.Seqs = [][]int{b2i([]byte("ATGCATGCCTAACCCCCCCCCTGA")), randNt(rng, 10+rng.Intn(20))}
		}
		if rng.Intn(5) == 0 {
			oe.Seqs = [][]int{b2i([]byte("CCCCCC")), b2i([]byte("ACGTACGTA"))}
		}
		if rng.Intn(3) == 0 {
			// the longest ORF touches an end of its read (no flank after the stop codon, or before the start codon; on the
			// minus strand the read then starts with the reverse-complemented stop codon), next to a shorter one with flanks
			long := randORF(rng, 9+rng.Intn(6))
			switch rng.Intn(3) {
			case 0:
				long = append(randNt(rng, rng.Intn(6)), long...)
			case 1:
				long = append(long, randNt(rng, 1+rng.Intn(2))...)
			}
			if oe.Reverse && rng.Intn(2) == 0 {
				long = revcompInts(long)
			}
			short := append(append(randNt(rng, 2+rng.Intn(5)), randORF(rng, 3)...), randNt(rng, 2+rng.Intn(5))...)
			oe.Seqs = [][]int{short, long}
			if rng.Intn(2) == 0 {
				oe.Seqs = [][]int{long, short}
			}
		}
		func() {
			defer func() {
				if r := recover(); r != nil {
					oe.Kind, oe.Msg = "panic", fmt.Sprint(r)
				}
			}()
			sb := mkBag(oe.Seqs)
			orfseq, err := sb.LongestORF(oe.Reverse)
			oe.After = bagRows(sb)
			if err != nil {
				oe.Kind, oe.Msg = "err", err.Error()
				return
			}
			oe.Kind, oe.Orf = "ok", b2i(orfseq.SequenceChar())
		}()
		env.Emit(oe)
		if cliSampled(i) {
			// `goalign orf` on the same reads
			in := filepath.Join(filepath.Dir(env.Out), "orf_in.fa")
			if os.WriteFile(in, readsFasta(oe.Seqs, "q"), 0o644) == nil {
				argv := []string{"orf", "-i", in}
				if oe.Reverse {
					argv = append(argv, "--reverse")
				}
				out, errs, rc := runGoalign(nil, argv...)
				ce := oe
				ce.ID, ce.After, ce.Orf, ce.Msg = id+":cli", oe.Seqs, []int{}, "goalign "+strings.Join(argv, " ")
				if rc != 0 {
					ce.Kind, ce.Msg = cliKind(errs), ce.Msg+": "+strings.SplitN(errs, "\n", 2)[0]
				} else {
					ce.Kind = "ok"
					for _, sq := range fastaMap(out) {
						ce.Orf = s2i(sq)
					}
				}
				env.Emit(ce)
			}
			// and the reference `goalign phasent` detects by itself on these reads (same strand option)
			po := phOpts{Reverse: oe.Reverse}
			if pe, corf, ok := phasentCli(filepath.Dir(env.Out), oe.Seqs, nil, po, 2); ok && pe.Kind == "ok" && corf != nil {
				pe.ID = id + ":orf-cli"
				env.Emit(pe)
				env.Emit(phEvent{T: "orf", ID: id + ":orf-cli-ref", Seqs: oe.Seqs, Refs: [][]int{}, Reverse: oe.Reverse, Results: []phResult{}, After: oe.Seqs,
					Orf: corf, R1: []phResult{}, R2: []phResult{}, Kind: "ok", Msg: pe.Msg})
			}
		}
	}
	return nil
}

// ---- free-running hook logs -------------------------------------------------------------------------
type phCfg struct {
	N    int   `json:"n"`
	Nw   int   `json:"nw"`
	Scap int   `json:"scap"`
	Ocap int   `json:"ocap"`
	Fail []int `json:"fail"`
}
type phRun struct {
	T      string  `json:"t"`
	ID     string  `json:"id"`
	Cfg    phCfg   `json:"cfg"`
	Ret    string  `json:"ret"`
	Got    []int   `json:"got"`
	GotErr bool    `json:"goterr"`
	Logs   []*gLog `json:"logs"`
	Msg    string  `json:"msg"`
	Seqs   [][]int `json:"seqs"`
}

func phconcFamily(env *Env) error {
	phaseTimeout = 5 * time.Second
	rng := rand.New(rand.NewSource(env.Seed))
	for i := 0; i < env.N; i++ {
		n := 1 + rng.Intn(5)
		o := phOpts{Translate: true, Reverse: rng.Intn(2) == 0, Code: 0}
		orf, seqs := phaseInputs(rng, n, o.Reverse)
		if rng.Intn(2) == 0 { // a read too short to be translated in every frame: its alignment fails
			seqs[rng.Intn(n)] = b2i([]byte("ACGT"))
		}
		byLen := map[int]int{}
		for k, s := range seqs {
			byLen[len(s)] = k + 1
		}
		cpus := 1 + rng.Intn(3)
		var logs []*gLog
		var ev phEvent
		if os.Getenv("VERIF_NOHOOK") != "" { // race-detector runs: nothing but goalign's own synchronisation
			ev = phaseCall(seqs, [][]int{orf}, o, cpus)
		} else {
			rec := newRecorder()
			stop := rec.install()
			ev = phaseCall(seqs, [][]int{orf}, o, cpus)
			logs = stop()
		}
		run := phRun{T: "phconc", ID: fmt.Sprintf("pc%d_%d", env.Seed, i), Cfg: phCfg{N: n, Nw: cpus, Scap: 50, Ocap: 50, Fail: []int{}}, Ret: ev.Kind, Got: []int{}, Logs: []*gLog{}, Seqs: seqs}
		for _, r := range ev.Results {
			if r.Err {
				run.GotErr = true
				run.Msg = r.Msg
			} else {
				run.Got = append(run.Got, r.I)
			}
		}
		nw := 0
		for _, l := range logs {
			if len(l.Ev) == 0 || len(l.Ev[0].Pt) < 5 || l.Ev[0].Pt[:3] != "ph." {
				continue
			}
			switch l.Ev[0].Pt[:5] {
			case "ph.f.":
				l.Role = "feeder"
			case "ph.w.":
				l.Role = "worker"
				nw++
				l.W = nw
			default:
				l.Role = "closer"
			}
			for k := range l.Ev {
				e := &l.Ev[k]
				switch e.Pt {
				case "ph.f.send", "ph.w.recv", "ph.w.result", "ph.w.sent", "ph.w.fail", "ph.w.stop":
					e.A = byLen[e.A]
				}
				if e.Pt == "ph.w.fail" { // the sequences whose alignment failed in this run (any read may: "unless an alignment error is reported")
					run.Cfg.Fail = append(run.Cfg.Fail, e.A)
				}
			}
			run.Logs = append(run.Logs, l)
		}
		env.Emit(run)
	}
	return nil
}

func init() {
	families["phase"] = phaseFamily
	families["phconc"] = phconcFamily
}
