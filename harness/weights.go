package main

// Family "weights" (property C20): bootstrap weight vectors, Dirichlet samples, discrete-gamma categories and the
// incomplete gamma ratio, for seeds / lengths / shapes / category counts drawn from a seeded generator and fixed grids.

import (
	"compress/gzip"
	"fmt"
	"io"
	"math"
	"math/rand"
	"os"
	"path/filepath"
	"strconv"
	"strings"
	"time"

	"github.com/evolbioinfo/goalign/distance/dna"
	"github.com/evolbioinfo/goalign/models"
	"github.com/evolbioinfo/goalign/stats"
)

type wEvent struct {
	T     string   `json:"t"`
	ID    string   `json:"id"`
	Kind  string   `json:"kind"`
	Msg   string   `json:"msg"`
	What  string   `json:"what"`
	L     int      `json:"L"`
	Seed  int      `json:"seed"`
	W     []string `json:"w"`
	Alpha []string `json:"alphas"`
	A     string   `json:"alpha"`
	Total string   `json:"total"`
	N     int      `json:"n"`
	S     []string `json:"s"`
	Ncat  int      `json:"ncat"`
	R     []string `json:"r"`
	Lng   string   `json:"lng"`
	Xs    []string `json:"xs"`
	Vals  []string `json:"vals"`
}

func strs(v []float64) []string {
	out := make([]string, len(v))
	for i, x := range v {
		out[i] = fstr(x)
	}
	return out
}

func guarded(ev *wEvent, f func()) {
	done := make(chan struct{})
	go func() {
		defer func() {
			if r := recover(); r != nil {
				ev.Kind, ev.Msg = "panic", fmt.Sprint(r)
			}
			close(done)
		}()
		f()
	}()
	select {
	case <-done:
	case <-time.After(20 * time.Second):
		ev.Kind, ev.Msg = "hang", "no answer after 20 s"
	}
}

func weightsFamily(env *Env) error {
	rng := rand.New(rand.NewSource(env.Seed))
	blank := func(t string) wEvent {
		return wEvent{T: t, W: []string{}, Alpha: []string{}, S: []string{}, R: []string{}, Xs: []string{}, Vals: []string{}, A: "1", Total: "1", Lng: "0"}
	}
	n := 0
	emit := func(ev wEvent) {
		ev.ID = fmt.Sprintf("w%d", n)
		n++
		env.Emit(ev)
	}
	// weight vectors: lengths go up and down (state kept between calls must not leak from one alignment to the next)
	lens := []int{5, 12, 40, 40, 12, 3, 41, 200, 7, 3}
	for i := 0; i < env.N; i++ {
		L := lens[i%len(lens)]
		if i >= len(lens) {
			L = 3 + rng.Intn(198)
		}
		rows := [][]int{make([]int, L), make([]int, L)}
		for c := 0; c < L; c++ {
			rows[0][c], rows[1][c] = 'A', 'C'
		}
		al := mkNtAlign(rows)
		for _, what := range []string{"dirichlet", "gamma"} {
			ev := blank("weights")
			ev.What, ev.L, ev.Seed = what, L, rng.Intn(1<<30)
			guarded(&ev, func() {
				rand.Seed(int64(ev.Seed))
				if what == "dirichlet" {
					ev.W = strs(dna.BuildWeightsDirichlet(al))
				} else {
					ev.W = strs(dna.BuildWeightsGamma(al))
				}
				ev.Kind = "ok"
			})
			emit(ev)
		}
		// the same through `goalign build weightboot` (three replicates: one line each)
		if cliSampled(i) {
			var fa strings.Builder
			fmt.Fprintf(&fa, ">a\n%s\n>b\n%s\n", string(i2b(rows[0])), string(i2b(rows[1])))
			seed := rng.Intn(1 << 30)
			argv := []string{"build", "weightboot", "-n", "3", "--seed", fmt.Sprint(seed)}
			input := fa.String()
			if weightsCliCount++; weightsCliCount%2 == 0 {
				// a Phylip file holding two alignments: the command works on the FIRST one (the second has another length)
				L2 := L + 1 + weightsCliCount%3
				input = fmt.Sprintf(" 2 %d\na  %s\nb  %s\n 2 %d\na  %s\nb  %s\n", L, string(i2b(rows[0])), string(i2b(rows[1])),
					L2, strings.Repeat("A", L2), strings.Repeat("C", L2))
				argv = append(argv, "-p")
			}
			// one time in three the weights are written to a file (plain or compressed) instead of the standard output:
			// the file must hold all of them once the command has returned
			var wfile string
			if weightsCliCount%3 != 0 {
				wfile = filepath.Join(filepath.Dir(env.Out), "weights_out"+[]string{"", ".txt", ".gz"}[weightsCliCount%3])
				os.Remove(wfile)
				argv = append(argv, "-o", wfile)
			}
			out, errs, rc := runGoalign([]byte(input), argv...)
			if wfile != "" && rc == 0 {
				out = ""
				if f, e := os.Open(wfile); e == nil {
					var rd io.Reader = f
					if strings.HasSuffix(wfile, ".gz") {
						if gz, e2 := gzip.NewReader(f); e2 == nil {
							rd = gz
						} else {
							rd = strings.NewReader("")
						}
					}
					if b, e3 := io.ReadAll(rd); e3 == nil { // (a truncated stream reads as nothing)
						out = string(b)
					}
					f.Close()
				}
			}
			lines := strings.Split(strings.TrimRight(out, "\n"), "\n")
			if rc != 0 || len(lines) != 3 {
				ev := blank("weightscli")
				ev.L, ev.Seed, ev.Kind, ev.Msg = L, seed, "err", fmt.Sprintf("exit %d, %d lines: %s", rc, len(lines), strings.SplitN(errs, "\n", 2)[0])
				emit(ev)
			} else {
				for _, l := range lines {
					ev := blank("weightscli")
					ev.L, ev.Seed, ev.Kind, ev.W = L, seed, "ok", strings.Split(l, "\t")
					for _, f := range ev.W {
						if _, err := strconv.ParseFloat(f, 64); err != nil {
							ev.What, ev.W = "malformed field "+f, []string{} // not a number: the line holds no weights
							break
						}
					}
					emit(ev)
				}
			}
		}
		// Dirichlet samples
		k := []int{0, 1, 2, 3, 4, 10}[rng.Intn(6)]
		alpha := make([]float64, k)
		for j := range alpha {
			alpha[j] = []float64{0.01, 0.3, 0.99, 1, 1.01, 3, 30, 100}[rng.Intn(8)]
		}
		if k > 0 && rng.Intn(8) == 0 {
			alpha[rng.Intn(k)] = []float64{0, -1, math.NaN(), math.Inf(1), math.Inf(-1)}[rng.Intn(5)]
		}
		ev := blank("dirichlet")
		ev.Alpha, ev.Seed = strs(alpha), rng.Intn(1<<30)
		total := []float64{1, 10, 0.5, 137}[rng.Intn(4)]
		ev.Total = fstr(total)
		guarded(&ev, func() {
			rand.Seed(int64(ev.Seed))
			s, err := stats.Dirichlet(total, alpha...)
			if err != nil {
				ev.Kind, ev.Msg = "err", err.Error()
				return
			}
			ev.Kind, ev.S = "ok", strs(s)
		})
		emit(ev)
		ev1 := blank("dirichlet1")
		ev1.N, ev1.Seed, ev1.Total = []int{0, 1, 2, 3, 4, 25}[rng.Intn(6)], rng.Intn(1<<30), fstr(total)
		guarded(&ev1, func() {
			rand.Seed(int64(ev1.Seed))
			s, err := stats.Dirichlet1(total, ev1.N)
			if err != nil {
				ev1.Kind, ev1.Msg = "err", err.Error()
				return
			}
			ev1.Kind, ev1.S = "ok", strs(s)
		})
		emit(ev1)
	}
	// discrete gamma categories and the incomplete gamma ratio on fixed grids
	shapes := []float64{0.01, 0.05, 0.3, 0.99, 1, 1.01, 3, 20, 30, 50, 100}
	for _, a := range shapes {
		for _, nc := range []int{2, 3, 4, 8, 16, 32} {
			ev := blank("discgamma")
			ev.A, ev.Ncat = fstr(a), nc
			guarded(&ev, func() {
				ev.R = strs(models.DiscreteGamma(a, nc))
				ev.Kind = "ok"
			})
			emit(ev)
		}
		ev := blank("incgamma")
		lg, _ := math.Lgamma(a)
		ev.A, ev.Lng = fstr(a), fstr(lg)
		// (x down to the smallest magnitudes: for shapes below 1 the ratio leaves 0 steeply - I(1e-12, 0.01) = 0.76)
		xs := []float64{0, 1e-300, 1e-100, 1e-30, 1e-12, 1e-9, 2e-8, 1e-6, 0.01, 0.5, 0.99, 1, 1.01, 2}
		for _, f := range []float64{0.25, 0.5, 0.9, 0.99, 1, 1.01, 1.1, 1.5, 2, 4, 12, 100, 1e3, 1e5} {
			xs = append(xs, a*f, a*f+1)
		}
		sortFloats(xs)
		guarded(&ev, func() {
			vals := make([]float64, len(xs))
			for i, x := range xs {
				vals[i] = models.IncompleteGamma(x, a, lg)
			}
			ev.Xs, ev.Vals, ev.Kind = strs(xs), strs(vals), "ok"
		})
		emit(ev)
	}
	return nil
}

func sortFloats(x []float64) {
	for i := 1; i < len(x); i++ {
		for j := i; j > 0 && x[j] < x[j-1]; j-- {
			x[j], x[j-1] = x[j-1], x[j]
		}
	}
}

var weightsCliCount int

func init() { families["weights"] = weightsFamily }
