package main

// The command-line front of the heap machine.  When VERIF_GOALIGN names a goalign binary
// (built by the orchestrator from /repo), a sampled subset of the steps of a history is run a
// second time THROUGH THE COMMAND LINE before the library call is made: the receiver is
// written as FASTA, `goalign <command> <flags>` is executed on it, and what it prints is read
// back as a NEW object of the heap.  The event is logged as
//
//	op = "Cli", a = {op: <library operation>, a: <its arguments>, full: <ret is complete>}
//
// and the TLA+ heap machine judges it with the transition of the library operation (the
// command line must do what the operation it fronts does: same rows, same error class, same
// reported counts / positions / groups where the command prints them).  A "Drop" event then
// removes the object again, so that the indices used by the rest of the history are unchanged.
//
// Nothing is compared here.  A step is only routed when the receiver survives the trip
// through a FASTA file unchanged (names, residues, alphabet given with --alphabet), and when
// the command line has no validation of its own for the flags (those combinations are not
// the library operation any more).

import (
	"bytes"
	"fmt"
	"hash/fnv"
	"io"
	"os"
	"os/exec"
	"path/filepath"
	"regexp"
	"strconv"
	"strings"

	"github.com/evolbioinfo/goalign/align"
	"github.com/evolbioinfo/goalign/io/fasta"
	"github.com/evolbioinfo/goalign/io/phylip"
	"github.com/evolbioinfo/goalign/io/utils"
)

type cliFront struct {
	bin     string
	every   int
	max     int
	dir     string
	ran     int
	multi   int
	skipped map[string]int
}

func newCliFront(env *Env) *cliFront {
	bin := os.Getenv("VERIF_GOALIGN")
	if bin == "" {
		return nil
	}
	every, _ := strconv.Atoi(os.Getenv("VERIF_CLI_EVERY"))
	if every < 1 {
		every = 1
	}
	dir, err := os.MkdirTemp(filepath.Dir(env.Out), "cli")
	if err != nil {
		fmt.Fprintln(os.Stderr, "driver: cannot create scratch directory:", err)
		os.Exit(3)
	}
	max, _ := strconv.Atoi(os.Getenv("VERIF_CLI_MAX"))
	return &cliFront{bin: bin, every: every, max: max, dir: dir, skipped: map[string]int{}}
}

func (c *cliFront) close() {
	os.RemoveAll(c.dir)
	fmt.Fprintf(os.Stderr, "driver: cli front ran %d commands (%d on two-alignment inputs), skipped %v\n", c.ran, c.multi, c.skipped)
}

// cliCall describes one command line: argv, the files it writes, and how its return record is rebuilt.
type cliCall struct {
	argv []string
	// ret fills the return record from stderr and the side files; false = the record is not complete
	ret func(stdout, stderr string, ret map[string]interface{}) bool
	// query: the command prints numbers, not sequences (no object is read back)
	query bool
	// outBag: the command prints unaligned sequences whatever the receiver is
	outBag bool
	// files: the command writes one alignment per file (in this order) instead of printing one
	files []string
	// multiOK: the command handles every alignment of its input in turn; side: side files holding one block of lines per
	// alignment (how many lines the first alignment of a two-alignment input accounts for)
	multiOK bool
	side    []sideFile
	// queryMulti: for a query command that loops over its input, the part of its output that belongs to the second alignment
	queryMulti func(stdout string) (string, bool)
	// outAlphabet: alphabet of what the command prints when it is not the receiver's (0 = the receiver's)
	outAlphabet int
	// okOnly: the command works on every sequence and stops at the first failing one: a failure says nothing about
	// the one the step asks for, and is not logged
	okOnly bool
	// extra: arguments of the command that the library step does not have (added to the logged arguments)
	extra map[string]interface{}
}

// commands that handle every alignment of their input in turn and print one result per alignment
var multiOps = map[string]bool{"RemoveGapSites": true, "RemoveCharacterSites": true, "RemoveMajorityCharacterSites": true,
	"RemoveGapSeqs": true, "RemoveCharacterSeqs": true, "ReverseComplement": true, "ReverseComplementSequences": true, "Sort": true, "Consensus": true,
	"DiffWithFirst": true, "ReplaceMatchChars": true, "Translate": true, "TranslateByReference": true, "Deduplicate": true,
	"Compress": true, "Mask": true, "MaskPositions": true, "MaskOccurences": true, "MaskUnique": true, "SubAlign": true, "RefCoordinates": true,
	"Replace": true, "AppendSeqIdentifier": true, "TrimSequences": true, "ShuffleSequences": true, "Swap": true,
	"Recombine": true, "Mutate": true, "AddGaps": true, "Sample": true, "SelectSites": true, "RefSites": true,
	"InversePositions": true, "Transpose": true, "CodonAlign": true, "InverseCoordinates": true, "ToUpper": true, "ToLower": true}

type sideFile struct {
	path  string
	first func(out1, decoy align.Alignment) int
}

// decoyOf builds the alignment that precedes the receiver in a two-alignment input: the same rows but the last (when there
// are three or more), every sequence shifted right by one column behind a gap.  Whatever a command keeps from one alignment
// to the next (converted coordinates, cached references, buffers) then meets different data.
func decoyOf(al align.Alignment) align.Alignment {
	d := align.NewAlign(al.Alphabet())
	n := al.NbSequences()
	k := 0
	al.IterateChar(func(name string, s []uint8) bool {
		k++
		if n >= 3 && k == n {
			return true
		}
		t := make([]byte, len(s))
		if len(s) > 0 {
			t[0] = '-'
			copy(t[1:], s[:len(s)-1])
		}
		d.AddSequenceChar(name, t, "")
		return false
	})
	return d
}

// phylipAll parses a stream of Phylip alignments.
func phylipAll(text string, alphabet int) ([]align.Alignment, bool) {
	p := phylip.NewParser(strings.NewReader(text), false)
	p.Alphabet(alphabet)
	out := []align.Alignment{}
	for {
		al, err := p.Parse()
		if err != nil {
			if err == io.EOF || strings.Contains(err.Error(), "EOF") {
				return out, true
			}
			return out, false
		}
		if al == nil { // end of the stream
			return out, true
		}
		out = append(out, al)
		if len(out) > 8 {
			return out, false
		}
	}
}

func sameAlign(a, b align.Alignment) bool {
	if a.NbSequences() != b.NbSequences() || a.Alphabet() != b.Alphabet() {
		return false
	}
	same := true
	i := 0
	a.IterateChar(func(name string, s []uint8) bool {
		n2, _ := b.GetSequenceNameById(i)
		s2, _ := b.GetSequenceCharById(i)
		if name != n2 || string(s) != string(s2) {
			same = false
		}
		i++
		return false
	})
	return same
}

// side files of a two-alignment run: the first lines belong to the first alignment and are not the receiver's
var dropFirst = map[string]int{}

func dropLines(path string, n int) { dropFirst[path] = n }

// readSide reads a side file (plain, .gz or .xz by its name) without the lines of the first alignment.
func readSide(path string) (string, bool) {
	n := dropFirst[path]
	delete(dropFirst, path)
	cl, rd, err := utils.GetReader(path)
	if err != nil {
		return "", false
	}
	b, err := io.ReadAll(rd)
	cl.Close()
	if err != nil {
		return "", false
	}
	lines := strings.SplitAfter(string(b), "\n")
	if n > len(lines) {
		n = len(lines)
	}
	return strings.Join(lines[n:], ""), true
}

var reStart = regexp.MustCompile(`number of start [^=]*=(-?\d+)`)
var reEnd = regexp.MustCompile(`number of end [^=]*=(-?\d+)`)
var reRemoved = regexp.MustCompile(`removed sequences=(-?\d+)`)

func printable(b []byte) bool {
	if len(b) == 0 {
		return false
	}
	for _, c := range b {
		if c <= 32 || c >= 127 {
			return false
		}
	}
	return true
}

func readInts(path string) ([]int, bool) {
	b, ok := readSide(path)
	if !ok {
		return nil, false
	}
	out := []int{}
	for _, l := range strings.Split(string(b), "\n") {
		if l == "" {
			continue
		}
		v, err := strconv.Atoi(l)
		if err != nil {
			return nil, false
		}
		out = append(out, v)
	}
	return out, true
}

// plan maps a library operation and its arguments to a command line, or reports that the step has no command-line twin.
func (c *cliFront) plan(h *heapRun, o *obj, st Step) (*cliCall, string) {
	a := st.A
	un := []string{}
	if o.al == nil {
		un = []string{"--unaligned"}
	}
	needsAlign := func() bool { return o.al != nil }
	switch st.Op {
	case "RemoveGapSites", "RemoveCharacterSites", "RemoveMajorityCharacterSites":
		if !needsAlign() {
			return nil, "bag"
		}
		p, q := ai(a, "p"), ai(a, "q")
		if q == 0 || p < 0 || p > q {
			return nil, "cutoff" // the flag is a float in [0,1]
		}
		// (the side files are written compressed one time in three each: they must be complete and closed too)
		kept := filepath.Join(c.dir, "kept"+[]string{"", ".gz", ""}[(p+q+len(o.sb.AlphabetCharacters()))%3])
		rm := filepath.Join(c.dir, "rm"+[]string{"", "", ".xz"}[(p+q+o.sb.NbSequences())%3])
		os.Remove(kept)
		os.Remove(rm)
		argv := []string{"clean", "sites", "-c", fstr(afrac(a, "p", "q")), "--positions", kept, "--positions-rm", rm}
		if ab(a, "ends") {
			argv = append(argv, "--ends")
		}
		switch st.Op {
		case "RemoveGapSites":
			argv = append(argv, "--char", []string{"GAP", "-"}[(p+q)%2])
			// flags that are documented as having no effect in gap mode
			if (p+2*q)%3 == 0 {
				argv = append(argv, "--reverse")
			}
			if (2*p+q)%3 == 0 {
				argv = append(argv, "--ignore-n", "--ignore-case")
			}
		case "RemoveMajorityCharacterSites":
			argv = append(argv, "--char", "MAJ")
			if (p+2*q)%3 == 0 {
				argv = append(argv, "--reverse", "--ignore-case") // no effect in majority mode either
			}
			if ab(a, "igaps") {
				argv = append(argv, "--ignore-gaps")
			}
			if ab(a, "ins") {
				argv = append(argv, "--ignore-n")
			}
		default:
			chars := abytes(a, "chars")
			s := string(chars)
			if !printable(chars) || s == "GAP" || s == "MAJ" || s == "-" {
				return nil, "chars"
			}
			if (bytes.ContainsAny(chars, "Nn") && ab(a, "ins")) || (bytes.Contains(chars, []byte("-")) && ab(a, "igaps")) {
				return nil, "flags" // rejected by the command itself
			}
			argv = append(argv, "--char="+s)
			for _, f := range [][2]string{{"icase", "--ignore-case"}, {"igaps", "--ignore-gaps"}, {"ins", "--ignore-n"}, {"rev", "--reverse"}} {
				if ab(a, f[0]) {
					argv = append(argv, f[1])
				}
			}
		}
		return &cliCall{argv: argv, side: []sideFile{{kept, func(out1, decoy align.Alignment) int { return out1.Length() }},
			{rm, func(out1, decoy align.Alignment) int { return decoy.Length() - out1.Length() }}}, ret: func(stdout, stderr string, ret map[string]interface{}) bool {
			m1, m2 := reStart.FindStringSubmatch(stderr), reEnd.FindStringSubmatch(stderr)
			k, ok1 := readInts(kept)
			r, ok2 := readInts(rm)
			if m1 == nil || m2 == nil {
				return false
			}
			if !ok1 { // a side file that cannot be read back (truncated compressed stream) reports nothing: logged as such
				k = []int{-1}
			}
			if !ok2 {
				r = []int{-1}
			}
			f, _ := strconv.Atoi(m1[1])
			l, _ := strconv.Atoi(m2[1])
			ret["first"], ret["last"], ret["kept"], ret["rm"] = f, l, k, r
			return true
		}}, ""
	case "RemoveGapSeqs", "RemoveCharacterSeqs":
		if !needsAlign() {
			return nil, "bag"
		}
		p, q := ai(a, "p"), ai(a, "q")
		if q == 0 || p < 0 || p > q {
			return nil, "cutoff"
		}
		argv := []string{"clean", "seqs", "-c", fstr(afrac(a, "p", "q"))}
		if st.Op == "RemoveGapSeqs" {
			argv = append(argv, "--char", "GAP")
			if ab(a, "ins") {
				argv = append(argv, "--ignore-n")
			}
		} else {
			ch := []byte{byte(ai(a, "c"))}
			if !printable(ch) || ch[0] == '-' {
				return nil, "chars"
			}
			argv = append(argv, "--char="+string(ch))
			for _, f := range [][2]string{{"icase", "--ignore-case"}, {"igaps", "--ignore-gaps"}, {"ins", "--ignore-n"}} {
				if ab(a, f[0]) {
					argv = append(argv, f[1])
				}
			}
		}
		return &cliCall{argv: argv, ret: func(stdout, stderr string, ret map[string]interface{}) bool {
			m := reRemoved.FindStringSubmatch(stderr)
			if m == nil {
				return false
			}
			n, _ := strconv.Atoi(m[1])
			ret["n"] = n
			return true
		}}, ""
	case "CharStats":
		if !needsAlign() {
			return nil, "bag"
		}
		return &cliCall{argv: []string{"stats", "char"}, query: true, ret: func(stdout, stderr string, ret map[string]interface{}) bool {
			lines := strings.Split(strings.TrimRight(stdout, "\n"), "\n")
			if len(lines) < 1 || lines[0] != "char\tnb\tfreq" {
				return false
			}
			m := [][]int{}
			for _, l := range lines[1:] {
				f := strings.Split(l, "\t")
				if len(f) != 3 || len(f[0]) != 1 {
					return false
				}
				n, err := strconv.Atoi(f[1])
				if err != nil {
					return false
				}
				m = append(m, []int{int(f[0][0]), n})
			}
			ret["m"] = m
			return true
		}}, ""
	case "CharStatsSeq":
		idx := ai(a, "idx")
		if !needsAlign() || idx < 0 || idx >= o.sb.NbSequences() {
			return nil, "index" // the command prints every sequence: there is no index to get wrong
		}
		return &cliCall{argv: []string{"stats", "char", "--per-sequences"}, query: true, ret: func(stdout, stderr string, ret map[string]interface{}) bool {
			lines := strings.Split(strings.TrimRight(stdout, "\n"), "\n")
			if len(lines) != o.sb.NbSequences()+1 {
				return false
			}
			head := strings.Split(lines[0], "\t")
			f := strings.Split(lines[idx+1], "\t")
			if len(f) != len(head) || head[0] != "seq" {
				return false
			}
			m := [][]int{}
			for k := 1; k < len(head); k++ {
				n, err := strconv.Atoi(f[k])
				if err != nil || len(head[k]) != 1 {
					return false
				}
				if n > 0 { // the library's table holds the characters of the sequence only
					m = append(m, []int{int(head[k][0]), n})
				}
			}
			ret["m"] = m
			return true
		}}, ""
	case "CountProfile":
		if !needsAlign() {
			return nil, "bag"
		}
		return &cliCall{argv: []string{"stats", "char", "--per-sites"}, query: true, ret: func(stdout, stderr string, ret map[string]interface{}) bool {
			lines := strings.Split(strings.TrimRight(stdout, "\n"), "\n")
			if len(lines) != o.al.Length()+1 {
				return false
			}
			head := strings.Split(lines[0], "\t")
			if head[0] != "site" {
				return false
			}
			prof := []map[string]interface{}{}
			cols := make([][]int, len(head)-1)
			for i, l := range lines[1:] {
				f := strings.Split(l, "\t")
				if len(f) != len(head) || f[0] != strconv.Itoa(i) {
					return false
				}
				for k := 1; k < len(f); k++ {
					n, err := strconv.Atoi(f[k])
					if err != nil {
						return false
					}
					cols[k-1] = append(cols[k-1], n)
				}
			}
			for k := 1; k < len(head); k++ {
				if len(head[k]) != 1 {
					return false
				}
				prof = append(prof, map[string]interface{}{"c": int(head[k][0]), "n": nn(cols[k-1])})
			}
			ret["prof"] = prof
			return true
		}}, ""
	case "ProfileOnly":
		ch := []byte{byte(ai(a, "c"))}
		if !needsAlign() || !printable(ch) || ch[0] == '*' {
			return nil, "chars" // '*' is the flag's "every character"
		}
		return &cliCall{argv: []string{"stats", "char", "--per-sites", "--only=" + string(ch)}, query: true, ret: func(stdout, stderr string, ret map[string]interface{}) bool {
			// every line is logged as printed; the specification says what a table of one column looks like
			lines := strings.Split(strings.TrimRight(stdout, "\n"), "\n")
			tbl := [][][]int{}
			for _, l := range lines {
				row := [][]int{}
				for _, f := range strings.Split(l, "\t") {
					row = append(row, s2i(f))
				}
				tbl = append(tbl, row)
			}
			ret["table"] = tbl
			return true
		}}, ""
	case "NumMutRef", "ListMutRef":
		// one row of the table printed for every sequence against the named reference
		if !needsAlign() {
			return nil, "bag"
		}
		i, refi := ai(a, "i"), ai(a, "refi")
		names := []string{}
		uniq := map[string]bool{}
		o.sb.IterateChar(func(name string, s []uint8) bool {
			names = append(names, name)
			uniq[name] = true
			return false
		})
		if i < 0 || refi < 0 || i >= len(names) || refi >= len(names) || len(uniq) != len(names) || !printable([]byte(names[refi])) ||
			strings.ContainsAny(names[i], "\t") {
			return nil, "names"
		}
		if st.Op == "ListMutRef" && i == refi {
			return nil, "names" // the command does not list the reference against itself
		}
		argv := []string{"stats", "mutations", "--ref-sequence=" + names[refi]}
		if st.Op == "ListMutRef" {
			argv = []string{"stats", "mutations", "list", "--ref-sequence=" + names[refi]}
		}
		if st.Op == "NumMutRef" && (i+refi+o.sb.NbSequences())%2 == 0 {
			// the other command that prints this number: the "mutref" column of the per-sequence table
			return &cliCall{argv: []string{"stats", "--per-sequences", "--ref-sequence=" + names[refi]}, query: true, okOnly: true,
				queryMulti: func(stdout string) (string, bool) {
					k := strings.LastIndex(stdout, "sequence\tgaps")
					if k <= 0 {
						return "", false
					}
					return stdout[k:], true
				},
				ret: func(stdout, stderr string, ret map[string]interface{}) bool {
					lines := strings.Split(strings.TrimRight(stdout, "\n"), "\n")
					head := strings.Split(lines[0], "\t")
					col := -1
					for k, hname := range head {
						if hname == "mutref" {
							col = k
						}
					}
					if col < 0 || len(lines) != len(names)+1 {
						return false
					}
					f := strings.Split(lines[i+1], "\t")
					if len(f) <= col || f[0] != names[i] {
						return false
					}
					v, err := strconv.Atoi(f[col])
					if err != nil {
						return false
					}
					ret["v"] = v
					return true
				}}, ""
		}
		return &cliCall{argv: argv, query: true, okOnly: true, ret: func(stdout, stderr string, ret map[string]interface{}) bool {
			for _, l := range strings.Split(stdout, "\n") {
				f := strings.Split(l, "\t")
				if f[0] != names[i] {
					continue
				}
				if st.Op == "NumMutRef" {
					if len(f) != 2 {
						return false
					}
					v, err := strconv.Atoi(f[1])
					if err != nil {
						return false
					}
					ret["v"] = v
					return true
				}
				muts := []map[string]interface{}{}
				if len(f) == 2 {
					for _, m := range strings.Split(f[1], ",") {
						k := 1
						for k < len(m) && m[k] >= '0' && m[k] <= '9' {
							k++
						}
						if len(m) < 2 || k == 1 {
							return false
						}
						pos, _ := strconv.Atoi(m[1:k])
						muts = append(muts, map[string]interface{}{"r": int(m[0]), "p": pos, "a": s2i(m[k:])})
					}
				} else if len(f) != 1 {
					return false
				}
				ret["muts"] = muts
				return true
			}
			return false
		}}, ""
	case "NumGapsUnique", "NumMutationsUnique":
		if !needsAlign() {
			return nil, "bag"
		}
		argv := []string{"stats", "gaps", "--unique"}
		if st.Op == "NumMutationsUnique" {
			argv = []string{"stats", "mutations", "--unique"}
		}
		hasprof := ai(a, "prof") != 0
		if hasprof {
			po := h.get(ai(a, "prof"))
			if po.al == nil {
				return nil, "bag"
			}
			prof := align.NewCountProfileFromAlignment(po.al)
			if prof.NbCharacters() == 0 {
				return nil, "profile"
			}
			var b bytes.Buffer
			b.WriteString("site")
			for k := 0; k < prof.NbCharacters(); k++ {
				ch, _ := prof.NameAt(k)
				if ch == '\t' || ch == '\n' {
					return nil, "profile"
				}
				fmt.Fprintf(&b, "\t%c", ch)
			}
			b.WriteString("\n")
			for site := 0; site < po.al.Length(); site++ {
				fmt.Fprintf(&b, "%d", site)
				for k := 0; k < prof.NbCharacters(); k++ {
					n, _ := prof.CountAt(k, site)
					fmt.Fprintf(&b, "\t%d", n)
				}
				b.WriteString("\n")
			}
			pf := filepath.Join(c.dir, "profile.txt")
			if os.WriteFile(pf, b.Bytes(), 0o644) != nil {
				return nil, "profile"
			}
			argv = append(argv, "--count-profile", pf)
		}
		nrows := o.sb.NbSequences()
		return &cliCall{argv: argv, query: true, ret: func(stdout, stderr string, ret map[string]interface{}) bool {
			lines := strings.Split(strings.TrimRight(stdout, "\n"), "\n")
			if len(lines) != nrows {
				return false
			}
			u, nw, bo := []int{}, []int{}, []int{}
			for _, l := range lines {
				f := strings.Split(l, "\t")
				want := 2
				if hasprof {
					want = 4
				}
				if len(f) != want {
					return false
				}
				v := []int{}
				for _, x := range f[1:] {
					n, err := strconv.Atoi(x)
					if err != nil {
						return false
					}
					v = append(v, n)
				}
				u = append(u, v[0])
				if hasprof {
					nw, bo = append(nw, v[1]), append(bo, v[2])
				}
			}
			ret["uniq"], ret["new"], ret["both"] = u, nw, bo
			return true
		}}, ""
	case "CountDifferences":
		if !needsAlign() {
			return nil, "bag"
		}
		nrows := o.sb.NbSequences()
		return &cliCall{argv: []string{"diff", "--counts"}, query: true, ret: func(stdout, stderr string, ret map[string]interface{}) bool {
			lines := strings.Split(strings.TrimRight(stdout, "\n"), "\n")
			if len(lines) != nrows {
				return false
			}
			head := strings.Split(lines[0], "\t")
			all := [][]int{}
			for _, d := range head[1:] {
				if len(d) != 2 {
					return false
				}
				all = append(all, []int{int(d[0]), int(d[1])})
			}
			rows := [][][]int{}
			for _, l := range lines[1:] {
				f := strings.Split(l, "\t")
				if len(f) != len(head) {
					return false
				}
				row := [][]int{}
				for k := 1; k < len(f); k++ {
					n, err := strconv.Atoi(f[k])
					if err != nil {
						return false
					}
					if n != 0 {
						row = append(row, []int{all[k-1][0], all[k-1][1], n})
					}
				}
				rows = append(rows, row)
			}
			ret["all"], ret["rows"] = all, rows
			return true
		}}, ""
	case "MaxCharStats":
		if !needsAlign() {
			return nil, "bag"
		}
		argv := []string{"stats", "maxchar"}
		if ab(a, "igaps") {
			argv = append(argv, "--ignore-gaps")
		}
		if ab(a, "ins") {
			argv = append(argv, "--ignore-n")
		}
		return &cliCall{argv: argv, query: true, ret: func(stdout, stderr string, ret map[string]interface{}) bool {
			lines := strings.Split(strings.TrimRight(stdout, "\n"), "\n")
			if len(lines) != o.al.Length()+1 || lines[0] != "site\tchar\tnb" {
				return false
			}
			out, occ := []int{}, []int{}
			for i, l := range lines[1:] {
				f := strings.Split(l, "\t")
				if len(f) != 3 || f[0] != strconv.Itoa(i) || len(f[1]) != 1 {
					return false
				}
				n, err := strconv.Atoi(f[2])
				if err != nil {
					return false
				}
				out, occ = append(out, int(f[1][0])), append(occ, n)
			}
			ret["out"], ret["occur"], ret["total"] = out, occ, []int{}
			return true
		}}, ""
	case "NbVariableSites":
		// a line of the summary printed by `goalign stats`
		if !needsAlign() {
			return nil, "bag"
		}
		return &cliCall{argv: []string{"stats"}, query: true, ret: func(stdout, stderr string, ret map[string]interface{}) bool {
			for _, l := range strings.Split(stdout, "\n") {
				f := strings.Split(l, "\t")
				if len(f) == 2 && f[0] == "variable sites" {
					v, err := strconv.Atoi(f[1])
					if err != nil {
						return false
					}
					ret["v"] = v
					return true
				}
			}
			return false
		}}, ""
	case "Describe":
		// `goalign stats length | nseq | taxa`
		if o.sb.NbSequences() == 0 {
			return nil, "empty"
		}
		what := astrs(a, "what")
		isBag := o.al == nil
		return &cliCall{argv: append([]string{"stats", what}, un...), query: true, ret: func(stdout, stderr string, ret map[string]interface{}) bool {
			lines := strings.Split(strings.TrimRight(stdout, "\n"), "\n")
			switch what {
			case "nseq":
				v, err := strconv.Atoi(strings.TrimSpace(lines[0]))
				ret["nb"] = v
				return err == nil
			case "taxa":
				names := [][]int{}
				for k, l := range lines {
					f := strings.SplitN(l, "\t", 2)
					if len(f) != 2 || f[0] != strconv.Itoa(k) {
						return false
					}
					names = append(names, s2i(f[1]))
				}
				ret["names"] = names
				return true
			}
			if !isBag {
				v, err := strconv.Atoi(strings.TrimSpace(lines[0]))
				ret["len"] = v
				return err == nil
			}
			names, lens := [][]int{}, []int{}
			for _, l := range lines {
				// (the command prints: name, blank, TAB, blank, length)
				i := strings.LastIndex(l, " \t ")
				if i < 0 {
					return false
				}
				v, err := strconv.Atoi(l[i+3:])
				if err != nil {
					return false
				}
				names, lens = append(names, s2i(l[:i])), append(lens, v)
			}
			ret["names"], ret["lens"] = names, lens
			return true
		}}, ""
	case "EntropyAll":
		// `goalign compute entropy [-g] [-a]`: a table "alignment <TAB> site <TAB> entropy" (three decimals), or one average
		if !needsAlign() || o.sb.NbSequences() == 0 {
			return nil, "bag"
		}
		argv := []string{"compute", "entropy"}
		if ab(a, "rmgaps") {
			argv = append(argv, "-g")
		}
		avg := ab(a, "avg")
		if avg {
			argv = append(argv, "-a")
		}
		return &cliCall{argv: argv, query: true, ret: func(stdout, stderr string, ret map[string]interface{}) bool {
			lines := strings.Split(strings.TrimRight(stdout, "\n"), "\n")
			if len(lines) < 1 {
				return false
			}
			fs := []interface{}{}
			for k, l := range lines[1:] {
				f := strings.Split(l, "\t")
				if f[0] != "0" {
					break // the lines of the alignment that follows (two-alignment inputs)
				}
				if avg {
					if len(f) != 2 {
						return false
					}
					ret["avg"] = f[1]
					return lines[0] == "Alignment\tAvgEntropy"
				}
				if len(f) != 3 || f[1] != strconv.Itoa(k) {
					return false
				}
				fs = append(fs, f[2])
			}
			ret["f"] = fs
			return !avg && lines[0] == "Alignment\tSite\tEntropy"
		}}, ""
	case "Pssm":
		// `goalign compute pssm -n <norm> -c <pseudo-count> [-l]`: a header of alphabet characters, one line per site
		if !needsAlign() || o.sb.NbSequences() == 0 {
			return nil, "bag"
		}
		argv := []string{"compute", "pssm", "-n", strconv.Itoa(ai(a, "norm")), "-c", astrs(a, "pc")}
		if ab(a, "log") {
			argv = append(argv, "-l")
		}
		return &cliCall{argv: argv, query: true, ret: func(stdout, stderr string, ret map[string]interface{}) bool {
			lines := strings.Split(strings.TrimRight(stdout, "\n"), "\n")
			if len(lines) < 1 {
				return false
			}
			hdr := strings.Split(lines[0], "\t")
			if len(hdr) < 2 || hdr[0] != "" {
				return false
			}
			cols := make([][]string, len(hdr)-1)
			for k, l := range lines[1:] {
				f := strings.Split(l, "\t")
				if len(f) == len(hdr) && f[0] == "" {
					break // the table of the alignment that follows (two-alignment inputs)
				}
				if len(f) != len(hdr) || f[0] != strconv.Itoa(k+1) {
					return false
				}
				for j := range cols {
					cols[j] = append(cols[j], f[j+1])
				}
			}
			m := []map[string]interface{}{}
			for j, c := range hdr[1:] {
				if len(c) != 1 {
					return false
				}
				v := cols[j]
				if v == nil {
					v = []string{}
				}
				m = append(m, map[string]interface{}{"c": int(c[0]), "v": v})
			}
			ret["m"], ret["prec"] = m, 3
			return true
		}}, ""
	case "AvgAllelesPerSite":
		if !needsAlign() {
			return nil, "bag"
		}
		return &cliCall{argv: []string{"stats", "alleles"}, query: true, ret: func(stdout, stderr string, ret map[string]interface{}) bool {
			x, err := strconv.ParseFloat(strings.TrimSpace(stdout), 64)
			if err != nil {
				return false
			}
			ret["f"] = fstr(x)
			return true
		}}, ""
	// ---- names
	case "Rename", "RenameRegexp", "CleanNames", "TrimNames", "TrimNamesAuto":
		mapf := filepath.Join(c.dir, "names.map")
		os.Remove(mapf)
		var argv []string
		switch st.Op {
		case "Rename":
			var b bytes.Buffer
			for _, x := range alist(a, "map") {
				m := x.(map[string]interface{})
				f, t := i2b(toInts(m["f"])), i2b(toInts(m["t"]))
				if bytes.ContainsAny(f, "\t\n\r") || bytes.ContainsAny(t, "\t\n\r") {
					return nil, "names"
				}
				fmt.Fprintf(&b, "%s\t%s\n", f, t)
			}
			if b.Len() == 0 || os.WriteFile(mapf, b.Bytes(), 0o644) != nil {
				return nil, "names"
			}
			return &cliCall{argv: append([]string{"rename", "-m", mapf}, un...)}, ""
		case "RenameRegexp":
			lit, repl := abytes(a, "lit"), abytes(a, "repl")
			if !printable(lit) || (len(repl) > 0 && !printable(repl)) {
				return nil, "names"
			}
			argv = append([]string{"rename", "--regexp=" + regexp.QuoteMeta(string(lit)), "--replace=" + string(repl), "-m", mapf}, un...)
		case "CleanNames":
			argv = append([]string{"rename", "--clean-names", "-m", mapf}, un...)
		case "TrimNames":
			if _, shared := a["prev"]; shared {
				return nil, "names" // the command starts from an empty map
			}
			argv = append([]string{"trim", "name", "-n", strconv.Itoa(ai(a, "size")), "-m", mapf}, un...)
		case "TrimNamesAuto":
			if ai(a, "curid") != 1 {
				return nil, "curid" // the command always numbers from 1
			}
			argv = append([]string{"trim", "name", "--auto", "-m", mapf}, un...)
		}
		return &cliCall{argv: argv, ret: func(stdout, stderr string, ret map[string]interface{}) bool {
			b, err := os.ReadFile(mapf)
			if err != nil {
				return false
			}
			m := map[string]string{}
			for _, l := range strings.Split(string(b), "\n") {
				if l == "" {
					continue
				}
				f := strings.Split(l, "\t")
				if len(f) != 2 {
					return false
				}
				m[f[0]] = f[1]
			}
			ret["map"] = mapPairs(m)
			if st.Op == "TrimNamesAuto" {
				ret["curid"] = 1 + len(m)
			}
			return true
		}}, ""
	case "AppendSeqIdentifier":
		id := abytes(a, "id")
		if !printable(id) {
			return nil, "names"
		}
		argv := append([]string{"addid", "--name=" + string(id)}, un...)
		if ab(a, "right") {
			argv = append(argv, "--right")
		}
		return &cliCall{argv: argv}, ""
	case "TrimSequences":
		if !needsAlign() {
			return nil, "bag"
		}
		argv := []string{"trim", "seq", "--nb-char=" + strconv.Itoa(ai(a, "n"))}
		if ab(a, "fromstart") {
			argv = append(argv, "--from-start")
		}
		return &cliCall{argv: argv}, ""
	case "Unalign":
		if !needsAlign() {
			return nil, "bag"
		}
		return &cliCall{argv: []string{"unalign"}, outBag: true}, ""
	case "Transpose":
		if !needsAlign() {
			return nil, "bag"
		}
		return &cliCall{argv: []string{"transpose"}}, ""
	case "ShuffleSites":
		if !needsAlign() {
			return nil, "bag"
		}
		rf := filepath.Join(c.dir, "rogues.txt")
		os.Remove(rf)
		argv := []string{"shuffle", "sites", "--seed", strconv.Itoa(ai(a, "seed")), "--rate=" + fstr(afrac(a, "rp", "rq")), "--rogue=" + fstr(afrac(a, "gp", "gq")), "--rogue-file", rf}
		if ab(a, "first") {
			argv = append(argv, "--stable-rogues")
		}
		return &cliCall{argv: argv, ret: func(stdout, stderr string, ret map[string]interface{}) bool {
			b, err := os.ReadFile(rf)
			if err != nil {
				return false
			}
			names := [][]int{}
			for _, l := range strings.Split(strings.TrimSuffix(string(b), "\n"), "\n") {
				if len(b) == 0 {
					break
				}
				names = append(names, s2i(l))
			}
			ret["rogues"] = names
			return true
		}}, ""
	case "SimulateRogue":
		if !needsAlign() {
			return nil, "bag"
		}
		rf := filepath.Join(c.dir, "rogues.txt")
		os.Remove(rf)
		argv := []string{"shuffle", "rogue", "--seed", strconv.Itoa(ai(a, "seed")), "--prop-seq=" + fstr(afrac(a, "pp", "pq")), "--length=" + fstr(afrac(a, "lp", "lq")), "--rogue-file", rf}
		return &cliCall{argv: argv, ret: func(stdout, stderr string, ret map[string]interface{}) bool {
			b, err := os.ReadFile(rf)
			if err != nil {
				return false
			}
			rog := [][]int{}
			isRog := map[string]bool{}
			for _, l := range strings.Split(strings.TrimSuffix(string(b), "\n"), "\n") {
				if len(b) == 0 {
					break
				}
				rog = append(rog, s2i(l))
				isRog[l] = true
			}
			// the command prints the rogue names only: the others are the intact ones; "nothing was done" (the library's
			// nil answer for proportions outside [0,1]) is not printed either and is taken from the arguments
			intact := [][]int{}
			o.sb.IterateChar(func(name string, sq []uint8) bool {
				if !isRog[name] {
					intact = append(intact, s2i(name))
				}
				return false
			})
			pp, pq, lp, lq := ai(a, "pp"), ai(a, "pq"), ai(a, "lp"), ai(a, "lq")
			ret["nil"] = pp < 0 || pp > pq || lp < 0 || lp > lq
			ret["rogue"], ret["intact"] = rog, intact
			return true
		}}, ""
	case "BuildBootstrap":
		if !needsAlign() {
			return nil, "bag"
		}
		old, _ := filepath.Glob(filepath.Join(c.dir, "boot_*"))
		for _, f := range old {
			os.Remove(f)
		}
		// one to three replicates, the LAST one is read back (whatever a replicate leaves behind for the next shows there);
		// every other whole-length call is partitioned in two blocks: each block of the replicate is a bootstrap of the
		// same block of the alignment
		sd := ai(a, "seed")
		if sd < 0 {
			sd = -sd
		}
		nrep := 1 + (sd+o.al.Length())%3
		argv := []string{"build", "seqboot", "-n", strconv.Itoa(nrep), "--seed", strconv.Itoa(ai(a, "seed")), "--frac=" + fstr(afrac(a, "fp", "fq")),
			"-o", filepath.Join(c.dir, "boot_")}
		call := &cliCall{files: []string{filepath.Join(c.dir, fmt.Sprintf("boot_%d.fa", nrep-1))}}
		if L := o.al.Length(); L >= 2 && (ai(a, "fp") <= 0 || ai(a, "fp") >= ai(a, "fq")) && (sd/3)%2 == 0 {
			k := 1 + (sd/6)%(L-1)
			pf := filepath.Join(c.dir, "bootpart.txt")
			if os.WriteFile(pf, []byte(fmt.Sprintf("M, p1 = 1-%d\nM, p2 = %d-%d\n", k, k+1, L)), 0o644) != nil {
				return nil, "names"
			}
			argv = append(argv, "--partition", pf, "--out-partition", filepath.Join(c.dir, "bootpart_out.txt"))
			call.extra = map[string]interface{}{"part": f64(k)}
		}
		call.argv = argv
		return call, ""
	case "Concat", "Append":
		// the other alignment goes through a second file (same --alphabet for both)
		oo := h.get(ai(a, "other"))
		if !needsAlign() || oo.al == nil || oo.sb.Alphabet() != o.sb.Alphabet() || oo == o {
			return nil, "bag"
		}
		ob, _, ok := fastaOf(oo)
		of := filepath.Join(c.dir, "other.fa")
		if !ok || os.WriteFile(of, ob, 0o644) != nil {
			return nil, "fasta"
		}
		return &cliCall{argv: []string{strings.ToLower(st.Op), of}}, ""
	case "ToUpper":
		return &cliCall{argv: append([]string{"toupper"}, un...)}, ""
	case "ToLower":
		return &cliCall{argv: append([]string{"tolower"}, un...)}, ""
	// ---- seeded random commands: judged by the same relations as the library calls (any admissible outcome)
	case "ShuffleSequences":
		return &cliCall{argv: append([]string{"shuffle", "seqs", "--seed", strconv.Itoa(ai(a, "seed"))}, un...)}, ""
	case "Swap":
		if !needsAlign() {
			return nil, "bag"
		}
		return &cliCall{argv: []string{"shuffle", "swap", "--seed", strconv.Itoa(ai(a, "seed")), "--rate=" + fstr(afrac(a, "rp", "rq")),
			"--pos=" + fstr(afrac(a, "posp", "posq"))}}, ""
	case "Recombine":
		if !needsAlign() {
			return nil, "bag"
		}
		argv := []string{"shuffle", "recomb", "--seed", strconv.Itoa(ai(a, "seed")), "--prop-seq=" + fstr(afrac(a, "pp", "pq")),
			"--prop-length=" + fstr(afrac(a, "lp", "lq"))}
		if ab(a, "swap") {
			argv = append(argv, "--swap")
		}
		return &cliCall{argv: argv}, ""
	case "Mutate":
		if !needsAlign() {
			return nil, "bag"
		}
		return &cliCall{argv: []string{"mutate", "snvs", "--seed", strconv.Itoa(ai(a, "seed")), "--rate=" + fstr(afrac(a, "rp", "rq"))}}, ""
	case "AddGaps":
		if !needsAlign() {
			return nil, "bag"
		}
		return &cliCall{argv: []string{"mutate", "gaps", "--seed", strconv.Itoa(ai(a, "seed")), "--rate=" + fstr(afrac(a, "lp", "lq")),
			"--prop-seq=" + fstr(afrac(a, "pp", "pq"))}}, ""
	case "Sample", "SampleSeqBag":
		if (st.Op == "Sample") != needsAlign() {
			return nil, "bag"
		}
		return &cliCall{argv: append([]string{"sample", "seqs", "--seed", strconv.Itoa(ai(a, "seed")), "--nb-seq=" + strconv.Itoa(ai(a, "nb"))}, un...)}, ""
	case "Rarefy":
		// `goalign sample rarefy -c <counts file> -n <nb>`: one line "name <TAB> count" per counted sequence
		if !needsAlign() {
			return nil, "bag"
		}
		var cb bytes.Buffer
		for _, x := range alist(a, "counts") {
			m := x.(map[string]interface{})
			nm := i2b(toInts(m["n"]))
			if !printable(nm) || bytes.ContainsAny(nm, "\t ") {
				return nil, "names"
			}
			fmt.Fprintf(&cb, "%s\t%d\n", string(nm), ai(m, "c"))
		}
		cf := filepath.Join(c.dir, "counts.txt")
		if os.WriteFile(cf, cb.Bytes(), 0o644) != nil {
			return nil, "counts"
		}
		return &cliCall{argv: []string{"sample", "rarefy", "--seed", strconv.Itoa(ai(a, "seed")), "-c", cf, "-n", strconv.Itoa(ai(a, "nb"))}}, ""
	case "RandSubAlign":
		if !needsAlign() {
			return nil, "bag"
		}
		return &cliCall{argv: []string{"sample", "sites", "--seed", strconv.Itoa(ai(a, "seed")), "--length=" + strconv.Itoa(ai(a, "len")),
			"--consecutive=" + strconv.FormatBool(ab(a, "consecutive"))}}, ""
	case "ReverseComplement":
		return &cliCall{argv: append([]string{"revcomp"}, un...)}, ""
	case "ReverseComplementSequences":
		// `revcomp name ...`: only the named rows (without a name the command works on every row: not this operation)
		argv := append([]string{"revcomp"}, un...)
		nms := alist(a, "names")
		if len(nms) == 0 {
			return nil, "names"
		}
		for _, x := range nms {
			nm := i2b(toInts(x))
			if len(nm) == 0 || !printable(nm) || nm[0] == '-' {
				return nil, "names"
			}
			argv = append(argv, string(nm))
		}
		return &cliCall{argv: argv}, ""
	case "Sort":
		return &cliCall{argv: append([]string{"sort"}, un...)}, ""
	case "Consensus":
		if !needsAlign() {
			return nil, "bag"
		}
		argv := []string{"consensus"}
		if ab(a, "igaps") {
			argv = append(argv, "--ignore-gaps")
		}
		if ab(a, "ins") {
			argv = append(argv, "--ignore-n")
		}
		return &cliCall{argv: argv}, ""
	case "DiffWithFirst":
		if !needsAlign() {
			return nil, "bag"
		}
		return &cliCall{argv: []string{"diff"}}, ""
	case "ReplaceMatchChars":
		if !needsAlign() {
			return nil, "bag"
		}
		return &cliCall{argv: []string{"diff", "--reverse"}}, ""
	case "Translate":
		code, ok := map[int]string{align.GENETIC_CODE_STANDARD: "standard", align.GENETIC_CODE_VETEBRATE_MITO: "mitov",
			align.GENETIC_CODE_INVETEBRATE_MITO: "mitoi"}[ai(a, "code")]
		if !ok {
			return nil, "code"
		}
		if ai(a, "frame") == -1 && o.al != nil {
			return nil, "3frames" // the three-frame translation of an alignment is the recorded finding of C01
		}
		return &cliCall{argv: append([]string{"translate", "--phase", strconv.Itoa(ai(a, "frame")), "--genetic-code", code}, un...)}, ""
	case "TranslateByReference":
		code, ok := map[int]string{align.GENETIC_CODE_STANDARD: "standard", align.GENETIC_CODE_VETEBRATE_MITO: "mitov",
			align.GENETIC_CODE_INVETEBRATE_MITO: "mitoi"}[ai(a, "code")]
		ref := abytes(a, "ref")
		if !ok || !printable(ref) || !needsAlign() {
			return nil, "code"
		}
		if ai(a, "frame") < 0 {
			return &cliCall{argv: []string{"translate", "--phase=" + strconv.Itoa(ai(a, "frame")), "--genetic-code", code, "--ref-seq=" + string(ref)}}, ""
		}
		return &cliCall{argv: []string{"translate", "--phase", strconv.Itoa(ai(a, "frame")), "--genetic-code", code, "--ref-seq=" + string(ref)}}, ""
	case "CodonAlign":
		// the nucleotide sequences go through a second FASTA file, read by the command with automatic alphabet detection
		nto := h.get(ai(a, "nt"))
		if !needsAlign() || nto.sb.NbSequences() == 0 {
			return nil, "bag"
		}
		var b bytes.Buffer
		type row struct{ n, s string }
		rows := []row{}
		nto.sb.IterateChar(func(name string, s []uint8) bool {
			rows = append(rows, row{name, string(s)})
			fmt.Fprintf(&b, ">%s\n%s\n", name, string(s))
			return false
		})
		back, err := fasta.NewParser(bytes.NewReader(b.Bytes())).ParseUnalign()
		if err != nil || back.NbSequences() != len(rows) || back.Alphabet() != nto.sb.Alphabet() {
			return nil, "fasta"
		}
		k, same := 0, true
		back.IterateChar(func(name string, s []uint8) bool {
			if name != rows[k].n || string(s) != rows[k].s {
				same = false
			}
			k++
			return false
		})
		ntf := filepath.Join(c.dir, "nt.fa")
		if !same || os.WriteFile(ntf, b.Bytes(), 0o644) != nil {
			return nil, "fasta"
		}
		return &cliCall{argv: []string{"codonalign", "-f", ntf}, outAlphabet: align.NUCLEOTIDS}, ""
	case "Deduplicate":
		logf := filepath.Join(c.dir, "dedup.log")
		os.Remove(logf)
		argv := append([]string{"dedup", "-l", logf}, un...)
		if ab(a, "nasgap") {
			argv = append(argv, "--n-as-gap")
		}
		return &cliCall{argv: argv, side: []sideFile{{logf, func(out1, decoy align.Alignment) int { return out1.NbSequences() }}}, ret: func(stdout, stderr string, ret map[string]interface{}) bool {
			b, ok := readSide(logf)
			if !ok {
				return false
			}
			groups := [][][]int{}
			for _, l := range strings.Split(string(b), "\n") {
				if l == "" {
					continue
				}
				gg := [][]int{}
				for _, n := range strings.Split(l, ",") {
					gg = append(gg, s2i(n))
				}
				groups = append(groups, gg)
			}
			ret["groups"] = groups
			// a name holding a comma cannot be told from two names
			full := true
			o.sb.IterateChar(func(name string, s []uint8) bool {
				if strings.ContainsAny(name, ",\n") {
					full = false
				}
				return false
			})
			return full
		}}, ""
	case "Compress":
		if !needsAlign() {
			return nil, "bag"
		}
		// (the weight file is written compressed two times in three: it must be complete and closed once the command returns,
		// wherever the alignment itself goes)
		wf := filepath.Join(c.dir, "weights"+[]string{"", ".gz", ".xz"}[(o.sb.NbSequences()+o.al.Length())%3])
		for _, x := range []string{"", ".gz", ".xz"} {
			os.Remove(filepath.Join(c.dir, "weights"+x))
		}
		return &cliCall{argv: []string{"compress", "--weight-out", wf}, side: []sideFile{{wf, func(out1, decoy align.Alignment) int { return out1.Length() }}}, ret: func(stdout, stderr string, ret map[string]interface{}) bool {
			w, ok := readInts(wf)
			if !ok { // a file that cannot be read back (empty or truncated compressed stream) reports nothing: logged as such
				w = []int{-1}
			}
			ret["w"] = w
			return true
		}}, ""
	case "Mask":
		// with --ref-seq the command first converts the window from reference coordinates (RefCoordinates), then masks:
		// composed in the specification
		ref := abytes(a, "ref")
		if !needsAlign() || (len(ref) != 0 && !printable(ref)) {
			return nil, "ref"
		}
		repl := abytes(a, "repl")
		if !printable(repl) {
			return nil, "repl"
		}
		argv := []string{"mask", "--start=" + strconv.Itoa(ai(a, "start")), "--length=" + strconv.Itoa(hugeLen(ai(a, "len"))), "--replace=" + string(repl)}
		if len(ref) != 0 {
			argv = append(argv, "--ref-seq="+string(ref))
		}
		if ab(a, "nogap") {
			argv = append(argv, "--no-gaps")
		}
		if ab(a, "noref") {
			argv = append(argv, "--no-ref")
		}
		return &cliCall{argv: argv}, ""
	case "MaskPositions":
		ref, repl := abytes(a, "ref"), abytes(a, "repl")
		pos := aints(a, "pos")
		if !needsAlign() || (len(ref) != 0 && !printable(ref)) || !printable(repl) || len(pos) == 0 {
			return nil, "repl"
		}
		ps := []string{}
		for _, x := range pos {
			ps = append(ps, strconv.Itoa(x))
		}
		argv := []string{"mask", "--pos=" + strings.Join(ps, ","), "--replace=" + string(repl)}
		if len(ref) != 0 {
			argv = append(argv, "--ref-seq="+string(ref))
		}
		if ab(a, "nogap") {
			argv = append(argv, "--no-gaps")
		}
		if ab(a, "noref") {
			argv = append(argv, "--no-ref")
		}
		return &cliCall{argv: argv}, ""
	case "MaskOccurences", "MaskUnique":
		if !needsAlign() {
			return nil, "bag"
		}
		repl, ref := abytes(a, "repl"), abytes(a, "ref")
		if !printable(repl) || (len(ref) > 0 && !printable(ref)) {
			return nil, "repl"
		}
		max := 1
		if st.Op == "MaskOccurences" {
			max = ai(a, "max")
		}
		argv := []string{"mask", "--unique", "--at-most", strconv.Itoa(max), "--replace=" + string(repl)}
		if len(ref) > 0 {
			argv = append(argv, "--ref-seq="+string(ref))
		}
		return &cliCall{argv: argv}, ""
	case "RefCoordinates":
		// `subseq --ref-seq` = the window of RefCoordinates, then SubAlign on it (composed in the specification)
		nm := abytes(a, "name")
		if !needsAlign() || !printable(nm) {
			return nil, "names"
		}
		return &cliCall{argv: []string{"subseq", "--ref-seq=" + string(nm), "--start=" + strconv.Itoa(ai(a, "start")), "--length=" + strconv.Itoa(hugeLen(ai(a, "len")))}}, ""
	case "Split":
		if !needsAlign() {
			return nil, "bag"
		}
		text, names := partitionText(a)
		pf := filepath.Join(c.dir, "partition.txt")
		if os.WriteFile(pf, []byte(text), 0o644) != nil {
			return nil, "names"
		}
		files := []string{}
		old, _ := filepath.Glob(filepath.Join(c.dir, "sp_*"))
		for _, f := range old {
			os.Remove(f)
		}
		for _, n := range names {
			files = append(files, filepath.Join(c.dir, "sp_"+n+".fa"))
		}
		return &cliCall{argv: []string{"split", "--partition", pf, "-o", filepath.Join(c.dir, "sp_")}, files: files}, ""
	case "Extract":
		// `goalign extract`: a coordinate file with one named region (blocks as comma-separated starts / ends, optional
		// strand column), one output file per region in the output folder
		ref := abytes(a, "ref")
		if !needsAlign() || (len(ref) != 0 && !printable(ref)) {
			return nil, "ref"
		}
		var ss, es []string
		for _, b := range alist(a, "blocks") {
			m := b.(map[string]interface{})
			ss, es = append(ss, strconv.Itoa(ai(m, "s"))), append(es, strconv.Itoa(ai(m, "e")))
		}
		if len(ss) == 0 {
			return nil, "blocks"
		}
		coords := strings.Join(ss, ",") + "\t" + strings.Join(es, ",")
		line := coords + "\tex"
		if ab(a, "minus") {
			line += "\t-"
		} else if len(ss)%2 == 0 {
			line += "\t+"
		}
		// the same region once more under another name and on the plus strand, before the one that is read back:
		// every region of the file gets its own output, none inherits anything from the previous one
		line = coords + "\tother\n" + line + "\n"
		cf := filepath.Join(c.dir, "coords.txt")
		if os.WriteFile(cf, []byte(line), 0o644) != nil {
			return nil, "coords"
		}
		out := filepath.Join(c.dir, "pre_ex_suf.fa")
		os.Remove(out)
		argv := []string{"extract", "--coordinates", cf, "-o", c.dir, "--prefix", "pre_", "--suffix", "_suf"}
		if len(ref) != 0 {
			argv = append(argv, "--ref-seq="+string(ref))
		}
		if ai(a, "code") >= 0 {
			argv = append(argv, "--translate", strconv.Itoa(ai(a, "code")))
		}
		return &cliCall{argv: argv, files: []string{out}}, ""
	case "SelectSites", "RefSites", "InversePositions":
		// `subsites`: the listed columns; with --ref-seq the positions are first mapped through the reference
		// (RefSites), with --reverse complemented (InversePositions) - composed in the specification
		sites := aints(a, "sites")
		if !needsAlign() || len(sites) == 0 {
			return nil, "sites" // the command refuses an empty list itself
		}
		sf := filepath.Join(c.dir, "sites.txt")
		var b bytes.Buffer
		for _, x := range sites {
			fmt.Fprintf(&b, "%d\n", x)
		}
		if os.WriteFile(sf, b.Bytes(), 0o644) != nil {
			return nil, "sites"
		}
		argv := []string{"subsites", "--sitefile", sf}
		switch st.Op {
		case "RefSites":
			nm := abytes(a, "name")
			if !printable(nm) {
				return nil, "names"
			}
			argv = append(argv, "--ref-seq="+string(nm))
			// every other time with --reverse too: the complement of the columns the reference positions designate
			if (len(sites)+sites[0]+len(nm))%2 == 0 {
				argv = append(argv, "--reverse")
				return &cliCall{argv: argv, extra: map[string]interface{}{"rev": true}}, ""
			}
		case "InversePositions":
			argv = append(argv, "--reverse")
		}
		return &cliCall{argv: argv}, ""
	case "InverseCoordinates":
		// `subseq --reverse`: everything but the window (the blocks of InverseCoordinates, extracted and concatenated)
		if !needsAlign() {
			return nil, "bag"
		}
		return &cliCall{argv: []string{"subseq", "--reverse", "--start=" + strconv.Itoa(ai(a, "start")), "--length=" + strconv.Itoa(hugeLen(ai(a, "len")))}}, ""
	case "SubAlign":
		if !needsAlign() {
			return nil, "bag"
		}
		return &cliCall{argv: []string{"subseq", "-s", strconv.Itoa(ai(a, "start")), "-l", strconv.Itoa(hugeLen(ai(a, "len")))}}, ""
	case "Replace":
		old, nw := abytes(a, "old"), abytes(a, "new")
		if !printable(old) || !printable(nw) {
			return nil, "repl"
		}
		return &cliCall{argv: append([]string{"replace", "--old=" + string(old), "--new=" + string(nw)}, un...)}, ""
	}
	return nil, "op"
}

// fastaOf writes the receiver and checks that reading the file back gives the same object.
func fastaOf(o *obj) ([]byte, string, bool) {
	alpha := ""
	switch o.sb.Alphabet() {
	case align.NUCLEOTIDS:
		alpha = "nt"
	case align.AMINOACIDS:
		alpha = "aa"
	default:
		return nil, "", false
	}
	if o.sb.NbSequences() == 0 {
		return nil, "", false
	}
	var buf bytes.Buffer
	type row struct {
		n string
		s string
	}
	rows := []row{}
	o.sb.IterateChar(func(name string, s []uint8) bool {
		rows = append(rows, row{name, string(s)})
		fmt.Fprintf(&buf, ">%s\n%s\n", name, string(s))
		return false
	})
	// (the alphabet is not asked of the library's readers - a reader that mistypes its input would then switch the
	// command off exactly where it matters: the declared alphabet must only be able to carry the residues, by the
	// harness's own table of the two alphabets)
	for _, r := range rows {
		for _, ch := range []byte(strings.ToUpper(r.s)) {
			common := strings.IndexByte("ACBRG?-.*DKSHMNVXTWY", ch) >= 0
			if !(common || (alpha == "nt" && (ch == 'U' || ch == 'O')) || (alpha == "aa" && strings.IndexByte("QEILFPZ", ch) >= 0)) {
				return nil, "", false
			}
		}
	}
	p := fasta.NewParser(bytes.NewReader(buf.Bytes()))
	p.Alphabet(align.BOTH)
	var back align.SeqBag
	var err error
	if o.al != nil {
		back, err = p.Parse()
	} else {
		back, err = p.ParseUnalign()
	}
	if err != nil || back.NbSequences() != len(rows) {
		return nil, "", false
	}
	i, same := 0, true
	back.IterateChar(func(name string, s []uint8) bool {
		if name != rows[i].n || string(s) != rows[i].s {
			same = false
		}
		i++
		return false
	})
	if !same {
		return nil, "", false
	}
	return buf.Bytes(), alpha, true
}

// cliStep runs the command-line twin of the step (if it has one and is sampled) and logs the Cli and Drop events.
func (h *heapRun) cliStep(env *Env, c *cliFront, id string, i int, st Step) {
	h.cliStepOnce(env, c, id, i, st, false)
	if _, seeded := st.A["seed"]; seeded {
		// a seeded command is run a second time: the same seed must give the same output (the two events are marked,
		// the trace specification compares marked repetitions of one call)
		h.cliStepOnce(env, c, id, i, st, true)
	}
}

func (h *heapRun) cliStepOnce(env *Env, c *cliFront, id string, i int, st Step, again bool) {
	if st.Op == "New" || st.Recv < 1 || st.Recv > len(h.objs) || (c.max > 0 && c.ran >= c.max && !again) {
		return
	}
	hs := fnv.New32a()
	fmt.Fprintf(hs, "%s/%d/%d", id, i, env.Seed)
	if int(hs.Sum32()%uint32(c.every)) != 0 {
		return
	}
	o := h.get(st.Recv)
	var call *cliCall
	var why string
	func() {
		defer func() {
			if r := recover(); r != nil {
				call, why = nil, "args"
			}
		}()
		call, why = c.plan(h, o, st)
	}()
	if call == nil {
		if why != "op" {
			c.skipped[why]++
		}
		return
	}
	call.multiOK = multiOps[st.Op]
	in, alpha, ok := fastaOf(o)
	if !ok {
		c.skipped["fasta"]++
		return
	}
	argv := append(append([]string{}, call.argv...), "--alphabet", alpha)
	// one time in three (when the command loops over its input) the receiver comes second in a two-alignment Phylip input
	var decoy align.Alignment
	if (call.multiOK || call.queryMulti != nil) && o.al != nil && o.al.Length() >= 1 && (hs.Sum32()/uint32(c.every))%3 == 1 {
		decoy = decoyOf(o.al)
		parseAs := o.al.Alphabet()
		if (hs.Sum32()/uint32(c.every)/3)%2 == 1 && call.queryMulti == nil {
			// the other flavour: a first alignment of the OTHER alphabet, alphabets left to automatic detection (each
			// alignment of a file is typed on its own)
			decoy = align.NewAlign(align.AMINOACIDS)
			rows := [][2]string{{"d1", "MKVLWEF"}, {"d2", "MKV-WEF"}, {"d3", "MRVLWQF"}}
			if o.al.Alphabet() == align.AMINOACIDS {
				decoy = align.NewAlign(align.NUCLEOTIDS)
				rows = [][2]string{{"d1", "ACGTNAC"}, {"d2", "AC-TNAC"}, {"d3", "ATGTCAC"}}
			}
			for _, r := range rows {
				decoy.AddSequenceChar(r[0], []byte(r[1]), "")
			}
			parseAs = align.BOTH
		}
		stream := phylip.WriteAlignment(decoy, false, false, false) + phylip.WriteAlignment(o.al, false, false, false)
		// (the stream is not read back with the library's Phylip parser: a defect of that parser would then hide itself)
		plain := true
		o.al.IterateChar(func(name string, sq []uint8) bool {
			if name == "" || strings.ContainsAny(name, " \t\r\n") || !printable(sq) {
				plain = false
			}
			return false
		})
		if plain && (parseAs != align.BOTH || o.sb.DetectAlphabet() == o.sb.Alphabet()) {
			in = []byte(stream)
			argv = append(argv, "-p")
			if parseAs == align.BOTH {
				argv = append(append([]string{}, call.argv...), "--alphabet", "auto", "-p")
			}
		} else {
			decoy = nil
		}
	}
	cmd := exec.Command(c.bin, argv...)
	cmd.Dir = c.dir // (rename --regexp writes a file called "none" into the working directory)
	cmd.Stdin = bytes.NewReader(in)
	var stdout, stderr bytes.Buffer
	cmd.Stdout, cmd.Stderr = &stdout, &stderr
	err := cmd.Run()
	c.ran++
	ret := map[string]interface{}{}
	_, seeded := st.A["seed"]
	ev := HeapEvent{H: id, I: i + 1, Op: "Cli", Recv: st.Recv, Ret: ret, Mk: seeded,
		A: map[string]interface{}{"op": st.Op, "a": st.A, "full": false, "argv": strings.Join(argv, " ")}}
	if ev.A["a"] == nil {
		ev.A["a"] = map[string]interface{}{"z": 0}
	}
	if call.extra != nil {
		m := map[string]interface{}{}
		for k, v := range st.A {
			m[k] = v
		}
		for k, v := range call.extra {
			m[k] = v
		}
		ev.A["a"] = m
	}
	added := 0
	outText, errText := stdout.String(), stderr.String()
	if decoy != nil {
		// only the receiver's share of the outputs is judged; a failure cannot be attributed to either alignment
		if err != nil {
			// whose failure is it?  The first alignment alone is given to the same command: if that succeeds, the failure
			// belongs to the receiver's turn and is logged as such; otherwise nothing can be said
			alone := exec.Command(c.bin, argv...)
			alone.Dir = c.dir
			alone.Stdin = strings.NewReader(phylip.WriteAlignment(decoy, false, false, false))
			if alone.Run() != nil {
				c.skipped["multi"]++
				return
			}
			ev.A["multi"] = true
			c.multi++
		}
	}
	if decoy != nil && err == nil && call.queryMulti != nil {
		part, good := call.queryMulti(outText)
		if !good {
			c.skipped["multi"]++
			return
		}
		outText = part
		ev.A["multi"] = true
		c.multi++
	} else if decoy != nil && err == nil {
		outs, good := phylipAll(outText, align.BOTH)
		if !good || len(outs) != 2 {
			c.skipped["multi"]++
			return
		}
		var b bytes.Buffer
		outs[1].IterateChar(func(name string, s []uint8) bool {
			fmt.Fprintf(&b, ">%s\n%s\n", name, string(s))
			return false
		})
		outText = b.String()
		for _, sf := range call.side {
			dropLines(sf.path, sf.first(outs[0], decoy))
		}
		el := strings.Split(strings.TrimRight(errText, "\n"), "\n")
		errText = strings.Join(el[len(el)/2:], "\n")
		ev.A["multi"] = true
		c.multi++
	}
	if err != nil && call.okOnly {
		if _, isExit := err.(*exec.ExitError); isExit {
			c.skipped["otherrow"]++
			return
		}
	}
	if err != nil {
		if _, isExit := err.(*exec.ExitError); !isExit {
			fmt.Fprintln(os.Stderr, "driver: cannot run goalign:", err)
			os.Exit(3)
		}
		ev.Kind, ev.Msg = "err", strings.TrimSpace(stderr.String())
		if strings.Contains(ev.Msg, "panic:") || strings.Contains(ev.Msg, "goroutine ") {
			ev.Kind = "panic"
		}
	} else if call.query {
		ev.Kind = "ok"
		full := call.ret(outText, errText, ret)
		if !full {
			c.skipped["output"]++
			return
		}
		ev.A["full"] = true
	} else {
		// what the command printed (or wrote, one file per object), as objects of the receiver's kind and alphabet
		texts := []string{outText}
		if call.files != nil {
			texts = []string{}
			for _, f := range call.files {
				b, e := os.ReadFile(f)
				if e != nil {
					c.skipped["output"]++
					return
				}
				texts = append(texts, string(b))
			}
		}
		nadded := 0
		for _, text := range texts {
			var no *obj
			outAl := o.sb.Alphabet()
			if call.outAlphabet != 0 {
				outAl = call.outAlphabet
			}
			if o.al != nil && !call.outBag {
				al := align.NewAlign(outAl)
				no = &obj{"align", al, al}
			} else {
				no = &obj{"bag", nil, align.NewSeqBag(outAl)}
			}
			// the FASTA the writer prints: a '>' line per entry, then its residues (possibly none) on the following lines
			good := true
			var name string
			var seq []byte
			have := false
			seenNames := map[string]bool{}
			flush := func() {
				if have {
					if seenNames[name] {
						good = false // the object cannot be rebuilt with the names as printed (AddSequence renames duplicates)
					}
					seenNames[name] = true
					if e := no.sb.AddSequenceChar(name, seq, ""); e != nil {
						good = false
					}
				}
			}
			for _, line := range strings.Split(text, "\n") {
				if strings.HasPrefix(line, ">") {
					flush()
					name, seq, have = line[1:], []byte{}, true
				} else if have {
					seq = append(seq, []byte(line)...)
				} else if strings.TrimSpace(line) != "" {
					good = false
				}
			}
			flush()
			if !good {
				c.skipped["output"]++
				h.objs = h.objs[:len(h.objs)-nadded]
				return
			}
			h.objs = append(h.objs, no)
			nadded++
		}
		added = nadded
		ev.Kind = "ok"
		if call.ret != nil {
			ev.A["full"] = call.ret(outText, errText, ret)
		}
	}
	ev.Objs = make([]ObjView, len(h.objs))
	for j, x := range h.objs {
		func() {
			defer func() {
				if r := recover(); r != nil {
					ev.Objs[j] = ObjView{K: "broken", Rows: []Row{}, ByIdx: []Row{}, ByName: []nameView{}}
				}
			}()
			ev.Objs[j] = project(x, h.names, h.via+j)
		}()
	}
	env.Emit(ev)
	for ; added > 0; added-- {
		h.objs = h.objs[:len(h.objs)-1]
		env.Emit(map[string]interface{}{"h": id, "i": i + 1, "op": "Drop"})
	}
}
