module verif/harness

go 1.21.6

require (
	github.com/evolbioinfo/goalign v0.0.0
	gonum.org/v1/gonum v0.9.3
)

require (
	github.com/armon/go-radix v1.0.0 // indirect
	github.com/ulikunitz/xz v0.5.10 // indirect
)

replace github.com/evolbioinfo/goalign => /repo
