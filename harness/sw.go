package main

// Family "sw": pairwise local alignment (property C09).  Cases come from Gen_SW (TLC) and from a seeded generator of
// related pairs (mutated copies with insertions/deletions inside unrelated flanks).  Scores travel as integers = 2 x value.

import (
	"encoding/json"
	"fmt"
	"math"
	"math/rand"

	"github.com/evolbioinfo/goalign/align"
)

type swScheme struct {
	Mode     string `json:"mode"`
	Match    int    `json:"match"`
	Mismatch int    `json:"mismatch"`
	Open     int    `json:"open"`
	Ext      int    `json:"ext"`
}
type swCase struct {
	S1  []int    `json:"s1"`
	S2  []int    `json:"s2"`
	Sch swScheme `json:"sch"`
}
type swObs struct {
	R1     []int `json:"r1"`
	R2     []int `json:"r2"`
	Score  int   `json:"score"`
	St1    int   `json:"st1"`
	St2    int   `json:"st2"`
	E1     int   `json:"e1"`
	E2     int   `json:"e2"`
	Nm     int   `json:"nm"`
	Nmm    int   `json:"nmm"`
	Ng     int   `json:"ng"`
	Len    int   `json:"len"`
	After1 []int `json:"after1"`
	After2 []int `json:"after2"`
}
type swEvent struct {
	ID   string   `json:"id"`
	S1   []int    `json:"s1"`
	S2   []int    `json:"s2"`
	Sch  swScheme `json:"sch"`
	Algo string   `json:"algo"`
	Kind string   `json:"kind"`
	Msg  string   `json:"msg"`
	Obs  swObs    `json:"obs"`
}

func runSW(env *Env, id string, c swCase) {
	ev := swEvent{ID: id, S1: c.S1, S2: c.S2, Sch: c.Sch, Algo: "sw"}
	ev.Obs = swObs{R1: []int{}, R2: []int{}, After1: []int{}, After2: []int{}}
	func() {
		defer func() {
			if r := recover(); r != nil {
				if hp, ok := r.(harnessPanic); ok {
					panic(string(hp))
				}
				ev.Kind, ev.Msg = "panic", fmt.Sprint(r)
			}
		}()
		q1 := align.NewSequence("s1", i2b(c.S1), "")
		q2 := align.NewSequence("s2", i2b(c.S2), "")
		a := align.NewPwAligner(q1, q2, align.ALIGN_ALGO_SW)
		if c.Sch.Mode == "scores" {
			a.SetScore(float64(c.Sch.Match)/2, float64(c.Sch.Mismatch)/2)
		}
		a.SetGapOpenScore(float64(c.Sch.Open) / 2)
		a.SetGapExtendScore(float64(c.Sch.Ext) / 2)
		_, err := a.Alignment()
		ev.Obs.After1, ev.Obs.After2 = b2i(q1.SequenceChar()), b2i(q2.SequenceChar())
		if err != nil {
			ev.Kind, ev.Msg = "err", err.Error()
			return
		}
		ev.Kind = "ok"
		sc := a.MaxScore() * 2
		if sc != math.Trunc(sc) {
			ev.Kind, ev.Msg = "panic", fmt.Sprintf("score %v is not a multiple of 0.5", a.MaxScore())
			return
		}
		o := &ev.Obs
		o.R1, o.R2, o.Score = b2i(a.Seq1Ali()), b2i(a.Seq2Ali()), int(sc)
		o.St1, o.St2 = a.AlignStarts()
		o.E1, o.E2 = a.AlignEnds()
		o.Nm, o.Nmm, o.Ng, o.Len = a.NbMatches(), a.NbMisMatches(), a.NbGaps(), a.Length()
	}()
	env.Emit(ev)
}

func swFamily(env *Env) error {
	n := 0
	err := env.Cases(func(line []byte) error {
		var c swCase
		if err := json.Unmarshal(line, &c); err != nil {
			return fmt.Errorf("bad sw case: %v", err)
		}
		runSW(env, fmt.Sprintf("g%d", n), c)
		n++
		return nil
	})
	if err != nil {
		return err
	}
	rng := rand.New(rand.NewSource(env.Seed))
	maxl := 24
	if env.Tier == "thorough" {
		maxl = 40
	}
	for i := 0; i < env.N; i++ {
		var c swCase
		var alpha []byte
		switch rng.Intn(4) {
		case 0:
			c.Sch.Mode, alpha = "dna", []byte("ACGTACGTACGTRYNacgtU")
		case 1:
			c.Sch.Mode, alpha = "prot", []byte("ARNDCQEGHILKMFPSTWYVBZX*ILQEFP")
		default:
			c.Sch.Mode, alpha = "scores", []byte("ACGT")
			if rng.Intn(3) == 0 {
				alpha = []byte("ACGTacgt")
			}
			c.Sch.Match = 2 * (1 + rng.Intn(5))
			c.Sch.Mismatch = -(1 + rng.Intn(10))
		}
		c.Sch.Ext = -(1 + rng.Intn(6))
		c.Sch.Open = c.Sch.Ext - rng.Intn(20)
		if rng.Intn(4) == 0 {
			c.Sch.Open, c.Sch.Ext = -20, -1 // the defaults
		}
		core := make([]int, 1+rng.Intn(maxl))
		for k := range core {
			core[k] = int(alpha[rng.Intn(len(alpha))])
		}
		flank := func() []int {
			f := make([]int, rng.Intn(8))
			for k := range f {
				f[k] = int(alpha[rng.Intn(len(alpha))])
			}
			return f
		}
		mut := []int{}
		for _, ch := range core {
			switch r := rng.Intn(20); {
			case r == 0: // deletion
			case r == 1:
				mut = append(mut, ch, int(alpha[rng.Intn(len(alpha))]))
			case r == 2:
				mut = append(mut, int(alpha[rng.Intn(len(alpha))]))
			default:
				mut = append(mut, ch)
			}
		}
		c.S1 = append(append(flank(), core...), flank()...)
		c.S2 = append(append(flank(), mut...), flank()...)
		if len(c.S2) == 0 {
			c.S2 = []int{int(alpha[0])}
		}
		if c.Sch.Mode == "prot" { // make sure the protein table is selected
			c.S1 = append(c.S1, 'Q')
			c.S2 = append([]int{'E'}, c.S2...)
		}
		if rng.Intn(2) == 0 {
			c.S1, c.S2 = c.S2, c.S1
		}
		runSW(env, fmt.Sprintf("r%d_%d", env.Seed, i), c)
	}
	return nil
}

func init() { families["sw"] = swFamily }
