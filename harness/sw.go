package main

// Family "sw": pairwise local alignment (property C09).  Cases come from Gen_SW (TLC) and from a seeded generator of
// related pairs (mutated copies with insertions/deletions inside unrelated flanks).  Scores travel as integers = 2 x value.

import (
	"encoding/json"
	"fmt"
	"math"
	"math/rand"
	"os"
	"path/filepath"
	"strconv"
	"strings"

	"github.com/evolbioinfo/goalign/align"
)

type swScheme struct {
	Mode     string `json:"mode"`
	Match    int    `json:"match"`
	Mismatch int    `json:"mismatch"`
	Open     int    `json:"open"`
	Ext      int    `json:"ext"`
	Unit     int    `json:"unit,omitempty"` // scores are integers in units of 1/Unit (2 when absent)
}

func (s swScheme) unit() float64 {
	if s.Unit > 0 {
		return float64(s.Unit)
	}
	return 2
}

type swCase struct {
	S1  []int    `json:"s1"`
	S2  []int    `json:"s2"`
	Sch swScheme `json:"sch"`
}
type swObs struct {
	R1     []int `json:"r1"`
	R2     []int `json:"r2"`
	Score  int   `json:"score"`
	St1    int   `json:"st1"`
	St2    int   `json:"st2"`
	E1     int   `json:"e1"`
	E2     int   `json:"e2"`
	Nm     int   `json:"nm"`
	Nmm    int   `json:"nmm"`
	Ng     int   `json:"ng"`
	Len    int   `json:"len"`
	After1 []int `json:"after1"`
	After2 []int `json:"after2"`
}
type swEvent struct {
	ID   string   `json:"id"`
	S1   []int    `json:"s1"`
	S2   []int    `json:"s2"`
	Sch  swScheme `json:"sch"`
	Algo string   `json:"algo"`
	Kind string   `json:"kind"`
	Msg  string   `json:"msg"`
	Obs  swObs    `json:"obs"`
}

var swCalls int

// reconfigure puts the scheme of the case back on an aligner that has already been used (match / mismatch scores can be
// set again; the built-in matrix cannot be selected again once SetScore was called, so those cases get a new aligner)
func reconfigure(a align.PairwiseAligner, q1, q2 align.Sequence, c swCase) align.PairwiseAligner {
	if c.Sch.Mode == "scores" {
		a.SetScore(float64(c.Sch.Match)/c.Sch.unit(), float64(c.Sch.Mismatch)/c.Sch.unit())
		return a
	}
	return align.NewPwAligner(q1, q2, align.ALIGN_ALGO_SW)
}

func runSW(env *Env, id string, c swCase) {
	ev := swEvent{ID: id, S1: c.S1, S2: c.S2, Sch: c.Sch, Algo: "sw"}
	ev.Obs = swObs{R1: []int{}, R2: []int{}, After1: []int{}, After2: []int{}}
	func() {
		defer func() {
			if r := recover(); r != nil {
				if hp, ok := r.(harnessPanic); ok {
					panic(string(hp))
				}
				ev.Kind, ev.Msg = "panic", fmt.Sprint(r)
			}
		}()
		q1 := align.NewSequence("s1", i2b(c.S1), "")
		q2 := align.NewSequence("s2", i2b(c.S2), "")
		var a align.PairwiseAligner = align.NewPwAligner(q1, q2, align.ALIGN_ALGO_SW)
		if c.Sch.Mode == "scores" {
			a.SetScore(float64(c.Sch.Match)/c.Sch.unit(), float64(c.Sch.Mismatch)/c.Sch.unit())
		}
		if swCalls%5 == 4 {
			// the aligner is first used with another scheme (high match score), then configured for this case: nothing
			// of the first answer may be left in the second
			a.SetScore(100, -1)
			a.SetGapOpenScore(-1)
			a.SetGapExtendScore(-1)
			a.Alignment()
			a = reconfigure(a, q1, q2, c)
		}
		a.SetGapOpenScore(float64(c.Sch.Open) / c.Sch.unit())
		a.SetGapExtendScore(float64(c.Sch.Ext) / c.Sch.unit())
		_, err := a.Alignment()
		if swCalls++; err == nil && swCalls%3 == 0 {
			_, err = a.Alignment() // asked a second time for its result: the same answer, counts included
		}
		ev.Obs.After1, ev.Obs.After2 = b2i(q1.SequenceChar()), b2i(q2.SequenceChar())
		if err != nil {
			ev.Kind, ev.Msg = "err", err.Error()
			return
		}
		ev.Kind = "ok"
		sc := math.Round(a.MaxScore() * c.Sch.unit())
		if math.Abs(sc-a.MaxScore()*c.Sch.unit()) > 1e-6 {
			ev.Kind, ev.Msg = "panic", fmt.Sprintf("score %v is not a multiple of 1/%v", a.MaxScore(), c.Sch.unit())
			return
		}
		o := &ev.Obs
		o.R1, o.R2, o.Score = b2i(a.Seq1Ali()), b2i(a.Seq2Ali()), int(sc)
		o.St1, o.St2 = a.AlignStarts()
		o.E1, o.E2 = a.AlignEnds()
		o.Nm, o.Nmm, o.Ng, o.Len = a.NbMatches(), a.NbMisMatches(), a.NbGaps(), a.Length()
	}()
	env.Emit(ev)
}

// swCli asks the same alignment of `goalign sw` (two sequences in a FASTA file; the rows come from the output, the
// positions, counts and score from the log file).
func swCli(dir, id string, c swCase) (ev swEvent, ok bool) {
	ev = swEvent{ID: id + ":cli", S1: c.S1, S2: c.S2, Sch: c.Sch, Algo: "sw"}
	ev.Obs = swObs{R1: []int{}, R2: []int{}, After1: c.S1, After2: c.S2}
	for _, s := range [][]int{c.S1, c.S2} {
		if len(s) == 0 || !printable(i2b(s)) {
			return ev, false
		}
	}
	in, out, lg := filepath.Join(dir, "sw_in.fa"), filepath.Join(dir, "sw_out.fa"), filepath.Join(dir, "sw_log.txt")
	os.Remove(out)
	os.Remove(lg)
	if os.WriteFile(in, []byte(fmt.Sprintf(">s1\n%s\n>s2\n%s\n", string(i2b(c.S1)), string(i2b(c.S2)))), 0o644) != nil {
		return ev, false
	}
	half := func(x int) string { return strconv.FormatFloat(float64(x)/c.Sch.unit(), 'g', -1, 64) }
	argv := []string{"sw", "-i", in, "-o", out, "-l", lg, "--gap-open=" + half(c.Sch.Open), "--gap-extend=" + half(c.Sch.Ext)}
	if c.Sch.Mode == "scores" {
		argv = append(argv, "--match="+half(c.Sch.Match), "--mismatch="+half(c.Sch.Mismatch))
	}
	_, errs, rc := runGoalign(nil, argv...)
	ev.Msg = "goalign " + strings.Join(argv, " ")
	if rc != 0 {
		ev.Kind, ev.Msg = cliKind(errs), ev.Msg+": "+strings.SplitN(errs, "\n", 2)[0]
		return ev, true
	}
	ob, _ := os.ReadFile(out)
	rows := fastaMap(string(ob))
	lb, _ := os.ReadFile(lg)
	num := map[string][]float64{}
	for _, l := range strings.Split(string(lb), "\n") {
		k := strings.Index(l, ":")
		if k < 0 {
			continue
		}
		for _, f := range strings.Split(strings.TrimSpace(l[k+1:]), ",") {
			if v, err := strconv.ParseFloat(f, 64); err == nil {
				num[l[:k]] = append(num[l[:k]], v)
			}
		}
	}
	need := map[string]int{"Query Start,End": 2, "Subject Start,End": 2, "Align length": 1, "Align Score": 1, "Align Matches": 1, "Align Mismatches": 1, "Align Gaps": 1}
	for k, n := range need {
		if len(num[k]) != n {
			return ev, false
		}
	}
	o := &ev.Obs
	o.R1, o.R2 = s2i(rows["s1"]), s2i(rows["s2"])
	o.St1, o.E1, o.St2, o.E2 = int(num["Query Start,End"][0]), int(num["Query Start,End"][1]), int(num["Subject Start,End"][0]), int(num["Subject Start,End"][1])
	o.Len, o.Nm, o.Nmm, o.Ng = int(num["Align length"][0]), int(num["Align Matches"][0]), int(num["Align Mismatches"][0]), int(num["Align Gaps"][0])
	sc := num["Align Score"][0] * c.Sch.unit() // (printed with two decimals)
	if math.Abs(sc-math.Round(sc)) > 1e-6 {
		return ev, false
	}
	o.Score = int(math.Round(sc))
	ev.Kind = "ok"
	return ev, true
}

func swFamily(env *Env) error {
	n := 0
	err := env.Cases(func(line []byte) error {
		var c swCase
		if err := json.Unmarshal(line, &c); err != nil {
			return fmt.Errorf("bad sw case: %v", err)
		}
		runSW(env, fmt.Sprintf("g%d", n), c)
		n++
		return nil
	})
	if err != nil {
		return err
	}
	rng := rand.New(rand.NewSource(env.Seed))
	maxl := 24
	if env.Tier == "thorough" {
		maxl = 40
	}
	for i := 0; i < env.N; i++ {
		var c swCase
		var alpha []byte
		switch rng.Intn(4) {
		case 0:
			c.Sch.Mode, alpha = "dna", []byte("ACGTACGTACGTRYNacgtU")
			if rng.Intn(3) == 0 {
				alpha = []byte("ACGTACGTSWRYKMBVHDNUX") // every symbol of the table's header
			}
		case 1:
			c.Sch.Mode, alpha = "prot", []byte("ARNDCQEGHILKMFPSTWYVBZX*ILQEFP")
		default:
			c.Sch.Mode, alpha = "scores", []byte("ACGT")
			if rng.Intn(3) == 0 {
				alpha = []byte("ACGTacgt")
			}
			c.Sch.Match = 2 * (1 + rng.Intn(5))
			c.Sch.Mismatch = -(1 + rng.Intn(10))
		}
		c.Sch.Ext = -(1 + rng.Intn(6))
		c.Sch.Open = c.Sch.Ext - rng.Intn(20)
		if rng.Intn(4) == 0 {
			c.Sch.Open, c.Sch.Ext = -20, -1 // the defaults
		} else if rng.Intn(4) == 0 {
			// penalties in tenths (0.1, 0.3, ... are not exact in binary)
			c.Sch.Unit = 10
			c.Sch.Ext = -(1 + rng.Intn(9))
			c.Sch.Open = c.Sch.Ext - rng.Intn(30)
			if c.Sch.Mode == "scores" {
				c.Sch.Match, c.Sch.Mismatch = 10*(1+rng.Intn(3)), -(1 + rng.Intn(30))
			}
		}
		core := make([]int, 1+rng.Intn(maxl))
		for k := range core {
			core[k] = int(alpha[rng.Intn(len(alpha))])
		}
		flank := func() []int {
			f := make([]int, rng.Intn(8))
			for k := range f {
				f[k] = int(alpha[rng.Intn(len(alpha))])
			}
			return f
		}
		mut := []int{}
		for _, ch := range core {
			switch r := rng.Intn(20); {
			case r == 0: // deletion
			case r == 1:
				mut = append(mut, ch, int(alpha[rng.Intn(len(alpha))]))
			case r == 2:
				mut = append(mut, int(alpha[rng.Intn(len(alpha))]))
			default:
				mut = append(mut, ch)
			}
		}
		c.S1 = append(append(flank(), core...), flank()...)
		c.S2 = append(append(flank(), mut...), flank()...)
		if len(c.S2) == 0 {
			c.S2 = []int{int(alpha[0])}
		}
		if c.Sch.Mode == "prot" { // make sure the protein table is selected
			c.S1 = append(c.S1, 'Q')
			c.S2 = append([]int{'E'}, c.S2...)
		}
		if c.Sch.Mode == "prot" && rng.Intn(3) == 0 {
			// one of the two proteins written with letters that are also nucleotide codes only
			amb := []byte("ACGTNRYSWKMBDHV")
			for k := range c.S2 {
				c.S2[k] = int(amb[rng.Intn(len(amb))])
			}
		}
		if c.Sch.Mode == "scores" && rng.Intn(6) == 0 {
			c.Sch.Match, c.Sch.Mismatch = 2, -2 // 1 / -1: the values the command line has as defaults
		}
		if rng.Intn(2) == 0 {
			c.S1, c.S2 = c.S2, c.S1
		}
		runSW(env, fmt.Sprintf("r%d_%d", env.Seed, i), c)
		if cliSampled(i) {
			if ce, ok := swCli(filepath.Dir(env.Out), fmt.Sprintf("r%d_%d", env.Seed, i), c); ok {
				env.Emit(ce)
			}
		}
	}
	return nil
}

func init() { families["sw"] = swFamily }
