package main

import (
	"bytes"
	"math"
	"math/rand"
	"sort"
	"strconv"

	"github.com/evolbioinfo/goalign/align"
	"github.com/evolbioinfo/goalign/distance/dna"
	"github.com/evolbioinfo/goalign/distance/protein"
	"github.com/evolbioinfo/goalign/io/clustal"
	"github.com/evolbioinfo/goalign/io/fasta"
	"github.com/evolbioinfo/goalign/io/nexus"
	"github.com/evolbioinfo/goalign/io/paml"
	"github.com/evolbioinfo/goalign/io/phylip"
	"github.com/evolbioinfo/goalign/io/stockholm"
	pmodels "github.com/evolbioinfo/goalign/models/protein"
)

func countMap(m map[uint8]int) [][]int {
	keys := []int{}
	for k := range m {
		keys = append(keys, int(k))
	}
	sort.Ints(keys)
	r := [][]int{}
	for _, k := range keys {
		r = append(r, []int{k, m[uint8(k)]})
	}
	return r
}

// applyStats: the column statistics of property C14 (all queries).
func (h *heapRun) applyStats(o *obj, st Step, ret map[string]interface{}) bool {
	a := st.A
	h.lastErr = nil
	switch st.Op {
	case "MaxCharStats":
		out, occ, tot := needAlign(o).MaxCharStats(ab(a, "igaps"), ab(a, "ins"))
		ret["out"], ret["occur"], ret["total"] = b2i(out), nn(occ), nn(tot)
	case "Consensus":
		c := needAlign(o).Consensus(ab(a, "igaps"), ab(a, "ins"))
		ret["new"] = h.addAlign(c)
	case "CharStats":
		m := o.sb.CharStats()
		keys := []int{}
		for k := range m {
			keys = append(keys, int(k))
		}
		sort.Ints(keys)
		r := [][]int{}
		for _, k := range keys {
			r = append(r, []int{k, int(m[uint8(k)])})
		}
		ret["m"] = r
	case "UniqueCharacters":
		ret["v"] = b2i(o.sb.UniqueCharacters())
	case "CharStatsSite":
		m, err := needAlign(o).CharStatsSite(ai(a, "site"))
		ret["m"] = countMap(m)
		h.lastErr = err
	case "CharStatsSeq":
		m, err := o.sb.CharStatsSeq(ai(a, "idx"))
		ret["m"] = countMap(m)
		h.lastErr = err
	case "Entropy":
		e, err := needAlign(o).Entropy(ai(a, "site"), ab(a, "rmgaps"))
		ret["f"] = fstr(e)
		h.lastErr = err
	case "Describe":
		names, lens := [][]int{}, []int{}
		o.sb.IterateChar(func(name string, s []uint8) bool {
			names, lens = append(names, s2i(name)), append(lens, len(s))
			return false
		})
		switch astrs(a, "what") {
		case "nseq":
			ret["nb"] = o.sb.NbSequences()
		case "taxa":
			ret["names"] = names
		default:
			if o.al != nil {
				ret["len"] = o.al.Length()
			} else {
				ret["names"], ret["lens"] = names, lens
			}
		}
	case "EntropyAll":
		al := needAlign(o)
		fs := []interface{}{}
		sum, nd := 0.0, 0
		for i := 0; i < al.Length(); i++ {
			e, err := al.Entropy(i, ab(a, "rmgaps"))
			if err != nil {
				h.lastErr = err
				break
			}
			fs = append(fs, fstr(e))
			if !math.IsNaN(e) {
				sum += e
				nd++
			}
		}
		if ab(a, "avg") {
			ret["avg"] = fstr(sum / float64(nd))
		} else {
			ret["f"] = fs
		}
	case "NbVariableSites":
		ret["v"] = needAlign(o).NbVariableSites()
	case "InformativeSites":
		ret["v"] = nn(needAlign(o).InformativeSites())
	case "AvgAllelesPerSite":
		ret["f"] = fstr(needAlign(o).AvgAllelesPerSite())
	case "Pssm":
		pc, _ := parseF(astrs(a, "pc"))
		m, err := needAlign(o).Pssm(ab(a, "log"), pc, ai(a, "norm"))
		h.lastErr = err
		keys := []int{}
		for k := range m {
			keys = append(keys, int(k))
		}
		sort.Ints(keys)
		r := []map[string]interface{}{}
		for _, k := range keys {
			vs := []string{}
			for _, x := range m[uint8(k)] {
				vs = append(vs, fstr(x))
			}
			r = append(r, map[string]interface{}{"c": k, "v": vs})
		}
		ret["m"] = r
	case "CountDifferences":
		all, diffs := needAlign(o).CountDifferences()
		ra := [][]int{}
		for _, k := range all {
			ra = append(ra, []int{int(k[0]), int(k[1])})
		}
		rr := [][][]int{}
		for _, d := range diffs {
			row := [][]int{}
			keys := []string{}
			for k := range d {
				keys = append(keys, k)
			}
			sort.Strings(keys)
			for _, k := range keys {
				row = append(row, []int{int(k[0]), int(k[1]), d[k]})
			}
			rr = append(rr, row)
		}
		ret["all"], ret["rows"] = ra, rr
	case "NumGapsUnique", "NumMutationsUnique":
		var prof *align.CountProfile
		if p := ai(a, "prof"); p != 0 {
			prof = align.NewCountProfileFromAlignment(needAlign(h.get(p)))
		}
		var u, nw, b []int
		var err error
		if st.Op == "NumGapsUnique" {
			u, nw, b, err = needAlign(o).NumGapsUniquePerSequence(prof)
		} else {
			u, nw, b, err = needAlign(o).NumMutationsUniquePerSequence(prof)
		}
		ret["uniq"], ret["new"], ret["both"] = nn(u), nn(nw), nn(b)
		h.lastErr = err
	case "NumMutRef":
		s, _ := o.sb.Sequence(ai(a, "i"))
		r, _ := o.sb.Sequence(ai(a, "refi"))
		v, err := s.NumMutationsComparedToReferenceSequence(o.sb.Alphabet(), r)
		ret["v"] = v
		h.lastErr = err
	case "ListMutRef":
		s, _ := o.sb.Sequence(ai(a, "i"))
		r, _ := o.sb.Sequence(ai(a, "refi"))
		muts, err := s.ListMutationsComparedToReferenceSequence(o.sb.Alphabet(), r, false)
		l := []map[string]interface{}{}
		for _, m := range muts {
			l = append(l, map[string]interface{}{"r": int(m.Ref), "p": m.Pos, "a": b2i(m.Alt)})
		}
		ret["muts"] = l
		h.lastErr = err
	case "SiteConservation":
		c, err := needAlign(o).SiteConservation(ai(a, "site"))
		if err != nil {
			h.lastErr = err
			return true
		}
		ret["v"] = c
	case "AlphabetInfo":
		ret["chars"] = b2i(o.sb.AlphabetCharacters())
		idx := []int{}
		for _, c := range aints(a, "chars") {
			idx = append(idx, o.sb.AlphabetCharToIndex(byte(c)))
		}
		ret["idx"] = idx
	case "ProfileOnly":
		// the per-site counts of ONE character, read from the count profile (0 where the profile does not know it)
		p := align.NewCountProfileFromAlignment(needAlign(o))
		cnt := []int{}
		for site := 0; site < needAlign(o).Length(); site++ {
			c, err := p.Count(byte(ai(a, "c")), site)
			if err != nil {
				c = 0
			}
			cnt = append(cnt, c)
		}
		ret["n"] = cnt
	case "LongestORFObj":
		// the sequence returned by the ORF search becomes a live object of the heap (a set holding it, residues as returned)
		orf, err := o.sb.LongestORF(ab(a, "rev"))
		if err != nil {
			h.lastErr = err
			return true
		}
		nb := align.NewSeqBag(o.sb.Alphabet())
		nb.AddSequenceChar(orf.Name(), orf.SequenceChar(), "")
		ret["new"] = h.addBag(nb)
	case "CountProfile":
		p := align.NewCountProfileFromAlignment(needAlign(o))
		l := []map[string]interface{}{}
		for i := 0; i < p.NbCharacters(); i++ {
			c, _ := p.NameAt(i)
			cnt, _ := p.CountsAt(i)
			l = append(l, map[string]interface{}{"c": int(c), "n": nn(append([]int{}, cnt...))})
		}
		ret["prof"] = l
	default:
		return false
	}
	return true
}

func parseF(s string) (float64, error) { return strconv.ParseFloat(s, 64) }

// applyRandom: the randomised operations of property C10, each after rand.Seed(seed).
func (h *heapRun) applyRandom(o *obj, st Step, ret map[string]interface{}) bool {
	a := st.A
	h.lastErr = nil
	switch st.Op {
	case "ShuffleSites", "Swap", "SimulateRogue", "BuildBootstrap", "RandSubAlign", "Mutate", "AddGaps", "Recombine", "Rarefy":
	default:
		return false
	}
	al := needAlign(o)
	rand.Seed(int64(ai(a, "seed")))
	names := func(l []string) [][]int {
		r := [][]int{}
		for _, n := range l {
			r = append(r, s2i(n))
		}
		return r
	}
	switch st.Op {
	case "ShuffleSites":
		ret["rogues"] = names(al.ShuffleSites(afrac(a, "rp", "rq"), afrac(a, "gp", "gq"), ab(a, "first")))
	case "Swap":
		h.lastErr = al.Swap(afrac(a, "rp", "rq"), afrac(a, "posp", "posq"))
	case "SimulateRogue":
		r, in := al.SimulateRogue(afrac(a, "pp", "pq"), afrac(a, "lp", "lq"))
		ret["nil"] = r == nil && in == nil
		ret["rogue"], ret["intact"] = names(r), names(in)
	case "BuildBootstrap":
		ret["new"] = h.addAlign(al.BuildBootstrap(afrac(a, "fp", "fq")))
	case "RandSubAlign":
		c, err := al.RandSubAlign(ai(a, "len"), ab(a, "consecutive"))
		if err != nil {
			h.lastErr = err
			return true
		}
		ret["new"] = h.addAlign(c)
	case "Mutate":
		al.Mutate(afrac(a, "rp", "rq"))
	case "AddGaps":
		al.AddGaps(afrac(a, "lp", "lq"), afrac(a, "pp", "pq"))
	case "Recombine":
		h.lastErr = al.Recombine(afrac(a, "pp", "pq"), afrac(a, "lp", "lq"), ab(a, "swap"))
	case "Rarefy":
		counts := map[string]int{}
		for _, x := range alist(a, "counts") {
			m := x.(map[string]interface{})
			counts[string(i2b(toInts(m["n"])))] = ai(m, "c")
		}
		c, err := al.Rarefy(ai(a, "nb"), counts)
		if err != nil {
			h.lastErr = err
			return true
		}
		ret["new"] = h.addAlign(c)
	}
	return true
}

// applyQuery: operations that are documented as read-only (writers, distances, pairwise alignment,
// ORF search, phasing); only the frame condition is judged here (property C19), their results are
// judged by the properties that own them.
func (h *heapRun) applyQuery(o *obj, st Step, ret map[string]interface{}) bool {
	if st.Op != "Query" {
		return false
	}
	h.lastErr = nil
	al := needAlign(o)
	q := astrs(st.A, "q")
	ret["q"] = q
	switch q {
	case "fasta":
		ret["n"] = len(fasta.WriteAlignment(al))
	case "fastaseq":
		ret["n"] = len(fasta.WriteSequences(al)) // the writer of sequence sets: residues only, gaps left out
	case "phylip":
		ret["n"] = len(phylip.WriteAlignment(al, false, false, false))
	case "nexus":
		ret["n"] = len(nexus.WriteAlignment(al))
	case "clustal":
		ret["n"] = len(clustal.WriteAlignment(al))
	case "stockholm":
		ret["n"] = len(stockholm.WriteAlignment(al))
	case "paml":
		ret["n"] = len(paml.WriteAlignment(al))
	case "string":
		ret["n"] = len(al.String())
	case "dist":
		if al.NbSequences() < 2 {
			return true
		}
		// (an alignment that is not nucleotidic is refused: the refusal must leave it as it is, alphabet included)
		m, err := dna.Model("k2p", true)
		if err == nil {
			_, err = dna.DistMatrix(al, nil, m, -1, -1, -1, -1, false, 0, 2)
		}
		ret["err"] = err != nil
	case "protdist":
		if al.Alphabet() != align.AMINOACIDS || al.NbSequences() < 2 {
			return true
		}
		m, err := protein.NewProtDistModel(pmodels.ModelStringToInt("jtt"), true, false, 0, true)
		if err == nil {
			m.InitModel(al, nil)
			_, _, _, err = m.MLDist(al, nil)
		}
		ret["err"] = err != nil
	case "protdist2":
		// without gap-site removal (ambiguous states stay in the pairs that are compared)
		if al.Alphabet() != align.AMINOACIDS || al.NbSequences() < 2 {
			return true
		}
		m, err := protein.NewProtDistModel(pmodels.ModelStringToInt("lg"), true, false, 0, false)
		if err == nil {
			m.InitModel(al, nil)
			_, _, _, err = m.MLDist(al, nil)
		}
		ret["err"] = err != nil
	case "sw":
		if al.NbSequences() < 2 {
			return true
		}
		s1, _ := al.Sequence(0)
		s2, _ := al.Sequence(1)
		if bytes.ContainsAny(s1.SequenceChar(), "-.*?") || bytes.ContainsAny(s2.SequenceChar(), "-.*?") {
			return true
		}
		aligner := align.NewPwAligner(s1, s2, align.ALIGN_ALGO_SW)
		_, err := aligner.Alignment()
		ret["err"] = err != nil
	case "swatg":
		// the ATG variant reverses its working copies; gaps and other non-residues take the error path
		if al.NbSequences() < 2 {
			return true
		}
		s1, _ := al.Sequence(0)
		s2, _ := al.Sequence(1)
		aligner := align.NewPwAligner(s1, s2, align.ALIGN_ALGO_ATG)
		_, err := aligner.Alignment()
		ret["err"] = err != nil
	case "phase":
		if al.Alphabet() != align.NUCLEOTIDS || al.NbSequences() < 1 {
			return true
		}
		orf, err := al.LongestORF(false)
		if err != nil {
			ret["err"] = true
			return true
		}
		ref := align.NewSeqBag(align.UNKNOWN)
		ref.AddSequence(orf.Name(), orf.Sequence(), orf.Comment())
		ph := align.NewPhaser()
		ph.SetTranslate(true, 0)
		ph.SetCpus(2)
		ch, err := ph.Phase(ref, al)
		if err != nil {
			ret["err"] = true
			return true
		}
		for range ch {
		}
	case "phaseref", "phasentref":
		// phasing against caller-supplied references: neither the reads nor the references may change
		other, ok := st.A["other"]
		if !ok || al.Alphabet() != align.NUCLEOTIDS || al.NbSequences() < 1 {
			return true
		}
		refs := h.get(int(other.(float64))).sb
		if refs.Alphabet() != align.NUCLEOTIDS || refs.NbSequences() < 1 {
			return true
		}
		ph := align.NewPhaser()
		ph.SetTranslate(q == "phaseref", 0)
		ph.SetReverse(true)
		ph.SetCpus(2)
		ch, err := ph.Phase(refs, al)
		if err != nil {
			ret["err"] = true
			return true
		}
		for range ch {
		}
	case "orf":
		_, err := al.LongestORF(true)
		ret["err"] = err != nil
		if al.NbSequences() > 0 {
			s, _ := al.Sequence(0)
			s.LongestORF()
		}
	default:
		panic(harnessPanic("harness: unknown query " + q))
	}
	return true
}
