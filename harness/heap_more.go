package main

import "math/rand"

func (h *heapRun) applyStats(o *obj, st Step, ret map[string]interface{}) bool  { return false }
func (h *heapRun) applyRandom(o *obj, st Step, ret map[string]interface{}) bool { return false }
func (h *heapRun) applyQuery(o *obj, st Step, ret map[string]interface{}) bool  { return false }

func randomHeapScript(rng *rand.Rand, mode string, i int) Script { return Script{} }
