package main

// Family "markov": transition matrices P(t) of the nucleotide and protein substitution models (property C18).  A case
// names a model, its parameters and frequencies; the same model object is re-initialised by consecutive cases of the
// same model (stale state must not survive), P(t) is read through models.NewPij on a grid of branch lengths, and for the
// models that have closed forms also through the generic eigen assembly.

import (
	"encoding/json"
	"fmt"
	"strconv"

	"github.com/evolbioinfo/goalign/models"
	mdna "github.com/evolbioinfo/goalign/models/dna"
	mprot "github.com/evolbioinfo/goalign/models/protein"
	"gonum.org/v1/gonum/mat"
)

type markovCase struct {
	Model string   `json:"model"`
	P     []string `json:"p"`
	Pi    []string `json:"pi"`
	// Fresh: a model object straight from its constructor (documented default parameters), never initialised
	Fresh bool `json:"fresh"`
}
type markovEvent struct {
	ID    string       `json:"id"`
	Model string       `json:"model"`
	P     []string     `json:"p"`
	Pi    []string     `json:"pi"`
	R     [][]string   `json:"R"`
	Ts    []string     `json:"ts"`
	PM    [][][]string `json:"P"`
	Pe    [][][]string `json:"Pe"`
	Sums  [][]int      `json:"sums"`
	Expm  []int        `json:"expm"`
	Kind  string       `json:"kind"`
	Msg   string       `json:"msg"`
	Reuse bool         `json:"reused"`
}

type forceEigen struct{ models.Model }

func (f forceEigen) Analytical() bool { return false }

func pf(s string) float64 {
	x, err := strconv.ParseFloat(s, 64)
	if err != nil {
		panic(harnessPanic("harness: bad float " + s))
	}
	return x
}

func pmat(m models.Model, t float64) ([][]string, error) {
	pij, err := models.NewPij(m, t)
	if err != nil {
		return nil, err
	}
	n := m.NState()
	out := make([][]string, n)
	for i := 0; i < n; i++ {
		out[i] = make([]string, n)
		for j := 0; j < n; j++ {
			out[i][j] = fstr(pij.Pij(i, j))
		}
	}
	return out, nil
}

func pijStrings(pij *models.Pij, n int) [][]string {
	out := make([][]string, n)
	for i := 0; i < n; i++ {
		out[i] = make([]string, n)
		for j := 0; j < n; j++ {
			out[i][j] = fstr(pij.Pij(i, j))
		}
	}
	return out
}

var dnaPool = map[string]interface{}{}

func protMats(name string) (*mat.Dense, []float64) {
	switch name {
	case "dayhoff":
		return mprot.DayoffMats()
	case "jtt":
		return mprot.JTTMats()
	case "mtrev":
		return mprot.MtREVMats()
	case "lg":
		return mprot.LGMats()
	case "wag":
		return mprot.WAGMats()
	case "hivb":
		return mprot.HIVBMats()
	case "ab":
		return mprot.ABMats()
	}
	panic(harnessPanic("harness: unknown protein matrix " + name))
}

var protPool = map[string]*mprot.ProtModel{}
var protCalls = map[string]int{}

func runMarkov(env *Env, id string, c markovCase) {
	ev := markovEvent{ID: id, Model: c.Model, P: c.P, Pi: c.Pi, Ts: []string{}, R: [][]string{}, PM: [][][]string{}, Pe: [][][]string{}, Sums: [][]int{}, Expm: []int{}}
	func() {
		defer func() {
			if r := recover(); r != nil {
				if hp, ok := r.(harnessPanic); ok {
					panic(string(hp))
				}
				ev.Kind, ev.Msg = "panic", fmt.Sprint(r)
			}
		}()
		p := make([]float64, len(c.P))
		for i, s := range c.P {
			p[i] = pf(s)
		}
		pi := make([]float64, len(c.Pi))
		for i, s := range c.Pi {
			pi[i] = pf(s)
		}
		var m models.Model
		var err error
		_, ev.Reuse = dnaPool[c.Model]
		if c.Model == "jc" || c.Model == "k2p" {
			ev.Pi = []string{"0.25", "0.25", "0.25", "0.25"}
		}
		analytical := false
		switch c.Model {
		case "jc":
			mm, ok := dnaPool["jc"].(*mdna.JCModel)
			if !ok {
				mm = mdna.NewJCModel()
				dnaPool["jc"] = mm
			}
			err = mm.InitModel()
			m, analytical = mm, true
		case "k2p":
			mm, ok := dnaPool["k2p"].(*mdna.K2PModel)
			if !ok {
				mm = mdna.NewK2PModel()
				dnaPool["k2p"] = mm
			}
			if c.Fresh {
				mm = mdna.NewK2PModel() // kappa = 1 by default (p holds that value for the specification)
				ev.Reuse = false
			} else {
				mm.InitModel(p[0])
			}
			m, analytical = mm, true
		case "f81":
			mm, ok := dnaPool["f81"].(*mdna.F81Model)
			if !ok {
				mm = mdna.NewF81Model()
				dnaPool["f81"] = mm
			}
			err = mm.InitModel(pi[0], pi[1], pi[2], pi[3])
			m = mm
		case "f84":
			mm, ok := dnaPool["f84"].(*mdna.F84Model)
			if !ok {
				mm = mdna.NewF84Model()
				dnaPool["f84"] = mm
			}
			mm.InitModel(p[0], pi[0], pi[1], pi[2], pi[3])
			m = mm
		case "tn93":
			mm, ok := dnaPool["tn93"].(*mdna.TN93Model)
			if !ok {
				mm = mdna.NewTN93Model()
				dnaPool["tn93"] = mm
			}
			err = mm.InitModel(p[0], p[1], pi[0], pi[1], pi[2], pi[3])
			m = mm
		case "gtr":
			mm, ok := dnaPool["gtr"].(*mdna.GTRModel)
			if !ok {
				mm = mdna.NewGTRModel()
				dnaPool["gtr"] = mm
			}
			err = mm.InitModel(p[0], p[1], p[2], p[3], p[4], p[5], pi[0], pi[1], pi[2], pi[3])
			m = mm
		default:
			// protein: exchangeabilities and model frequencies come from the exported matrices; user frequencies when given
			ev.Reuse = false
			R, mpi := protMats(c.Model)
			for i := 0; i < 20; i++ {
				row := make([]string, 20)
				for j := 0; j < 20; j++ {
					row[j] = fstr(R.At(i, j))
				}
				ev.R = append(ev.R, row)
			}
			code := map[string]int{"dayhoff": mprot.MODEL_DAYHOFF, "jtt": mprot.MODEL_JTT, "mtrev": mprot.MODEL_MTREV, "lg": mprot.MODEL_LG,
				"wag": mprot.MODEL_WAG, "hivb": mprot.MODEL_HIVB, "ab": mprot.MODEL_AB}[c.Model]
			// every other case of a matrix re-initialises the object of the previous one (other frequencies), as the
			// nucleotide cases do: nothing of the earlier initialisation may be left in the new rates
			protCalls[c.Model]++
			pm, have := protPool[c.Model]
			if !have || protCalls[c.Model]%2 == 1 {
				var e2 error
				if pm, e2 = mprot.NewProtModel(code, false, 1.0); e2 != nil {
					err = e2
					break
				}
				protPool[c.Model] = pm
			} else {
				ev.Reuse = true
			}
			var user []float64
			if len(pi) == 20 {
				user = append([]float64{}, pi...)
			} else {
				ev.Pi = make([]string, 20)
				for i := range mpi {
					ev.Pi[i] = fstr(mpi[i])
				}
			}
			err = pm.InitModel(user)
			m = pm
		}
		if err != nil {
			ev.Kind, ev.Msg = "err", err.Error()
			return
		}
		s1, s2 := 0.1, 0.25
		s3, s4 := 1.0, 10.0
		ts := []float64{0, 1e-8, 1e-3, s1, s2, s1 + s2, s3, s4, s3 + s4, 100}
		ev.Sums = [][]int{{4, 5, 6}, {7, 8, 9}, {1, 4, 4}, {3, 3, 3}}
		ev.Sums[3] = []int{4, 1, 4}
		ev.Expm = []int{3, 4, 7, 8}
		if m.NState() > 4 {
			ev.Expm = []int{4, 7}
		}
		for _, t := range ts {
			ev.Ts = append(ev.Ts, fstr(t))
			pm, e := pmat(m, t)
			if e != nil {
				ev.Kind, ev.Msg = "err", e.Error()
				return
			}
			ev.PM = append(ev.PM, pm)
			if analytical {
				pe, e := pmat(forceEigen{m}, t)
				if e != nil {
					ev.Kind, ev.Msg = "err", e.Error()
					return
				}
				ev.Pe = append(ev.Pe, pe)
			}
		}
		// the same questions asked of ONE matrix object moved from length to length (short, long, tiny, ... as a tree
		// traversal does): entries 10.. of ts / P; whatever the object keeps from a previous length shows here
		series := []float64{s1, 100, 1e-8, s4, 0, s3, 100, s2}
		var obj, obje *models.Pij
		for k, t := range series {
			var e error
			if k == 0 {
				obj, e = models.NewPij(m, t)
				if e == nil && analytical {
					obje, e = models.NewPij(forceEigen{m}, t)
				}
			} else {
				e = obj.SetLength(t)
				if e == nil && analytical {
					e = obje.SetLength(t)
				}
			}
			if e != nil {
				ev.Kind, ev.Msg = "err", e.Error()
				return
			}
			ev.Ts = append(ev.Ts, fstr(t))
			ev.PM = append(ev.PM, pijStrings(obj, m.NState()))
			if analytical {
				ev.Pe = append(ev.Pe, pijStrings(obje, m.NState()))
			}
		}
		ev.Sums = append(ev.Sums, []int{11, 18, 6}, []int{16, 14, 9})
		// lengths between the ones above and the longest: 31, 50 and their sum (a shortcut taken "because the chain has
		// converged by now" is wrong for slowly mixing parameters)
		base := len(ev.Ts)
		for _, t := range []float64{31, 50, 81} {
			ev.Ts = append(ev.Ts, fstr(t))
			pm, e := pmat(m, t)
			if e != nil {
				ev.Kind, ev.Msg = "err", e.Error()
				return
			}
			ev.PM = append(ev.PM, pm)
			if analytical {
				pe, e := pmat(forceEigen{m}, t)
				if e != nil {
					ev.Kind, ev.Msg = "err", e.Error()
					return
				}
				ev.Pe = append(ev.Pe, pe)
			}
		}
		ev.Sums = append(ev.Sums, []int{base + 1, base + 2, base + 3})
		if m.NState() <= 4 {
			ev.Expm = append(ev.Expm, base+1, base+3, 10)
		}
		if m.NState() > 4 {
			ev.Expm = append(ev.Expm, 16)
		} else {
			ev.Expm = append(ev.Expm, 14, 16)
		}
		ev.Kind = "ok"
	}()
	env.Emit(ev)
}

func markovFamily(env *Env) error {
	n := 0
	return env.Cases(func(line []byte) error {
		var c markovCase
		if err := json.Unmarshal(line, &c); err != nil {
			return fmt.Errorf("bad markov case: %v", err)
		}
		if c.P == nil {
			c.P = []string{}
		}
		if c.Pi == nil {
			c.Pi = []string{}
		}
		runMarkov(env, fmt.Sprintf("g%d", n), c)
		n++
		return nil
	})
}

func init() { families["markov"] = markovFamily }
