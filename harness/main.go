// Command driver is the Go side of the goalign model-based verification harness.
//
//	driver <family> -in cases.ndjson -out trace.ndjson [-seed N] [-n N] [-tier quick|thorough]
//
// Every family executes scripts (TLC-generated ones read from -in, and/or its own seeded
// random ones) on the real goalign code built from /repo and logs one ndjson event per
// call; the events are then validated by the family's TLA+ trace specification.
package main

import (
	"bufio"
	"encoding/json"
	"flag"
	"fmt"
	"io"
	"log"
	"os"
)

type family func(env *Env) error

var families = map[string]family{}

// Env carries the command-line parameters and the event sink.
type Env struct {
	In    string
	Out   string
	Seed  int64
	N     int
	Tier  string
	Mode  string
	Extra string
	w     *bufio.Writer
	nev   int
	cli   *cliFront
}

// Emit writes one event.
func (e *Env) Emit(ev interface{}) {
	b, err := json.Marshal(ev)
	if err != nil {
		fmt.Fprintln(os.Stderr, "driver: cannot marshal event:", err)
		os.Exit(3)
	}
	e.w.Write(b)
	e.w.WriteByte('\n')
	e.nev++
}

// Flush flushes the sink (called before risky calls so that a process death is attributable).
func (e *Env) Flush() { e.w.Flush() }

// Cases iterates over the lines of the -in file (no-op when absent).
func (e *Env) Cases(f func(line []byte) error) error {
	if e.In == "" {
		return nil
	}
	fh, err := os.Open(e.In)
	if err != nil {
		return err
	}
	defer fh.Close()
	r := bufio.NewReaderSize(fh, 1<<20)
	for {
		line, err := r.ReadBytes('\n')
		if len(line) > 1 {
			if e2 := f(line); e2 != nil {
				return e2
			}
		}
		if err == io.EOF {
			return nil
		}
		if err != nil {
			return err
		}
	}
}

func main() {
	if len(os.Args) < 2 {
		fmt.Fprintln(os.Stderr, "usage: driver <family> [flags]")
		os.Exit(3)
	}
	fam, ok := families[os.Args[1]]
	if !ok {
		fmt.Fprintln(os.Stderr, "driver: unknown family", os.Args[1])
		os.Exit(3)
	}
	fs := flag.NewFlagSet(os.Args[1], flag.ExitOnError)
	env := &Env{}
	fs.StringVar(&env.In, "in", "", "TLC-generated cases (ndjson)")
	fs.StringVar(&env.Out, "out", "", "trace output (ndjson)")
	fs.Int64Var(&env.Seed, "seed", 1, "seed for random workloads")
	fs.IntVar(&env.N, "n", 0, "number of random scripts")
	fs.StringVar(&env.Tier, "tier", "quick", "quick|thorough")
	fs.StringVar(&env.Mode, "mode", "", "family-specific mode")
	fs.StringVar(&env.Extra, "extra", "", "family-specific argument")
	fs.Parse(os.Args[2:])
	// goalign logs warnings (duplicate names, dropped nucleotides) through the std logger.
	log.SetOutput(io.Discard)
	out := os.Stdout
	if env.Out != "" {
		f, err := os.Create(env.Out)
		if err != nil {
			fmt.Fprintln(os.Stderr, "driver:", err)
			os.Exit(3)
		}
		defer f.Close()
		out = f
	}
	env.w = bufio.NewWriterSize(out, 1<<20)
	if err := fam(env); err != nil {
		env.w.Flush()
		fmt.Fprintln(os.Stderr, "driver:", err)
		os.Exit(3)
	}
	env.w.Flush()
	fmt.Fprintf(os.Stderr, "driver: %d events\n", env.nev)
}
