package main

// Family "dist": nucleotide distance matrices (C07) and relations between pairs of calls on transformed alignments
// (C08: column permutation, replication vs. integer weights vs. raw scaling, unit weights, reverse complement, row
// permutation, thread counts).  Floats travel as shortest round-trip decimal strings; weights are integers in quarter units.

import (
	"encoding/json"
	"fmt"
	"math/rand"
	"strings"
	"sync"
	"time"

	"github.com/evolbioinfo/goalign/align"
	"github.com/evolbioinfo/goalign/distance/dna"
	"github.com/evolbioinfo/goalign/verifhook"
)

type distOpts struct {
	Model   string `json:"model"`
	Gamma   bool   `json:"gamma"`
	Alpha   string `json:"alpha"`
	RmGaps  bool   `json:"rmgaps"`
	GapMode int    `json:"gapmode"`
	RmAmb   bool   `json:"rmamb"`
	Wts     []int  `json:"wts"`
}
type distEvent struct {
	T    string     `json:"t"`
	ID   string     `json:"id"`
	Rows [][]int    `json:"rows"`
	O    distOpts   `json:"o"`
	R    []int      `json:"r"`
	Cpus int        `json:"cpus"`
	Kind string     `json:"kind"`
	Msg  string     `json:"msg"`
	M    [][]string `json:"m"`
}
type relEvent struct {
	T    string     `json:"t"`
	ID   string     `json:"id"`
	Rel  string     `json:"rel"`
	What string     `json:"what"`
	K    int        `json:"k"`
	Perm []int      `json:"perm"`
	M1   [][]string `json:"m1"`
	M2   [][]string `json:"m2"`
	Rows [][]int    `json:"rows"`
	O    distOpts   `json:"o"`
}

func mkNtAlign(rows [][]int) align.Alignment {
	a := align.NewAlign(align.NUCLEOTIDS)
	for i, r := range rows {
		if err := a.AddSequenceChar(fmt.Sprintf("s%d", i), i2b(r), ""); err != nil {
			panic(harnessPanic("harness: " + err.Error()))
		}
	}
	return a
}

// model objects are kept and re-initialised by later calls (as the CLI does for bootstrap replicates and multi-alignment
// inputs): state left over from an earlier alignment must not leak into a later matrix
var modelPool = map[string]dna.DistModel{}
var reuseModels = false

var modelPoolMu sync.Mutex

func mkModel(o distOpts) (dna.DistModel, error) {
	modelPoolMu.Lock() // calls run in their own goroutines (a call that hangs never reports back)
	defer modelPoolMu.Unlock()
	key := fmt.Sprintf("%s/%v", o.Model, o.RmGaps)
	m, ok := modelPool[key]
	var err error
	if !ok || !reuseModels {
		m, err = dna.Model(o.Model, o.RmGaps)
		if err != nil {
			return nil, err
		}
		modelPool[key] = m
	}
	switch mm := m.(type) {
	case *dna.PDistModel:
		mm.SetCountGapMutations(o.GapMode)
		mm.SetRemoveAmbiguous(o.RmAmb)
	case *dna.RawDistModel:
		mm.SetCountGapMutations(o.GapMode)
	}
	return m, nil
}

func matStr(m [][]float64) [][]string {
	out := make([][]string, len(m))
	for i := range m {
		out[i] = make([]string, len(m[i]))
		for j := range m[i] {
			out[i][j] = fstr(m[i][j])
		}
	}
	return out
}

// distCall runs one DistMatrix call under a watchdog (a call that does not return is an observation of C08).
func distCall(rows [][]int, o distOpts, r []int, cpus int) (ev distEvent) {
	ev = distEvent{T: "dist", Rows: rows, O: o, R: r, Cpus: cpus, M: [][]string{}}
	type res struct {
		m   [][]float64
		err error
		pan interface{}
	}
	done := make(chan res, 1)
	go func() {
		defer func() {
			if p := recover(); p != nil {
				done <- res{nil, nil, p}
			}
		}()
		al := mkNtAlign(rows)
		model, err := mkModel(o)
		if err != nil {
			done <- res{nil, err, nil}
			return
		}
		var w []float64
		if len(o.Wts) > 0 {
			w = make([]float64, len(o.Wts))
			for i, q := range o.Wts {
				w[i] = float64(q) / 4
			}
		}
		alpha, _ := parseF(o.Alpha)
		m, err := dna.DistMatrix(al, w, model, r[0], r[1], r[2], r[3], o.Gamma, alpha, cpus)
		done <- res{m, err, nil}
	}()
	select {
	case x := <-done:
		switch {
		case x.pan != nil:
			if hp, ok := x.pan.(harnessPanic); ok {
				panic(string(hp))
			}
			ev.Kind, ev.Msg = "panic", fmt.Sprint(x.pan)
		case x.err != nil:
			ev.Kind, ev.Msg = "err", x.err.Error()
		default:
			ev.Kind, ev.M = "ok", matStr(x.m)
		}
	case <-time.After(15 * time.Second):
		ev.Kind, ev.Msg = "hang", "DistMatrix did not return within 15 s"
	}
	return
}

// distCli asks the same matrix of `goalign compute distance` (no site weights on the command line).
func distCli(rows [][]int, o distOpts, r []int, cpus int) (ev distEvent, ok bool) {
	if len(o.Wts) > 0 || len(rows) == 0 {
		return ev, false
	}
	ev = distEvent{T: "dist", Rows: rows, O: o, R: r, Cpus: cpus, M: [][]string{}}
	argv := []string{"compute", "distance", "--alphabet", "nt", "-m", o.Model, "-t", fmt.Sprint(cpus), "--gap-mut", fmt.Sprint(o.GapMode)}
	if o.RmGaps {
		argv = append(argv, "-r")
	}
	if o.RmAmb {
		argv = append(argv, "--rm-ambiguous")
	}
	if o.Gamma {
		argv = append(argv, "--alpha", o.Alpha)
	}
	if r[0] != -1 || r[1] != -1 || r[2] != -1 || r[3] != -1 {
		argv = append(argv, "--range1", fmt.Sprintf("%d:%d", r[0], r[1]), "--range2", fmt.Sprintf("%d:%d", r[2], r[3]))
	}
	// every other time (three rows or more) the alignment comes second in a Phylip input, behind one with a row less:
	// whatever the command keeps from one alignment to the next (clamped ranges, models) meets different data
	in := fastaRows(rows)
	multi := len(rows) >= 3 && len(rows[0]) >= 1 && (len(rows)+len(rows[0])+cpus+r[1]+r[3])%2 == 0
	if len(rows) >= 3 && len(rows[0]) >= 1 && r[0] >= 0 && (r[1] >= len(rows)-1 || r[3] >= len(rows)-1) {
		multi = true // a range reaching the last row: always behind the shorter alignment (a range clamped there must not stay clamped)
	}
	if multi {
		argv = append(argv, "-p")
		in = append(phylipRows(rows[:len(rows)-1]), phylipRows(rows)...)
	}
	out, errs, code := runGoalign(in, argv...)
	if multi && code == 0 {
		// skip the first matrix
		lines := strings.SplitAfter(out, "\n")
		if len(lines) < len(rows) {
			return ev, false
		}
		out = strings.Join(lines[len(rows):], "")
	} else if multi {
		return ev, false // a failure cannot be attributed to either alignment
	}
	if code != 0 {
		ev.Kind, ev.Msg = cliKind(errs), "goalign "+fmt.Sprint(argv)+": "+errs
		if len(ev.Msg) > 600 {
			ev.Msg = ev.Msg[:600]
		}
		return ev, true
	}
	m, good := parseDistText(out, len(rows))
	if !good {
		return ev, false
	}
	ev.Kind, ev.M, ev.Msg = "ok", m, "goalign "+fmt.Sprint(argv)
	return ev, true
}

var distModels = []string{"rawdist", "pdist", "jc", "k2p", "f81", "f84", "tn93"}

func randDistRows(rng *rand.Rand, tier string) [][]int {
	n := 2 + rng.Intn(4)
	L := []int{1, 2, 3, 5, 8, 12, 20, 30}[rng.Intn(8)]
	if tier == "thorough" && rng.Intn(3) == 0 {
		L = 40 + rng.Intn(40)
	}
	base := make([]int, L)
	for i := range base {
		base[i] = int("ACGT"[rng.Intn(4)])
	}
	kind := rng.Intn(8)
	rows := make([][]int, n)
	if kind == 6 {
		// differences of ONE kind only, up to saturation: pyrimidine transitions (C<->T), or purine ones, per row
		if L < 12 {
			L = 12 + rng.Intn(20)
			base = make([]int, L)
			for i := range base {
				base[i] = int("ACGT"[rng.Intn(4)])
			}
		}
		for r := range rows {
			row := append([]int{}, base...)
			ct, ag := []int{0, 3, 6, 8, 10}[rng.Intn(5)], []int{0, 0, 1, 8}[rng.Intn(4)]
			for i, c := range row {
				switch {
				case (c == 'C' || c == 'T') && rng.Intn(10) < ct:
					row[i] = 'C' + 'T' - c
				case (c == 'A' || c == 'G') && rng.Intn(10) < ag:
					row[i] = 'A' + 'G' - c
				}
			}
			rows[r] = row
		}
		return rows
	}
	for r := range rows {
		row := append([]int{}, base...)
		rate := []int{0, 1, 2, 5, 8, 10}[rng.Intn(6)] // out of 10: from identical to saturated
		if kind == 0 {
			rate = 0
		}
		for i := range row {
			if rng.Intn(10) < rate {
				row[i] = int("ACGT"[rng.Intn(4)])
			}
			switch x := rng.Intn(40); {
			case kind == 7 && x < 10:
				// rows rich in ambiguity codes: every code meets every nucleotide and every other code, on both strands
				row[i] = int("RYSWKMBDHVN"[rng.Intn(11)])
			case x == 0 && kind >= 2:
				row[i] = int("RYSWKMBDHVN"[rng.Intn(11)])
			case x == 1 && kind >= 3:
				row[i] = '-'
			case x == 2 && kind == 5:
				row[i] = int("acgtnX*."[rng.Intn(8)])
			}
		}
		if kind >= 3 { // leading / trailing / internal gap runs
			if rng.Intn(2) == 0 {
				for i := 0; i < rng.Intn(L/2+1); i++ {
					row[i] = '-'
				}
			}
			if rng.Intn(2) == 0 {
				for i := 0; i < rng.Intn(L/2+1); i++ {
					row[L-1-i] = '-'
				}
			}
			if rng.Intn(3) == 0 && L > 4 {
				s := 1 + rng.Intn(L-3)
				for i := s; i < s+1+rng.Intn(2) && i < L-1; i++ {
					row[i] = '-'
				}
			}
		}
		rows[r] = row
	}
	if rng.Intn(60) == 0 {
		rows[0][0] = int("?U"[rng.Intn(2)]) // not encodable: the call must fail
	}
	return rows
}

func randDistOpts(rng *rand.Rand, L int) distOpts {
	o := distOpts{Model: distModels[rng.Intn(len(distModels))], Alpha: "1", Wts: []int{}}
	if rng.Intn(3) == 0 {
		o.Gamma = true
		o.Alpha = []string{"0.3", "1", "5", "0.5", "2"}[rng.Intn(5)]
	}
	o.RmGaps = rng.Intn(3) == 0
	o.GapMode = rng.Intn(3)
	o.RmAmb = rng.Intn(2) == 0
	if rng.Intn(3) == 0 {
		o.Wts = make([]int, L)
		for i := range o.Wts {
			o.Wts[i] = []int{4, 4, 8, 12, 1, 2, 6, 20}[rng.Intn(8)]
		}
		if rng.Intn(4) == 0 {
			// one site standing for 150 000 sites (weights are quarters): a raw distance above 100 000 is a count like any
			// other, not an uncomputable entry
			o.Wts[rng.Intn(L)] = 600000
		}
	}
	return o
}

func revcompRows(rows [][]int) [][]int {
	out := make([][]int, len(rows))
	for i, r := range rows {
		a := mkNtAlign([][]int{r})
		if err := a.ReverseComplement(); err != nil {
			return nil
		}
		s, _ := a.GetSequenceCharById(0)
		out[i] = b2i(s)
	}
	return out
}

func identityPerm(n int) []int {
	p := make([]int, n)
	for i := range p {
		p[i] = i + 1
	}
	return p
}

type distCase struct {
	Rows [][]int  `json:"rows"`
	O    distOpts `json:"o"`
	R    []int    `json:"r"`
	Cpus int      `json:"cpus"`
}

// distRelations runs one family of equivalent presentations of the same data (C08) and emits the relation events
func distRelations(env *Env, rng *rand.Rand, id string, rows [][]int, o distOpts, base distEvent, cpus int, which int) {
	noRange := []int{-1, -1, -1, -1}
	L := len(rows[0])
	emitRel := func(rel, what string, k int, perm []int, rows2 [][]int, o2 distOpts, cp int) {
		ev2 := distCall(rows2, o2, noRange, cp)
		ev2.ID = id + ":" + what
		env.Emit(ev2)
		if ev2.Kind == "ok" {
			env.Emit(relEvent{T: "rel", ID: id, Rel: rel, What: what, K: k, Perm: perm, M1: base.M, M2: ev2.M, Rows: rows, O: o})
		}
	}
	switch which {
	case 0: // thread counts: bit-identical
		for _, cp := range []int{1, 2, 3, 8, 16, 32} {
			emitRel("same", fmt.Sprintf("threads=%d", cp), 1, identityPerm(len(rows)), rows, o, cp)
		}
	case 1: // column permutation (not for the internal-gap mode, which depends on column order by definition)
		if (o.Model == "pdist" || o.Model == "rawdist") && o.GapMode == 1 {
			break
		}
		p := rng.Perm(L)
		rows2 := make([][]int, len(rows))
		for k2 := range rows {
			rows2[k2] = make([]int, L)
			for c := range p {
				rows2[k2][c] = rows[k2][p[c]]
			}
		}
		o2 := o
		if len(o.Wts) > 0 {
			o2.Wts = make([]int, L)
			for c := range p {
				o2.Wts[c] = o.Wts[p[c]]
			}
		}
		emitRel("close", "colperm", 1, identityPerm(len(rows)), rows2, o2, cpus)
	case 2: // replication k times == integer weight k; raw distances scale with k
		if (o.Model == "pdist" || o.Model == "rawdist") && o.GapMode == 1 || len(o.Wts) > 0 {
			break
		}
		k := 2 + rng.Intn(2)
		rows2 := make([][]int, len(rows))
		for k2 := range rows {
			for c := 0; c < L; c++ {
				for x := 0; x < k; x++ {
					rows2[k2] = append(rows2[k2], rows[k2][c])
				}
			}
		}
		scale := 1
		if o.Model == "rawdist" {
			scale = k
		}
		emitRel("close", fmt.Sprintf("replicate=%d", k), scale, identityPerm(len(rows)), rows2, o, cpus)
		o3 := o
		o3.Wts = make([]int, L)
		for c := range o3.Wts {
			o3.Wts[c] = 4 * k
		}
		emitRel("close", fmt.Sprintf("weight=%d", k), scale, identityPerm(len(rows)), rows, o3, cpus)
		if o.Model == "rawdist" || rng.Intn(4) == 0 {
			// every site standing for 60 000 sites (a genome-scale alignment): proportions and corrected distances are
			// unchanged, the raw distance is 60 000 times larger - a count, however large
			big := 60000
			o4 := o
			o4.Wts = make([]int, L)
			for c := range o4.Wts {
				o4.Wts[c] = 4 * big
			}
			sc := 1
			if o.Model == "rawdist" {
				sc = big
			}
			emitRel("close", fmt.Sprintf("weight=%d", big), sc, identityPerm(len(rows)), rows, o4, cpus)
		}
	case 3: // explicit unit weights
		if len(o.Wts) > 0 {
			break
		}
		o2 := o
		o2.Wts = make([]int, L)
		for c := range o2.Wts {
			o2.Wts[c] = 4
		}
		emitRel("close", "unitweights", 1, identityPerm(len(rows)), rows, o2, cpus)
	case 4: // reverse complement of the whole alignment
		if (o.Model == "pdist" || o.Model == "rawdist") && o.GapMode == 1 {
			// reversing the columns maps leading runs to trailing ones: the internal region is the same set of sites
		}
		rc := revcompRows(rows)
		if rc == nil {
			break
		}
		o2 := o
		if len(o.Wts) > 0 {
			o2.Wts = make([]int, L)
			for c := range o.Wts {
				o2.Wts[c] = o.Wts[L-1-c]
			}
		}
		emitRel("close", "revcomp", 1, identityPerm(len(rows)), rc, o2, cpus)
	case 5: // row permutation
		p := rng.Perm(len(rows))
		rows2 := make([][]int, len(rows))
		perm := make([]int, len(rows))
		for k2 := range p {
			rows2[k2] = rows[p[k2]]
			perm[k2] = p[k2] + 1
		}
		emitRel("close", "rowperm", 1, perm, rows2, o, cpus)
	}
}

func distFamily(env *Env) error {
	ng := 0
	relCases := strings.Contains(env.Extra, "rel=1") // the relations of C08 on the generated cases too
	relRng := rand.New(rand.NewSource(env.Seed + 77))
	if err := env.Cases(func(line []byte) error {
		var c distCase
		if err := json.Unmarshal(line, &c); err != nil {
			return fmt.Errorf("bad dist case: %v", err)
		}
		if c.O.Wts == nil {
			c.O.Wts = []int{}
		}
		if c.Cpus <= 0 {
			c.Cpus = 1
		}
		ev := distCall(c.Rows, c.O, c.R, c.Cpus)
		ev.ID = fmt.Sprintf("g%d", ng)
		env.Emit(ev)
		if cliSampled(ng) {
			if ce, ok := distCli(c.Rows, c.O, c.R, c.Cpus); ok {
				ce.ID = ev.ID + ":cli"
				env.Emit(ce)
			}
		}
		if relCases && ev.Kind == "ok" && (len(c.R) == 0 || c.R[0] < 0) && len(c.Rows) > 0 && len(c.Rows[0]) > 0 {
			ws := []int{ng % 6, 5} // one relation in turn, and always the row permutation
			if len(c.Rows) >= 3 && len(c.Rows[0]) >= 7 {
				// the alignments of the option cube (gap runs, ambiguity codes, with and without weights): every relation
				ws = []int{1, 2, 3, 4, 5, ng % 6}
			}
			if (c.O.Model == "pdist" || c.O.Model == "rawdist") && c.O.GapMode == 2 {
				// every gap counted: unlike the internal-gap mode this one does not depend on column order
				ws = []int{ng % 6, 5, 1, 2, 4}
			}
			seenW := map[int]bool{}
			for _, w := range ws {
				if seenW[w] {
					continue
				}
				seenW[w] = true
				distRelations(env, relRng, fmt.Sprintf("g%d.%d", ng, w), c.Rows, c.O, ev, c.Cpus, w)
			}
		}
		ng++
		return nil
	}); err != nil {
		return err
	}
	rng := rand.New(rand.NewSource(env.Seed))
	noRange := []int{-1, -1, -1, -1}
	for i := 0; i < env.N; i++ {
		id := fmt.Sprintf("r%d_%d", env.Seed, i)
		rows := randDistRows(rng, env.Tier)
		L := len(rows[0])
		o := randDistOpts(rng, L)
		modelPoolMu.Lock()
		reuseModels = rng.Intn(2) == 0
		modelPoolMu.Unlock()
		r := noRange
		if rng.Intn(6) == 0 {
			n := len(rows)
			r = []int{rng.Intn(n), rng.Intn(n + 1), rng.Intn(n), rng.Intn(n + 1)}
		}
		cpus := []int{1, 1, 2, 3, 8}[rng.Intn(5)]
		base := distCall(rows, o, r, cpus)
		base.ID = id
		env.Emit(base)
		if cliSampled(i) || (goalignBin != "" && r[0] >= 0 && len(o.Wts) == 0) { // (ranged cases are rare: all of them are asked of the command too)
			if ce, ok := distCli(rows, o, r, cpus); ok {
				ce.ID = id + ":cli"
				env.Emit(ce)
			}
		}
		if base.Kind != "ok" || r[0] >= 0 {
			continue
		}
		distRelations(env, rng, id, rows, o, base, cpus, rng.Intn(6))
	}
	return nil
}

func init() { families["dist"] = distFamily }

// ---- fault injection and free-running concurrency workload (C08) -----------------------------------------

// faultyModel wraps a real model; its k-th Distance (resp. Sequence) call fails.
type faultyModel struct {
	inner    dna.DistModel
	failDist int64 // 1-based index of the first failing Distance call, 0 = never
	failNb   int64 // number of consecutive failing calls (>= 1)
	failSeq  int64
	nd, ns   int64
	mu       chan struct{}
}

var errInjected = fmt.Errorf("injected failure")

func (f *faultyModel) InitModel(al align.Alignment, w []float64, g bool, a float64) error {
	return f.inner.InitModel(al, w, g, a)
}
func (f *faultyModel) Distance(s1, s2 []uint8, w []float64) (float64, error) {
	f.mu <- struct{}{}
	f.nd++
	k := f.nd
	<-f.mu
	if f.failDist > 0 && k >= f.failDist && k < f.failDist+f.failNb {
		return 0, errInjected
	}
	return f.inner.Distance(s1, s2, w)
}
func (f *faultyModel) Sequence(i int) ([]uint8, error) {
	f.mu <- struct{}{}
	f.ns++
	k := f.ns
	<-f.mu
	if k == f.failSeq {
		return nil, errInjected
	}
	return f.inner.Sequence(i)
}

type concCfg struct {
	Np  int   `json:"np"`
	Nw  int   `json:"nw"`
	Cap int   `json:"cap"`
	Fd  []int `json:"fd"`
	Fs  int   `json:"fs"`
}
type concRun struct {
	T    string  `json:"t"`
	ID   string  `json:"id"`
	Cfg  concCfg `json:"cfg"`
	Ret  string  `json:"ret"`
	Logs []*gLog `json:"logs"`
	Rows [][]int `json:"rows"`
	FD   int     `json:"faildist"`
	FS   int     `json:"failseq"`
}

// pairIndex: position (1-based) of the pair (i,j), i<j, in the order the full half matrix is produced
func pairIndex(n, i, j int) int {
	k := 0
	for a := 0; a < n; a++ {
		for b := a + 1; b < n; b++ {
			k++
			if a == i && b == j {
				return k
			}
		}
	}
	return k + 1
}

func failIdx(first int) []int {
	out := []int{}
	for k := 0; first > 0 && k < faultNb; k++ {
		out = append(out, first+k)
	}
	return out
}

// recordRun executes one DistMatrix call with the hooks recording, and returns the run in the vocabulary of
// DistMatrixConc (pairs numbered in production order, workers numbered by first appearance).
func recordRun(rows [][]int, o distOpts, cpus, failDist, failSeq int) *concRun {
	rec := newRecorder()
	stop := rec.install()
	ev := faultCall(rows, o, cpus, failDist, failSeq)
	logs := stop()
	verifhook.Hook = nil // every goroutine of DistMatrix is finished when it returns without hanging
	if ev.Kind == "hang" || ev.Kind == "panic" {
		return &concRun{T: "conc", Ret: ev.Kind, Logs: []*gLog{}, Rows: rows, FD: failDist, FS: failSeq, Cfg: concCfg{Fd: []int{}}}
	}
	n := len(rows)
	run := &concRun{T: "conc", Cfg: concCfg{Np: n * (n - 1) / 2, Nw: cpus, Cap: 100, Fd: failIdx(failDist)}, Ret: "ok", Rows: rows, FD: failDist, FS: failSeq}
	if ev.Kind == "err" {
		run.Ret = "err"
	}
	nw := 0
	for _, l := range logs {
		if len(l.Ev) == 0 {
			continue
		}
		switch l.Ev[0].Pt[:5] {
		case "dm.p.":
			l.Role = "producer"
		case "dm.w.":
			l.Role = "worker"
			nw++
			l.W = nw
		default:
			l.Role = "main"
		}
		for k := range l.Ev {
			e := &l.Ev[k]
			switch e.Pt {
			case "dm.p.send", "dm.w.recv", "dm.w.dist", "dm.w.err", "dm.w.lock", "dm.w.unlock":
				e.A, e.B = pairIndex(n, e.A, e.B), 0
			case "dm.p.err":
				// the row request that failed precedes the sending of this pair
				if e.B < 0 {
					e.A = pairIndex(n, e.A, e.A+1)
				} else {
					e.A = pairIndex(n, e.A, e.B)
				}
				e.B = 0
				run.Cfg.Fs = e.A
			}
		}
		run.Logs = append(run.Logs, l)
	}
	return run
}

type faultEvent struct {
	T        string   `json:"t"`
	ID       string   `json:"id"`
	Rows     [][]int  `json:"rows"`
	O        distOpts `json:"o"`
	Cpus     int      `json:"cpus"`
	FailDist int      `json:"faildist"`
	FailSeq  int      `json:"failseq"`
	NPairs   int      `json:"npairs"`
	NSeqCall int      `json:"nseqcalls"`
	Kind     string   `json:"kind"` // ok | err | hang | panic
	Injected bool     `json:"injected"`
	Msg      string   `json:"msg"`
	Procs    int      `json:"procs"`
}

var faultNb = 1 // number of consecutive failing evaluations injected by faultCall

func faultCall(rows [][]int, o distOpts, cpus, failDist, failSeq int) (ev faultEvent) {
	n := len(rows)
	ev = faultEvent{T: "fault", Rows: rows, O: o, Cpus: cpus, FailDist: failDist, FailSeq: failSeq, NPairs: n * (n - 1) / 2, NSeqCall: n + n*(n-1)/2}
	type res struct {
		err error
		pan interface{}
	}
	done := make(chan res, 1)
	nb := faultNb // read here: the goroutine below may outlive this call (a hang) and must not read shared variables
	go func() {
		defer func() {
			if p := recover(); p != nil {
				done <- res{nil, p}
			}
		}()
		inner, err := mkModel(o)
		if err != nil {
			done <- res{err, nil}
			return
		}
		fm := &faultyModel{inner: inner, failDist: int64(failDist), failNb: int64(nb), failSeq: int64(failSeq), mu: make(chan struct{}, 1)}
		_, err = dna.DistMatrix(mkNtAlign(rows), nil, fm, -1, -1, -1, -1, o.Gamma, 1, cpus)
		done <- res{err, nil}
	}()
	select {
	case x := <-done:
		switch {
		case x.pan != nil:
			ev.Kind, ev.Msg = "panic", fmt.Sprint(x.pan)
		case x.err != nil:
			ev.Kind, ev.Msg, ev.Injected = "err", x.err.Error(), x.err == errInjected
		default:
			ev.Kind = "ok"
		}
	case <-time.After(10 * time.Second):
		ev.Kind, ev.Msg = "hang", "DistMatrix did not return within 10 s"
	}
	return
}

// distConcFamily: failing models at every position x thread counts, and plain multi-threaded runs (for the race detector).
func distConcFamily(env *Env) error {
	rng := rand.New(rand.NewSource(env.Seed))
	for i := 0; i < env.N; i++ {
		rows := randDistRows(rng, "quick")
		for len(rows) < 3 {
			rows = append(rows, rows[0])
		}
		for r := range rows { // only encodable residues here
			for c := range rows[r] {
				if rows[r][c] == '?' || rows[r][c] == 'U' {
					rows[r][c] = 'A'
				}
			}
		}
		o := randDistOpts(rng, len(rows[0]))
		o.Wts = []int{}
		n := len(rows)
		np := n * (n - 1) / 2
		cpus := []int{1, 2, 3, 4, 8, 16, 32}[rng.Intn(7)]
		var ev faultEvent
		faultNb = 1 + rng.Intn(3)
		switch rng.Intn(3) {
		case 0:
			ev = faultCall(rows, o, cpus, 1+rng.Intn(np), 0)
		case 1:
			ev = faultCall(rows, o, cpus, 0, 1+rng.Intn(n+np))
		default:
			ev = faultCall(rows, o, cpus, 0, 0)
		}
		ev.ID = fmt.Sprintf("f%d_%d", env.Seed, i)
		env.Emit(ev)
		// overlapping and disjoint ranges, many threads: material for the race detector and the return check
		r := []int{0, n - 1, 0, n - 1}
		if rng.Intn(2) == 0 {
			r = []int{0, 0, 1, n - 1}
		}
		d := distCall(rows, o, r, cpus)
		d.ID = ev.ID + ":range"
		env.Emit(d)
	}
	return nil
}

// distTraceFamily: small runs recorded through the hooks, one "conc" record per DistMatrix call.
func distTraceFamily(env *Env) error {
	rng := rand.New(rand.NewSource(env.Seed))
	for i := 0; i < env.N; i++ {
		n := 2 + rng.Intn(3)
		rows := make([][]int, n)
		for r := range rows {
			rows[r] = make([]int, 6)
			for c := range rows[r] {
				rows[r][c] = int("ACGT"[rng.Intn(4)])
			}
		}
		np := n * (n - 1) / 2
		o := distOpts{Model: []string{"jc", "k2p", "pdist"}[rng.Intn(3)], Alpha: "1", Wts: []int{}}
		cpus := 1 + rng.Intn(3)
		fd, fs := 0, 0
		faultNb = 1 + rng.Intn(3)
		switch rng.Intn(3) {
		case 0:
			fd = 1 + rng.Intn(np)
		case 1:
			fs = 1 + rng.Intn(n+np)
		}
		run := recordRun(rows, o, cpus, fd, fs)
		run.ID = fmt.Sprintf("c%d_%d", env.Seed, i)
		env.Emit(run)
	}
	return nil
}

func init() {
	families["distconc"] = distConcFamily
	families["disttrace"] = distTraceFamily
}
