package main

// The "heap" family: an interpreter that applies scripts of public SeqBag/Alignment
// operations to real goalign objects and logs, after every step, the projection of every
// live object as seen through all public access paths.  The TLA+ heap machine
// (spec/Goalign.tla) is the only judge of the events; nothing is compared here.

import (
	"encoding/json"
	"fmt"
	"github.com/evolbioinfo/goalign/io/partition"
	"math"
	"math/rand"
	"regexp"
	"sort"
	"strconv"
	"strings"

	"github.com/evolbioinfo/goalign/align"
	"github.com/evolbioinfo/goalign/io/fasta"
)

type Row struct {
	N []int `json:"n"`
	S []int `json:"s"`
}

type Step struct {
	Op   string                 `json:"op"`
	Recv int                    `json:"recv"`
	A    map[string]interface{} `json:"a"`
}

type Script struct {
	ID    string `json:"id"`
	Steps []Step `json:"steps"`
}

type obj struct {
	kind string // "align" | "bag"
	al   align.Alignment
	sb   align.SeqBag
}

// ---- argument helpers -------------------------------------------------------------------

func ai(a map[string]interface{}, k string) int {
	v, ok := a[k]
	if !ok {
		panic(fmt.Sprintf("harness: missing int arg %q", k))
	}
	return int(v.(float64))
}
func ab(a map[string]interface{}, k string) bool {
	v, ok := a[k]
	if !ok {
		panic(fmt.Sprintf("harness: missing bool arg %q", k))
	}
	return v.(bool)
}
func aints(a map[string]interface{}, k string) []int {
	v, ok := a[k]
	if !ok {
		panic(fmt.Sprintf("harness: missing list arg %q", k))
	}
	return toInts(v)
}
func toInts(v interface{}) []int {
	l := v.([]interface{})
	r := make([]int, len(l))
	for i, x := range l {
		r[i] = int(x.(float64))
	}
	return r
}
func abytes(a map[string]interface{}, k string) []byte { return i2b(aints(a, k)) }
func astr(a map[string]interface{}, k string) string   { return string(abytes(a, k)) }
func alist(a map[string]interface{}, k string) []interface{} {
	v, ok := a[k]
	if !ok {
		panic(fmt.Sprintf("harness: missing list arg %q", k))
	}
	return v.([]interface{})
}
func afrac(a map[string]interface{}, p, q string) float64 {
	return float64(ai(a, p)) / float64(ai(a, q))
}

func i2b(l []int) []byte {
	r := make([]byte, len(l))
	for i, x := range l {
		r[i] = byte(x)
	}
	return r
}
func b2i(b []byte) []int {
	r := make([]int, len(b))
	for i, x := range b {
		r[i] = int(x)
	}
	return r
}
func s2i(s string) []int { return b2i([]byte(s)) }
func fstr(x float64) string {
	if math.IsNaN(x) {
		return "NaN"
	}
	if math.IsInf(x, 1) {
		return "+Inf"
	}
	if math.IsInf(x, -1) {
		return "-Inf"
	}
	return strconv.FormatFloat(x, 'g', -1, 64)
}
func nn(l []int) []int {
	if l == nil {
		return []int{}
	}
	return l
}

type pair struct {
	F []int `json:"f"`
	T []int `json:"t"`
}

func mapPairs(m map[string]string) []pair {
	keys := make([]string, 0, len(m))
	for k := range m {
		keys = append(keys, k)
	}
	sort.Strings(keys)
	r := make([]pair, 0, len(keys))
	for _, k := range keys {
		r = append(r, pair{s2i(k), s2i(m[k])})
	}
	return r
}

// ---- projection -------------------------------------------------------------------------

type nameView struct {
	N  []int `json:"n"`
	F  bool  `json:"f"`
	ID int   `json:"id"`
	S  []int `json:"s"`
}

type ObjView struct {
	K      string     `json:"k"`
	Al     int        `json:"al"`
	Len    int        `json:"len"`
	Nb     int        `json:"nb"`
	Rows   []Row      `json:"rows"`
	ByIdx  []Row      `json:"byidx"`
	Oob    bool       `json:"oob"`
	ByName []nameView `json:"byname"`
	Via    int        `json:"via"`
	MaxNL  int        `json:"maxnl"`
}

// project reads an object through every public access path (rotating the accessor
// family with `via`) and copies everything it reads.
func project(o *obj, names [][]byte, via int) ObjView {
	sb := o.sb
	v := ObjView{K: o.kind, Al: sb.Alphabet(), Len: -2, Nb: sb.NbSequences(), Via: via, MaxNL: sb.MaxNameLength()}
	if o.al != nil {
		v.Len = o.al.Length()
	}
	v.Rows = []Row{}
	switch via % 3 {
	case 0:
		sb.IterateAll(func(name string, s []uint8, comment string) bool {
			v.Rows = append(v.Rows, Row{s2i(name), b2i(s)})
			return false
		})
	case 1:
		sb.IterateChar(func(name string, s []uint8) bool {
			v.Rows = append(v.Rows, Row{s2i(name), b2i(s)})
			return false
		})
	default:
		sb.Iterate(func(name string, s string) bool {
			v.Rows = append(v.Rows, Row{s2i(name), s2i(s)})
			return false
		})
	}
	n := sb.NbSequences()
	v.ByIdx = []Row{}
	var seqs []align.Sequence
	if via%4 == 2 {
		seqs = sb.Sequences()
		n = len(seqs)
	}
	for i := 0; i < n; i++ {
		var nm string
		var s []byte
		var ok1, ok2 bool
		switch via % 4 {
		case 0:
			nm, ok1 = sb.GetSequenceNameById(i)
			s, ok2 = sb.GetSequenceCharById(i)
		case 1:
			var sq align.Sequence
			sq, ok1 = sb.Sequence(i)
			ok2 = ok1
			if ok1 && sq != nil {
				nm, s = sq.Name(), sq.SequenceChar()
			}
		case 2:
			ok1, ok2 = true, true
			if seqs[i] != nil {
				nm, s = seqs[i].Name(), seqs[i].SequenceChar()
			} else {
				ok1 = false
			}
		default:
			nm, ok1 = sb.GetSequenceNameById(i)
			var ss string
			ss, ok2 = sb.GetSequenceById(i)
			s = []byte(ss)
		}
		if !ok1 || !ok2 {
			v.Oob = true // an in-range index that is not served is reported through the same flag
			continue
		}
		v.ByIdx = append(v.ByIdx, Row{s2i(nm), b2i(s)})
	}
	for _, i := range []int{-1, sb.NbSequences()} {
		if _, ok := sb.GetSequenceNameById(i); ok {
			v.Oob = true
		}
		if _, ok := sb.GetSequenceCharById(i); ok {
			v.Oob = true
		}
		if _, ok := sb.Sequence(i); ok {
			v.Oob = true
		}
		if _, ok := sb.GetSequenceById(i); ok {
			v.Oob = true
		}
	}
	v.ByName = []nameView{}
	for _, nm := range names {
		q := nameView{N: b2i(nm), S: []int{}}
		name := string(nm)
		switch via % 4 {
		case 0:
			s, ok := sb.GetSequenceChar(name)
			q.F = ok
			if ok {
				q.S = b2i(s)
			}
		case 1:
			s, ok := sb.GetSequence(name)
			q.F = ok
			if ok {
				q.S = s2i(s)
			}
		case 2:
			s, ok := sb.SequenceByName(name)
			q.F = ok
			if ok && s != nil {
				q.S = b2i(s.SequenceChar())
			}
		default:
			s, ok := sb.GetSequenceByName(name)
			q.F = ok
			if ok && s != nil {
				q.S = b2i(s.SequenceChar())
			}
		}
		q.ID = sb.GetSequenceIdByName(name)
		v.ByName = append(v.ByName, q)
	}
	return v
}

// keepMemo is set by the support scripts (heap_support.go), whose replays are separate histories
var keepMemo bool

// hugeLen: lengths logged as 2^30 + k stand for the largest integers (MaxInt64 - k) in the call; the specification
// (whose integers are 32-bit) sees a window that overhangs every alignment either way
func hugeLen(n int) int {
	if n >= 1<<30 {
		return math.MaxInt64 - (n - 1<<30)
	}
	return n
}

// ---- events -----------------------------------------------------------------------------

type HeapEvent struct {
	H    string                 `json:"h"`
	I    int                    `json:"i"`
	Op   string                 `json:"op"`
	Recv int                    `json:"recv"`
	A    map[string]interface{} `json:"a"`
	Kind string                 `json:"kind"` // ok | err | panic
	Msg  string                 `json:"msg"`
	Ret  map[string]interface{} `json:"ret"`
	Objs []ObjView              `json:"objs"`
	Mk   bool                   `json:"mk"`
	Sup  bool                   `json:"sup"`
}

type heapRun struct {
	objs    []*obj
	names   [][]byte
	seen    map[string]bool
	via     int
	lastErr error
	// newFailed: the container refused rows of a New step (the history cannot go on: its object indices are off)
	newFailed bool
}

func (h *heapRun) note(nm []byte) {
	if !h.seen[string(nm)] {
		h.seen[string(nm)] = true
		h.names = append(h.names, append([]byte{}, nm...))
	}
}

func (h *heapRun) noteObj(o *obj) {
	o.sb.IterateChar(func(name string, s []uint8) bool {
		h.note([]byte(name))
		return false
	})
}

func (h *heapRun) get(id int) *obj {
	if id < 1 || id > len(h.objs) {
		panic(fmt.Sprintf("harness: no object %d", id))
	}
	return h.objs[id-1]
}

func (h *heapRun) addAlign(a align.Alignment) int {
	h.objs = append(h.objs, &obj{"align", a, a})
	return len(h.objs)
}
func (h *heapRun) addBag(b align.SeqBag) int {
	h.objs = append(h.objs, &obj{"bag", nil, b})
	return len(h.objs)
}

type harnessPanic string

func rowsArg(v interface{}) []Row {
	l := v.([]interface{})
	rows := make([]Row, len(l))
	for i, x := range l {
		m := x.(map[string]interface{})
		rows[i] = Row{toInts(m["n"]), toInts(m["s"])}
	}
	return rows
}

func runScript(env *Env, sc Script, viaBase int) {
	runSteps(env, sc.ID, viaBase, func(h *heapRun, i int) *Step {
		if i >= len(sc.Steps) {
			return nil
		}
		return &sc.Steps[i]
	})
}

// runSteps executes the steps produced by next (nil = end of history) and logs one event per step.
func runSteps(env *Env, id string, viaBase int, next func(h *heapRun, i int) *Step) {
	h := &heapRun{seen: map[string]bool{}, via: viaBase}
	h.note([]byte("~fresh~"))
	// (keep: the histories that follow replay calls of the earlier ones - same object, same arguments, same seed - and
	// are compared with them: the specification keeps its table of marked calls across this Reset)
	env.Emit(map[string]interface{}{"h": id, "i": 0, "op": "Reset", "keep": keepMemo})
	for i := 0; ; i++ {
		stp := next(h, i)
		if stp == nil {
			return
		}
		st := *stp
		// names mentioned in arguments become names of interest
		for _, k := range []string{"name", "ref"} {
			if v, ok := st.A[k]; ok {
				h.note(i2b(toInts(v)))
			}
		}
		if env.cli != nil {
			h.cliStep(env, env.cli, id, i, st)
		}
		ev := HeapEvent{H: id, I: i + 1, Op: st.Op, Recv: st.Recv, A: st.A, Ret: map[string]interface{}{}}
		if ev.A == nil {
			ev.A = map[string]interface{}{"z": 0}
		}
		if mk, ok := st.A["mk"]; ok && mk == true {
			ev.Mk = true
		}
		if sp, ok := st.A["sup"]; ok && sp == true {
			ev.Sup = true
		}
		func() {
			defer func() {
				if r := recover(); r != nil {
					if hp, ok := r.(harnessPanic); ok {
						panic(string(hp))
					}
					ev.Kind = "panic"
					ev.Msg = fmt.Sprint(r)
				}
			}()
			h.lastErr = nil
			err := h.apply(st, ev.Ret)
			if err != nil {
				ev.Kind = "err"
				ev.Msg = err.Error()
			} else {
				ev.Kind = "ok"
			}
		}()
		for _, o := range h.objs {
			func() {
				defer func() { recover() }()
				h.noteObj(o)
			}()
		}
		h.via++
		ev.Objs = make([]ObjView, len(h.objs))
		for j, o := range h.objs {
			func() {
				defer func() {
					if r := recover(); r != nil {
						ev.Objs[j] = ObjView{K: "broken", Rows: []Row{}, ByIdx: []Row{}, ByName: []nameView{}}
						if ev.Kind != "panic" {
							ev.Kind = "panic"
							ev.Msg = "projection: " + fmt.Sprint(r)
						}
					}
				}()
				ev.Objs[j] = project(o, h.names, h.via+j)
			}()
		}
		env.Emit(ev)
		if ev.Kind == "panic" || h.newFailed {
			return // the rest of the history is not judged
		}
	}
}

func mkmap(l []interface{}) map[string]string {
	m := map[string]string{}
	for _, x := range l {
		p := x.(map[string]interface{})
		m[string(i2b(toInts(p["f"])))] = string(i2b(toInts(p["t"])))
	}
	return m
}

func needAlign(o *obj) align.Alignment {
	if o.al == nil {
		panic(harnessPanic("harness: operation needs an alignment"))
	}
	return o.al
}

func intsOrEmpty(l []int) []int { return nn(l) }

func (h *heapRun) apply(st Step, ret map[string]interface{}) error {
	a := st.A
	if st.Op == "New" {
		var o *obj
		if astrs(a, "k") == "align" {
			al := align.NewAlign(ai(a, "al"))
			al.IgnoreIdentical(ai(a, "pol"))
			o = &obj{"align", al, al}
		} else {
			sb := align.NewSeqBag(ai(a, "al"))
			sb.IgnoreIdentical(ai(a, "pol"))
			o = &obj{"bag", nil, sb}
		}
		for _, r := range rowsArg(a["rows"]) {
			if err := o.sb.AddSequenceChar(string(i2b(r.N)), i2b(r.S), ""); err != nil {
				// rows the specification accepts (the generators only build such objects) are refused by the container:
				// an observation about the code (errClass of New), not a reason to stop - this history ends here
				h.newFailed = true
				return err
			}
		}
		h.objs = append(h.objs, o)
		ret["new"] = len(h.objs)
		return nil
	}
	if st.Op == "NewFromFasta" {
		// the rows written as a FASTA file and read by the real parser; what it returns is copied into an alignment of
		// the declared alphabet (the alphabet the parser detects is not part of the question)
		var buf strings.Builder
		for _, r := range rowsArg(a["rows"]) {
			fmt.Fprintf(&buf, ">%s\n%s\n", string(i2b(r.N)), string(i2b(r.S)))
		}
		parsed, err := fasta.NewParser(strings.NewReader(buf.String())).Parse()
		if err != nil {
			return err
		}
		al := align.NewAlign(ai(a, "al"))
		parsed.IterateChar(func(name string, s []uint8) bool {
			if e := al.AddSequenceChar(name, append([]byte{}, s...), ""); e != nil {
				err = e
			}
			return false
		})
		if err != nil {
			return err
		}
		ret["new"] = h.addAlign(al)
		return nil
	}
	o := h.get(st.Recv)
	sb := o.sb
	switch st.Op {
	// ---------------- container
	case "Add":
		return sb.AddSequenceChar(astr(a, "name"), abytes(a, "seq"), "")
	case "AddString":
		return sb.AddSequence(astr(a, "name"), astr(a, "seq"), "")
	case "IgnoreIdentical":
		sb.IgnoreIdentical(ai(a, "pol"))
	case "Append":
		return needAlign(o).Append(needAlign(h.get(ai(a, "other"))))
	case "Concat":
		return needAlign(o).Concat(needAlign(h.get(ai(a, "other"))))
	case "Rename":
		sb.Rename(mkmap(alist(a, "map")))
	case "RenameRegexp":
		m := map[string]string{}
		err := sb.RenameRegexp(regexp.QuoteMeta(astr(a, "lit")), astr(a, "repl"), m)
		ret["map"] = mapPairs(m)
		return err
	case "CleanNames":
		m := map[string]string{}
		sb.CleanNames(m)
		ret["map"] = mapPairs(m)
	case "TrimNames":
		m := map[string]string{}
		if pv, ok := a["prev"]; ok { // a name map that already served another alignment
			m = mkmap(pv.([]interface{}))
		}
		err := sb.TrimNames(m, ai(a, "size"))
		ret["map"] = mapPairs(m)
		return err
	case "TrimNamesAuto":
		m := map[string]string{}
		cur := ai(a, "curid")
		err := sb.TrimNamesAuto(m, &cur)
		ret["map"] = mapPairs(m)
		ret["curid"] = cur
		return err
	case "AppendSeqIdentifier":
		sb.AppendSeqIdentifier(astr(a, "id"), ab(a, "right"))
	case "Sort":
		sb.Sort()
	case "ShuffleSequences":
		rand.Seed(int64(ai(a, "seed")))
		sb.ShuffleSequences()
	case "FilterLength":
		return sb.FilterLength(ai(a, "min"), ai(a, "max"))
	case "Deduplicate":
		g, err := sb.Deduplicate(ab(a, "nasgap"))
		groups := [][][]int{}
		for _, grp := range g {
			gg := [][]int{}
			for _, n := range grp {
				gg = append(gg, s2i(n))
			}
			groups = append(groups, gg)
		}
		ret["groups"] = groups
		return err
	case "Translate":
		return sb.Translate(ai(a, "frame"), ai(a, "code"))
	case "TranslateByReference":
		return needAlign(o).TranslateByReference(ai(a, "frame"), ai(a, "code"), astr(a, "ref"))
	case "CodonAlign":
		c, err := needAlign(o).CodonAlign(h.get(ai(a, "nt")).sb)
		if err != nil {
			return err
		}
		ret["new"] = h.addAlign(c)
	case "Clone":
		c, err := needAlign(o).Clone()
		if err != nil {
			return err
		}
		ret["new"] = h.addAlign(c)
	case "CloneSeqBag":
		c, err := sb.CloneSeqBag()
		if err != nil {
			return err
		}
		ret["new"] = h.addBag(c)
	case "Sample":
		rand.Seed(int64(ai(a, "seed")))
		c, err := needAlign(o).Sample(ai(a, "nb"))
		if err != nil {
			return err
		}
		ret["new"] = h.addAlign(c)
	case "SampleSeqBag":
		rand.Seed(int64(ai(a, "seed")))
		c, err := sb.SampleSeqBag(ai(a, "nb"))
		if err != nil {
			return err
		}
		ret["new"] = h.addBag(c)
	case "Clear":
		sb.Clear()
	case "SetSequenceChar":
		return sb.SetSequenceChar(ai(a, "i"), ai(a, "j"), byte(ai(a, "c")))
	case "ReplaceChar":
		return needAlign(o).ReplaceChar(astr(a, "name"), ai(a, "site"), byte(ai(a, "c")))
	case "Replace":
		return sb.Replace(astr(a, "old"), astr(a, "new"), false)
	case "AutoAlphabet":
		sb.AutoAlphabet()
	case "SetAlphabet":
		return sb.SetAlphabet(ai(a, "al"))
	case "DetectAlphabet":
		ret["v"] = sb.DetectAlphabet()
	case "Unalign":
		ret["new"] = h.addBag(sb.Unalign())
	case "ToUpper":
		sb.ToUpper()
	case "ToLower":
		sb.ToLower()
	case "ReverseComplement":
		return sb.ReverseComplement()
	case "ReverseComplementSequences":
		names := []string{}
		for _, x := range alist(a, "names") {
			names = append(names, string(i2b(toInts(x))))
			h.note(i2b(toInts(x)))
		}
		return sb.ReverseComplementSequences(names...)
	case "Identical":
		ret["v"] = sb.Identical(h.get(ai(a, "other")).sb)
	// ---------------- sites
	case "SubAlign":
		c, err := needAlign(o).SubAlign(ai(a, "start"), hugeLen(ai(a, "len")))
		if err != nil {
			return err
		}
		ret["new"] = h.addAlign(c)
	case "Extract":
		// the composition `goalign extract` makes for one named region (cmd/extract.go), with the library calls it uses
		al := needAlign(o)
		ref := astr(a, "ref")
		var sub align.Alignment
		blocks := alist(a, "blocks")
		if len(blocks) == 0 {
			return fmt.Errorf("no block")
		}
		for _, b := range blocks {
			m := b.(map[string]interface{})
			s, e := ai(m, "s"), ai(m, "e")
			l := e - s
			if s < 0 || e > al.Length() {
				return fmt.Errorf("coordinates are outside alignment: [%d,%d[", s, e)
			}
			if s >= e {
				return fmt.Errorf("block length should be >0 : [%d,%d[", s, e)
			}
			if ref != "" {
				var err error
				if s, l, err = al.RefCoordinates(ref, s, l); err != nil {
					return err
				}
			}
			tmp, err := al.SubAlign(s, l)
			if err != nil {
				return err
			}
			if sub == nil {
				sub = tmp
			} else if err := sub.Concat(tmp); err != nil {
				return err
			}
		}
		if ab(a, "minus") {
			if err := sub.ReverseComplement(); err != nil {
				return err
			}
		}
		if al.Alphabet() == align.NUCLEOTIDS && ai(a, "code") >= 0 {
			if err := sub.Translate(0, ai(a, "code")); err != nil {
				return err
			}
		}
		ret["new"] = h.addAlign(sub)
	case "SelectSites":
		c, err := needAlign(o).SelectSites(aints(a, "sites"))
		if err != nil {
			return err
		}
		ret["new"] = h.addAlign(c)
	case "InverseCoordinates":
		s, l, err := needAlign(o).InverseCoordinates(ai(a, "start"), hugeLen(ai(a, "len")))
		ret["starts"], ret["lens"] = nn(s), nn(l)
		return err
	case "InversePositions":
		s, err := needAlign(o).InversePositions(aints(a, "sites"))
		ret["sites"] = nn(s)
		return err
	case "TrimSequences":
		return needAlign(o).TrimSequences(ai(a, "n"), ab(a, "fromstart"))
	case "RefCoordinates":
		s, l, err := needAlign(o).RefCoordinates(astr(a, "name"), ai(a, "start"), hugeLen(ai(a, "len")))
		ret["start"], ret["len"] = s, l
		return err
	case "RefSites":
		s, err := needAlign(o).RefSites(astr(a, "name"), aints(a, "sites"))
		ret["sites"] = nn(s)
		return err
	case "Split":
		if ab(a, "text") {
			// the same ranges written as a partition file and read back by the real partition parser
			text, _ := partitionText(a)
			ret["text"] = text
			ps, err := partition.NewParser(strings.NewReader(text)).Parse(ai(a, "plen"))
			if err != nil {
				ret["stage"] = "addrange"
				return err
			}
			ret["stage"] = "split"
			als, err := needAlign(o).Split(ps)
			if err != nil {
				return err
			}
			ids := []int{}
			for _, x := range als {
				ids = append(ids, h.addAlign(x))
			}
			ret["new"] = ids
			return nil
		}
		ps := align.NewPartitionSet(ai(a, "plen"))
		for _, x := range alist(a, "ranges") {
			r := x.(map[string]interface{})
			if err := ps.AddRange(fmt.Sprintf("p%d", ai(r, "p")), "m", ai(r, "s"), ai(r, "e"), ai(r, "m")); err != nil {
				ret["stage"] = "addrange"
				return err
			}
		}
		ret["stage"] = "split"
		als, err := needAlign(o).Split(ps)
		if err != nil {
			return err
		}
		ids := []int{}
		for _, x := range als {
			ids = append(ids, h.addAlign(x))
		}
		ret["new"] = ids
	case "Transpose":
		c, err := needAlign(o).Transpose()
		if err != nil {
			return err
		}
		ret["new"] = h.addAlign(c)
	case "DiffWithFirst":
		needAlign(o).DiffWithFirst()
	case "ReplaceMatchChars":
		needAlign(o).ReplaceMatchChars()
	// ---------------- clean
	case "RemoveGapSites":
		f, l, k, r := needAlign(o).RemoveGapSites(afrac(a, "p", "q"), ab(a, "ends"))
		ret["first"], ret["last"], ret["kept"], ret["rm"] = f, l, nn(k), nn(r)
	case "RemoveCharacterSites":
		f, l, k, r := needAlign(o).RemoveCharacterSites(abytes(a, "chars"), afrac(a, "p", "q"), ab(a, "ends"),
			ab(a, "icase"), ab(a, "igaps"), ab(a, "ins"), ab(a, "rev"))
		ret["first"], ret["last"], ret["kept"], ret["rm"] = f, l, nn(k), nn(r)
	case "RemoveMajorityCharacterSites":
		f, l, k, r := needAlign(o).RemoveMajorityCharacterSites(afrac(a, "p", "q"), ab(a, "ends"), ab(a, "igaps"), ab(a, "ins"))
		ret["first"], ret["last"], ret["kept"], ret["rm"] = f, l, nn(k), nn(r)
	case "RemoveGapSeqs":
		ret["n"] = needAlign(o).RemoveGapSeqs(afrac(a, "p", "q"), ab(a, "ins"))
	case "RemoveCharacterSeqs":
		ret["n"] = needAlign(o).RemoveCharacterSeqs(byte(ai(a, "c")), afrac(a, "p", "q"), ab(a, "icase"), ab(a, "igaps"), ab(a, "ins"))
	case "Compress":
		ret["w"] = nn(needAlign(o).Compress())
	// ---------------- mask
	case "Mask":
		return needAlign(o).Mask(astr(a, "ref"), ai(a, "start"), hugeLen(ai(a, "len")), astr(a, "repl"), ab(a, "nogap"), ab(a, "noref"))
	case "MaskPositions":
		// every position is converted (when given on a reference) and checked on the alignment as it is, then masked
		al := needAlign(o)
		ref := astr(a, "ref")
		cols := []int{}
		for _, p := range aints(a, "pos") {
			if ref != "" {
				s, _, err := al.RefCoordinates(ref, p, 1)
				if err != nil {
					return err
				}
				p = s
			} else if p < 0 || p > al.Length() {
				return fmt.Errorf("position %d is outside the alignment", p)
			}
			cols = append(cols, p)
		}
		// (a replacement the library refuses is refused before anything is changed)
		if len(cols) == 0 {
			cols = append(cols, al.Length())
		}
		probe, err := al.Clone()
		if err != nil {
			return err
		}
		if err := probe.Mask(ref, al.Length(), 1, astr(a, "repl"), ab(a, "nogap"), ab(a, "noref")); err != nil {
			return err
		}
		for _, p := range cols {
			if err := al.Mask(ref, p, 1, astr(a, "repl"), ab(a, "nogap"), ab(a, "noref")); err != nil {
				return err
			}
		}
		return nil
	case "MaskOccurences":
		return needAlign(o).MaskOccurences(astr(a, "ref"), ai(a, "max"), astr(a, "repl"))
	case "MaskUnique":
		return needAlign(o).MaskUnique(astr(a, "ref"), astr(a, "repl"))
	default:
		if h.applyStats(o, st, ret) {
			return h.lastErr
		}
		if h.applyRandom(o, st, ret) {
			return h.lastErr
		}
		if h.applyQuery(o, st, ret) {
			return h.lastErr
		}
		panic(harnessPanic("harness: unknown op " + st.Op))
	}
	return nil
}

// partitionText writes the ranges of a Split step as a partition file (one line per run of ranges of the same
// partition) and lists the partition names in order of first appearance.
func partitionText(a map[string]interface{}) (string, []string) {
	var sbuf strings.Builder
	names := []string{}
	seen := map[int]bool{}
	prev := -999999
	for _, x := range alist(a, "ranges") {
		r := x.(map[string]interface{})
		if !seen[ai(r, "p")] {
			seen[ai(r, "p")] = true
			names = append(names, fmt.Sprintf("p%d", ai(r, "p")))
		}
		if ai(r, "p") != prev {
			if prev != -999999 {
				sbuf.WriteString("\n")
			}
			fmt.Fprintf(&sbuf, "M, p%d = ", ai(r, "p"))
			prev = ai(r, "p")
		} else {
			sbuf.WriteString(", ")
		}
		if ai(r, "s") == ai(r, "e") && ai(r, "m") == 1 {
			fmt.Fprintf(&sbuf, "%d", ai(r, "s")+1)
		} else {
			fmt.Fprintf(&sbuf, "%d-%d", ai(r, "s")+1, ai(r, "e")+1)
		}
		if ai(r, "m") != 1 {
			fmt.Fprintf(&sbuf, "/%d", ai(r, "m"))
		}
	}
	sbuf.WriteString("\n")
	return sbuf.String(), names
}

func astrs(a map[string]interface{}, k string) string {
	v, ok := a[k]
	if !ok {
		panic(fmt.Sprintf("harness: missing string arg %q", k))
	}
	return v.(string)
}

func heapFamily(env *Env) error {
	n := 0
	if env.cli = newCliFront(env); env.cli != nil {
		defer env.cli.close()
	}
	err := env.Cases(func(line []byte) error {
		var sc Script
		if err := json.Unmarshal(line, &sc); err != nil {
			return fmt.Errorf("bad script: %v: %.200s", err, line)
		}
		if sc.ID == "" {
			sc.ID = fmt.Sprintf("g%d", n)
		}
		runScript(env, sc, n)
		n++
		return nil
	})
	if err != nil {
		return err
	}
	if env.Mode == "C10sup" {
		supportScripts(env)
		return nil
	}
	if env.N > 0 {
		rng := rand.New(rand.NewSource(env.Seed))
		for i := 0; i < env.N; i++ {
			g := newHeapGen(rng, env.Mode, env.Tier)
			if env.Mode == "C06" && i < 2 {
				g.long, g.steps = true, 4
			}
			runSteps(env, fmt.Sprintf("r%d_%d", env.Seed, i), i, g.next)
		}
	}
	return nil
}

func init() { families["heap"] = heapFamily }
