package main

// Helpers shared by the command-line fronts: the families that observe library calls can ask the same question of the
// goalign binary built from /repo (VERIF_GOALIGN) and log the answer as an event of the SAME kind, so that the same TLA+
// specification judges what the command line prints.

import (
	"bytes"
	"fmt"
	"os"
	"os/exec"
	"strconv"
	"strings"
)

var goalignBin = os.Getenv("VERIF_GOALIGN")

// cliSampled tells whether case number i is also asked of the command line (one in VERIF_CLI_EVERY).
func cliSampled(i int) bool {
	if goalignBin == "" {
		return false
	}
	every, _ := strconv.Atoi(os.Getenv("VERIF_CLI_EVERY"))
	if every < 1 {
		every = 1
	}
	return i%every == 0
}

// runGoalign executes the binary; a non-zero exit status is reported through code (stderr holds the message).
func runGoalign(stdin []byte, argv ...string) (stdout, stderr string, code int) {
	cmd := exec.Command(goalignBin, argv...)
	cmd.Stdin = bytes.NewReader(stdin)
	var so, se bytes.Buffer
	cmd.Stdout, cmd.Stderr = &so, &se
	err := cmd.Run()
	if err != nil {
		if ee, ok := err.(*exec.ExitError); ok {
			return so.String(), se.String(), ee.ExitCode()
		}
		fmt.Fprintln(os.Stderr, "driver: cannot run goalign:", err)
		os.Exit(3)
	}
	return so.String(), se.String(), 0
}

func fastaRows(rows [][]int) []byte {
	var b bytes.Buffer
	for i, r := range rows {
		fmt.Fprintf(&b, ">s%d\n%s\n", i, string(i2b(r)))
	}
	return b.Bytes()
}

func phylipRows(rows [][]int) []byte {
	var b bytes.Buffer
	fmt.Fprintf(&b, "   %d   %d\n", len(rows), len(rows[0]))
	for i, r := range rows {
		fmt.Fprintf(&b, "s%d  %s\n", i, string(i2b(r)))
	}
	return b.Bytes()
}

// parseDistText reads the matrix `compute distance` prints (count, then name and tab-separated entries per row).  The
// entries keep the decimal text the command printed (12 decimals; NaN and +Inf as Go prints them).
func parseDistText(out string, n int) ([][]string, bool) {
	lines := strings.Split(strings.TrimRight(out, "\n"), "\n")
	if len(lines) != n+1 || strings.TrimSpace(lines[0]) != strconv.Itoa(n) {
		return nil, false
	}
	m := make([][]string, n)
	for i := 0; i < n; i++ {
		f := strings.Split(lines[i+1], "\t")
		if len(f) != n+1 || f[0] != fmt.Sprintf("s%d", i) {
			return nil, false
		}
		m[i] = f[1:]
		for _, x := range m[i] {
			if _, err := strconv.ParseFloat(x, 64); err != nil {
				return nil, false
			}
		}
	}
	return m, true
}

func cliKind(stderr string) string {
	if strings.Contains(stderr, "panic:") || strings.Contains(stderr, "goroutine ") {
		return "panic"
	}
	return "err"
}
