package main

// Support and seed-replay workload of property C10: on small instances with pairwise distinct rows and
// columns every randomised operation is drawn many times with different seeds (the trace specification
// accumulates the elementary outcomes seen per (operation, arguments, pre-state) and requires all of them),
// and the first draws are repeated with the same seed (the specification requires the same outcome).

import "fmt"

func supportScripts(env *Env) {
	// quick: instances with at most 4 columns / rows, so every elementary outcome has probability >= 1/4 per draw and
	// 260 draws miss one with probability (3/4)^260 < 1e-32; thorough: also the 5-column instance, 1200 draws
	draws := 260
	quick := true
	if env.Tier == "thorough" {
		draws = 1200
		quick = false
	}
	mk := func(rows ...string) *Step {
		rs := []interface{}{}
		for i, r := range rows {
			rs = append(rs, map[string]interface{}{"n": toIface([]int{'r', '0' + i}), "s": toIface(s2i(r))})
		}
		return &Step{Op: "New", Recv: 0, A: map[string]interface{}{"k": "align", "al": float64(1), "pol": float64(0), "rows": rs}}
	}
	insts := []*Step{mk("ACGT", "CGTA", "GTAC"), mk("ACGTN", "CCGTA"), mk("A", "C", "G", "T")}
	type call struct {
		op     string
		a      map[string]interface{}
		on     []int
		replay bool // seed replay only (operations that change their receiver in place: no support accounting)
	}
	calls := []call{}
	for _, f := range [][2]int{{4, 4}, {3, 4}, {2, 4}, {1, 4}, {5, 4}} {
		calls = append(calls, call{"BuildBootstrap", map[string]interface{}{"fp": f64(f[0]), "fq": f64(f[1])}, []int{0, 1}, false})
	}
	for l := 1; l <= 5; l++ {
		for _, c := range []bool{true, false} {
			on := []int{1}
			if l <= 4 {
				on = []int{0, 1}
			}
			if l == 1 {
				on = []int{0, 1, 2}
			}
			calls = append(calls, call{"RandSubAlign", map[string]interface{}{"len": f64(l), "consecutive": c}, on, false})
		}
	}
	for nb := 1; nb <= 4; nb++ {
		on := []int{2}
		if nb <= 3 {
			on = []int{0, 2}
		}
		calls = append(calls, call{"Sample", map[string]interface{}{"nb": f64(nb)}, on, false})
	}
	calls = append(calls, call{"ShuffleSequences", map[string]interface{}{}, []int{0, 2}, false})
	// rarefaction with counts that are exhausted while drawing (singletons) and with equal counts
	for _, cs := range [][]int{{1, 1, 1, 1}, {1, 3, 1, 3}, {2, 2, 2, 2}} {
		counts := []interface{}{}
		for i, c := range cs {
			counts = append(counts, map[string]interface{}{"n": toIface([]int{'r', '0' + i}), "c": f64(c)})
		}
		for _, nb := range []int{2, 3} {
			calls = append(calls, call{"Rarefy", map[string]interface{}{"counts": counts, "nb": f64(nb)}, []int{2}, false})
		}
	}
	// the operations that change their receiver in place: the same seed three times in a row, then again after the other
	// seeds - whatever a call leaves behind in the process (buffers, package-level state) must not reach the next one
	q := func(p, d int) (float64, float64) { return f64(p), f64(d) }
	for _, r := range [][2]int{{1, 4}, {2, 4}, {4, 4}} {
		for _, l := range [][2]int{{1, 4}, {2, 4}, {3, 4}} {
			pp, pq := q(r[0], r[1])
			lp, lq := q(l[0], l[1])
			calls = append(calls, call{"AddGaps", map[string]interface{}{"pp": pp, "pq": pq, "lp": lp, "lq": lq}, []int{0, 2}, true})
			calls = append(calls, call{"SimulateRogue", map[string]interface{}{"pp": pp, "pq": pq, "lp": lp, "lq": lq}, []int{0}, true})
			calls = append(calls, call{"Recombine", map[string]interface{}{"pp": pp, "pq": f64(8), "lp": lp, "lq": lq, "swap": r[0] == 2}, []int{0, 2}, true})
			calls = append(calls, call{"Swap", map[string]interface{}{"rp": pp, "rq": pq, "posp": lp, "posq": lq}, []int{0}, true})
			calls = append(calls, call{"ShuffleSites", map[string]interface{}{"rp": pp, "rq": pq, "gp": lp, "gq": lq, "first": r[0] == 1}, []int{0}, true})
		}
		rp, rq := q(r[0], r[1])
		calls = append(calls, call{"Mutate", map[string]interface{}{"rp": rp, "rq": rq}, []int{0, 2}, true})
	}
	nscript := 0
	keepMemo = true
	defer func() { keepMemo = false }()
	for ci, c := range calls {
		for _, in := range c.on {
			if quick && in == 1 {
				continue
			}
			ndraws := draws
			if c.replay {
				ndraws = 4
			}
			for d := 0; d < ndraws; d++ {
				reps := 1
				if d < 20 {
					reps = 3 // same seed three times: replay
				}
				for r := 0; r < reps; r++ {
					a := map[string]interface{}{"seed": f64(int(env.Seed)*100003 + ci*7919 + d), "sup": r == 0 && !c.replay}
					for k, v := range c.a {
						a[k] = v
					}
					if d < 20 {
						a["mk"] = true
					}
					keepMemo = !(d == 0 && r == 0) // a new call on a new object: nothing earlier can repeat it
					steps := []*Step{insts[in], {Op: c.op, Recv: 1, A: a}}
					runSteps(env, fmt.Sprintf("s%d", nscript), nscript, func(h *heapRun, i int) *Step {
						if i >= len(steps) {
							return nil
						}
						return steps[i]
					})
					nscript++
				}
			}
		}
	}
}
