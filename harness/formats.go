package main

// Families "fmt" (property C02: write / parse round trips along chains of formats, through memory or plain/.gz/.xz
// files, with explicit parsers or format auto-detection, single alignments and multi-alignment Phylip streams) and
// "parse" (property C03: arbitrary byte strings given to every parser, with a post-EOF read counter that stops a
// parser looping at end of input and a wall-clock guard for loops that do not read).

import (
	"bufio"
	"bytes"
	"encoding/json"
	"errors"
	"fmt"
	"io"
	"math/rand"
	"os"
	"path/filepath"
	"strings"
	"time"

	"github.com/evolbioinfo/goalign/align"
	"github.com/evolbioinfo/goalign/io/clustal"
	"github.com/evolbioinfo/goalign/io/fasta"
	"github.com/evolbioinfo/goalign/io/nexus"
	"github.com/evolbioinfo/goalign/io/partition"
	"github.com/evolbioinfo/goalign/io/phylip"
	"github.com/evolbioinfo/goalign/io/stockholm"
	"github.com/evolbioinfo/goalign/io/utils"
)

type fmtAl struct {
	Rows []Row `json:"rows"`
	Al   int   `json:"al"`
	Len  int   `json:"len"`
}
type fmtHop struct {
	Fmt     string `json:"fmt"`
	Strict  bool   `json:"strict"`
	Oneline bool   `json:"oneline"`
	Noblock bool   `json:"noblock"`
	Via     string `json:"via"` // mem | file | gz | xz
	Auto    bool   `json:"auto"`
}
type fmtCase struct {
	Als   []fmtAl  `json:"als"`
	Chain []fmtHop `json:"chain"`
}
type fmtEvent struct {
	ID       string  `json:"id"`
	Hop      int     `json:"hop"`
	H        fmtHop  `json:"h"`
	In       []fmtAl `json:"in"`
	Out      []fmtAl `json:"out"`
	Kind     string  `json:"kind"`
	Msg      string  `json:"msg"`
	Detected string  `json:"detected"`
	First    int     `json:"first"`
	NBytes   int     `json:"nbytes"`
}

func viewAl(a align.Alignment) fmtAl {
	v := fmtAl{Rows: []Row{}, Al: a.Alphabet(), Len: a.Length()}
	a.IterateChar(func(name string, s []uint8) bool {
		v.Rows = append(v.Rows, Row{s2i(name), b2i(s)})
		return false
	})
	return v
}

func buildAl(f fmtAl) align.Alignment {
	a := align.NewAlign(align.UNKNOWN)
	for _, r := range f.Rows {
		if err := a.AddSequenceChar(string(i2b(r.N)), i2b(r.S), ""); err != nil {
			panic(harnessPanic("harness: inconsistent generated alignment: " + err.Error()))
		}
	}
	a.AutoAlphabet()
	return a
}

func writeFmt(a align.Alignment, h fmtHop) string {
	switch h.Fmt {
	case "fasta":
		return fasta.WriteAlignment(a)
	case "phylip":
		return phylip.WriteAlignment(a, h.Strict, h.Oneline, h.Noblock)
	case "nexus":
		return nexus.WriteAlignment(a)
	case "clustal":
		return clustal.WriteAlignment(a)
	case "stockholm":
		return stockholm.WriteAlignment(a)
	}
	panic(harnessPanic("harness: unknown format " + h.Fmt))
}

var fmtNames = map[int]string{align.FORMAT_FASTA: "fasta", align.FORMAT_PHYLIP: "phylip", align.FORMAT_NEXUS: "nexus", align.FORMAT_CLUSTAL: "clustal"}

func parseExplicit(r io.Reader, h fmtHop, multi bool) ([]align.Alignment, error) {
	var a align.Alignment
	var err error
	switch h.Fmt {
	case "fasta":
		a, err = fasta.NewParser(r).Parse()
	case "phylip":
		p := phylip.NewParser(r, h.Strict)
		if multi {
			out := []align.Alignment{}
			for {
				a, err = p.Parse()
				if err != nil || a == nil {
					return out, err
				}
				out = append(out, a)
			}
		}
		a, err = p.Parse()
		if err == nil && a == nil {
			err = errors.New("harness: end of stream instead of an alignment")
		}
	case "nexus":
		a, err = nexus.NewParser(r).Parse()
	case "clustal":
		a, err = clustal.NewParser(r).Parse()
	case "stockholm":
		a, err = stockholm.NewParser(r).Parse()
	}
	if err != nil {
		return nil, err
	}
	return []align.Alignment{a}, nil
}

func runFmtCase(env *Env, id string, c fmtCase, dir string) {
	cur := c.Als
	for hi, h := range c.Chain {
		ev := fmtEvent{ID: id, Hop: hi, H: h, In: cur, Out: []fmtAl{}}
		var outs []align.Alignment
		done := make(chan struct{})
		hpanic := ""
		go func() {
			defer close(done)
			defer func() {
				if r := recover(); r != nil {
					if hp, ok := r.(harnessPanic); ok {
						hpanic = string(hp)
						return
					}
					ev.Kind, ev.Msg = "panic", fmt.Sprint(r)
				}
			}()
			var sb strings.Builder
			pieces := []string{}
			for _, f := range cur {
				pieces = append(pieces, writeFmt(buildAl(f), h))
				sb.WriteString(pieces[len(pieces)-1])
			}
			text := sb.String()
			ev.NBytes = len(text)
			if len(text) > 0 {
				ev.First = int(text[0])
			}
			var rd *bufio.Reader
			var closer io.Closer
			if h.Via == "mem" {
				rd = bufio.NewReader(strings.NewReader(text))
			} else {
				ext := map[string]string{"file": ".txt", "gz": ".gz", "xz": ".xz"}[h.Via]
				path := filepath.Join(dir, "rt"+ext)
				// one hop in VERIF_CLI_EVERY is written by `goalign reformat <format> -o <file>` instead of the library writer
				viaCli := false
				if cliSampled(fmtHopCount) {
					cliReformatErr = ""
					viaCli = cliReformat(cur, h, path, dir, fmtHopCount)
					if viaCli {
						ev.Msg = "written by goalign reformat"
						fmtCliCount++
						if cliReformatErr != "" {
							ev.Kind, ev.Msg = "err", cliReformatErr
							fmtHopCount++
							return
						}
					}
				}
				fmtHopCount++
				var err error
				if !viaCli {
					var w utils.StringWriterCloser
					w, err = utils.OpenWriteFile(path)
					if err != nil {
						ev.Kind, ev.Msg = "err", "open for writing: "+err.Error()
						return
					}
					for _, piece := range pieces { // one write per alignment, as the command line does
						w.WriteString(piece)
					}
					utils.CloseWriteFile(w, path)
				}
				closer, rd, err = utils.GetReader(path)
				if err != nil {
					ev.Kind, ev.Msg = "err", "open for reading: "+err.Error()
					return
				}
				defer os.Remove(path)
			}
			var err error
			multi := len(cur) != 1
			if h.Auto {
				if multi || (h.Fmt == "phylip" && hi%2 == 1) {
					var ch *align.AlignChannel
					var f int
					ch, f, err = utils.ParseMultiAlignmentsAuto(nil, rd, h.Strict, align.BOTH)
					ev.Detected = fmtNames[f]
					if err == nil {
						for a := range ch.Achan {
							outs = append(outs, a)
						}
						err = ch.Err
					}
				} else {
					var a align.Alignment
					var f int
					a, f, err = utils.ParseAlignmentAuto(rd, h.Strict)
					ev.Detected = fmtNames[f]
					if err == nil {
						outs = []align.Alignment{a}
					}
				}
			} else {
				outs, err = parseExplicit(rd, h, multi)
			}
			if closer != nil {
				closer.Close()
			}
			if err != nil {
				ev.Kind, ev.Msg = "err", err.Error()
				return
			}
			ev.Kind = "ok"
			for _, a := range outs {
				if a == nil {
					ev.Kind, ev.Msg = "err", "nil alignment without error"
					return
				}
				ev.Out = append(ev.Out, viewAl(a))
			}
		}()
		// a reader that does not come back (a stream longer than a channel's capacity read before anyone listens, ...)
		select {
		case <-done:
			if hpanic != "" {
				panic(hpanic)
			}
		case <-time.After(fmtHopTimeout):
			env.Emit(fmtEvent{ID: id, Hop: hi, H: h, In: cur, Out: []fmtAl{}, Kind: "hang", Msg: "the hop did not return"})
			return
		}
		env.Emit(ev)
		if ev.Kind != "ok" {
			return
		}
		cur = ev.Out
	}
}

var fmtHopCount, fmtCliCount int

const fmtHopTimeout = 30 * time.Second

// cliReformat writes the alignments through the command line: they are given as FASTA (one alignment) or as a Phylip
// stream (several) - only when reading that input back gives the same alignments -, from a file, from "-" or from the
// default standard input, and `goalign reformat <format>` writes the output file (plain, .gz or .xz by its name).
func cliReformat(cur []fmtAl, h fmtHop, path, dir string, k int) bool {
	sub := map[string]string{"fasta": "fasta", "phylip": "phylip", "nexus": "nexus", "clustal": "clustal"}[h.Fmt]
	if sub == "" || len(cur) == 0 {
		return false
	}
	var in strings.Builder
	argv := []string{"reformat", sub, "-o", path}
	als := make([]align.Alignment, len(cur))
	for i, f := range cur {
		als[i] = buildAl(f)
		if als[i].NbSequences() == 0 {
			return false
		}
	}
	same := func(a align.Alignment, f fmtAl) bool {
		v := viewAl(a)
		if len(v.Rows) != len(f.Rows) {
			return false
		}
		for i := range v.Rows {
			if string(i2b(v.Rows[i].N)) != string(i2b(f.Rows[i].N)) || string(i2b(v.Rows[i].S)) != string(i2b(f.Rows[i].S)) {
				return false
			}
		}
		return true
	}
	if len(cur) == 1 {
		in.WriteString(fasta.WriteAlignment(als[0]))
		back, err := fasta.NewParser(strings.NewReader(in.String())).Parse()
		if err != nil || !same(back, cur[0]) {
			return false
		}
	} else {
		for _, a := range als {
			in.WriteString(phylip.WriteAlignment(a, false, false, false))
		}
		p := phylip.NewParser(strings.NewReader(in.String()), false)
		for _, f := range cur {
			back, err := p.Parse()
			if err != nil || back == nil || !same(back, f) {
				return false
			}
		}
		argv = append(argv, "-p")
	}
	if h.Fmt == "phylip" {
		if h.Strict {
			argv = append(argv, "--output-strict")
		}
		if h.Oneline {
			argv = append(argv, "--one-line")
		}
		if h.Noblock {
			argv = append(argv, "--no-block")
		}
	}
	var stdin []byte
	switch fmtCliCount % 3 { // (k itself is a multiple of the sampling period)
	case 0:
		src := filepath.Join(dir, "cli_in.txt")
		if os.WriteFile(src, []byte(in.String()), 0o644) != nil {
			return false
		}
		defer os.Remove(src)
		argv = append(argv, "-i", src)
	case 1:
		argv = append(argv, "-i", "-")
		stdin = []byte(in.String())
	default:
		stdin = []byte(in.String())
	}
	os.Remove(path)
	_, errs, code := runGoalign(stdin, argv...)
	if code != 0 {
		// the command refused an input the library parser reads back: logged as the failure of this hop
		os.Remove(path)
		cliReformatErr = "goalign " + strings.Join(argv, " ") + ": " + errs
		if len(cliReformatErr) > 400 {
			cliReformatErr = cliReformatErr[:400]
		}
	}
	return true
}

var cliReformatErr string

// ---- random round-trip cases ------------------------------------------------------------------
var fmtLens = []int{1, 2, 9, 10, 11, 49, 50, 51, 59, 60, 61, 79, 80, 81, 100, 119, 120, 121, 160, 180}

func randFmtAl(rng *rand.Rand, tier string, strictNames bool) fmtAl {
	var alpha []byte
	switch rng.Intn(5) {
	case 0:
		alpha = []byte("ACGT")
	case 1:
		alpha = []byte("ACGTacgtRYSWKMBDHVNn-")
	case 2:
		alpha = []byte("ARNDCQEGHILKMFPSTWYVarndcqeghilkmfpstwyvXx-*")
	case 3:
		alpha = []byte("ACGT-?*N")
	default:
		alpha = []byte("GAPENDTRYMISgapend") // rows that may spell words a lexer knows
	}
	n := 1 + rng.Intn(5)
	L := fmtLens[rng.Intn(len(fmtLens))]
	if tier != "thorough" && L > 121 && rng.Intn(2) == 0 {
		L = 3
	}
	if rng.Intn(6) == 0 {
		L = []int{3, 4, 5}[rng.Intn(3)]
	}
	nameChars := []byte("abcdefgxyzABCXYZ0123456789_.|-/:+@")
	f := fmtAl{Rows: []Row{}}
	used := map[string]bool{}
	for i := 0; i < n; i++ {
		var nm []byte
		for {
			k := 1 + rng.Intn(12)
			if strictNames {
				k = 1 + rng.Intn(10)
			}
			nm = make([]byte, k)
			if strictNames && rng.Intn(3) == 0 {
				k = 10 // the strict name field exactly filled
				nm = make([]byte, k)
			}
			nm[0] = nameChars[rng.Intn(22)] // starts with a letter
			for j := 1; j < k; j++ {
				nm[j] = nameChars[rng.Intn(len(nameChars))]
			}
			if rng.Intn(25) == 0 {
				// names spelling a word some lexer knows
				nm = []byte([]string{"clustal", "CLUSTAL", "clustalw", "begin", "end", "matrix", "format", "dimensions", "MUSCLE", "STOCKHOLM"}[rng.Intn(10)])
			}
			if rng.Intn(25) == 0 {
				// names that only start or end with such a word: ordinary names for every format
				w := []string{"clustal", "CLUSTAL", "Clustalw", "begin", "end", "matrix", "format", "dimensions", "ntax", "data", "MUSCLE", "STOCKHOLM"}[rng.Intn(12)]
				x := string(nameChars[rng.Intn(22)]) + string(nameChars[rng.Intn(22)])
				if rng.Intn(2) == 0 {
					nm = []byte(w + x)
				} else {
					nm = []byte(x + w)
				}
				if strictNames && len(nm) > 10 {
					nm = nm[:10]
				}
			}
			if !used[string(nm)] {
				break
			}
		}
		used[string(nm)] = true
		s := make([]int, L)
		for j := range s {
			s[j] = int(alpha[rng.Intn(len(alpha))])
		}
		f.Rows = append(f.Rows, Row{b2i(nm), s})
	}
	return f
}

func randFmtCase(rng *rand.Rand, tier string) fmtCase {
	var c fmtCase
	nh := 1 + rng.Intn(3)
	strict := false
	for i := 0; i < nh; i++ {
		h := fmtHop{Fmt: []string{"fasta", "phylip", "phylip", "nexus", "clustal", "stockholm"}[rng.Intn(6)]}
		if h.Fmt == "phylip" {
			h.Strict, h.Oneline, h.Noblock = rng.Intn(3) == 0, rng.Intn(3) == 0, rng.Intn(3) == 0
			strict = strict || h.Strict
		}
		h.Via = []string{"mem", "mem", "file", "gz", "xz"}[rng.Intn(5)]
		h.Auto = h.Fmt != "stockholm" && rng.Intn(3) == 0
		c.Chain = append(c.Chain, h)
	}
	nal := 1
	long := rng.Intn(40) == 0
	if long || rng.Intn(4) == 0 {
		// a multi-alignment stream: Phylip only
		nal = 2 + rng.Intn(3)
		if long {
			nal = 14 + rng.Intn(8) // more alignments than the reader's channel holds (bootstrap replicates in one file)
		}
		h := c.Chain[0]
		h.Fmt = "phylip"
		h.Strict, h.Oneline, h.Noblock = rng.Intn(3) == 0, rng.Intn(3) == 0, rng.Intn(3) == 0
		strict = h.Strict
		if long {
			h.Auto, h.Via = true, []string{"mem", "gz"}[rng.Intn(2)]
		}
		c.Chain = []fmtHop{h}
	}
	for i := 0; i < nal; i++ {
		c.Als = append(c.Als, randFmtAl(rng, tier, strict))
	}
	if nal > 1 && rng.Intn(2) == 0 {
		// a small alignment followed by a large one (several kilobytes once written), same sequence length or not
		big := fmtAl{}
		for r := 0; r < 8; r++ {
			s := make([]int, 610)
			for j := range s {
				s[j] = int("ACGT"[rng.Intn(4)])
			}
			big.Rows = append(big.Rows, Row{s2i(fmt.Sprintf("big%d", r)), s})
		}
		c.Als = append(c.Als[:1], append([]fmtAl{big}, c.Als[1:]...)...)
	}
	if nal > 1 && rng.Intn(2) == 0 {
		// decreasing numbers of sequences with one common length
		L := len(c.Als[0].Rows[0].S)
		for k := range c.Als {
			for len(c.Als[k].Rows) < nal-k+1 {
				c.Als[k].Rows = append(c.Als[k].Rows, Row{s2i(fmt.Sprintf("x%d", len(c.Als[k].Rows))), nil})
			}
			for r := range c.Als[k].Rows {
				row := make([]int, L)
				for j := range row {
					row[j] = int("ACGT"[rng.Intn(4)])
				}
				c.Als[k].Rows[r].S = row
			}
		}
	}
	return c
}

func fmtFamily(env *Env) error {
	dir := filepath.Dir(env.Out)
	defer func() {
		if goalignBin != "" {
			fmt.Fprintf(os.Stderr, "driver: %d hops written by goalign reformat\n", fmtCliCount)
		}
	}()
	n := 0
	err := env.Cases(func(line []byte) error {
		var c fmtCase
		if err := json.Unmarshal(line, &c); err != nil {
			return fmt.Errorf("bad fmt case: %v", err)
		}
		runFmtCase(env, fmt.Sprintf("g%d", n), c, dir)
		n++
		return nil
	})
	if err != nil {
		return err
	}
	rng := rand.New(rand.NewSource(env.Seed))
	for i := 0; i < env.N; i++ {
		runFmtCase(env, fmt.Sprintf("r%d_%d", env.Seed, i), randFmtCase(rng, env.Tier), dir)
	}
	return nil
}

// =====================================================================================================
// parse family (C03)
// =====================================================================================================

type parseCase struct {
	Fmt    string  `json:"fmt"` // fasta | fastaseq | phylip | phylipmulti | nexus | clustal | stockholm | partition
	Strict bool    `json:"strict"`
	Pol    int     `json:"pol"`
	Alpha  int     `json:"alpha"`
	Plen   int     `json:"plen"`
	Bytes  []int   `json:"bytes"`
	Decl   [][]int `json:"decl"` // when the generator knows it: the (sequences, length) of every alignment of the stream
}
type parseOut struct {
	Rows []Row  `json:"rows"`
	Al   int    `json:"al"`
	Len  int    `json:"len"`
	Nb   int    `json:"nb"`
	Kind string `json:"k"` // align | bag
}
type parseEvent struct {
	ID   string     `json:"id"`
	C    parseCase  `json:"c"`
	Kind string     `json:"kind"` // ok | err | eos | panic | hang | exit | intent
	Msg  string     `json:"msg"`
	Outs []parseOut `json:"outs"`
	Part []int      `json:"part"`
	Err  bool       `json:"finalerr"` // multi: the stream ended with an error after the listed alignments
	// multi, through the channel interface: number of alignments delivered, and whether an error was left in the channel
	Chn   *int `json:"chn,omitempty"`
	ChErr bool `json:"cherr"`
}

type eofCounter struct {
	r     io.Reader
	after int
	limit int
}
type eofLoop struct{}

func (e *eofCounter) Read(p []byte) (int, error) {
	n, err := e.r.Read(p)
	if err == io.EOF || (n == 0 && err == nil) {
		e.after++
		if e.after > e.limit {
			panic(eofLoop{})
		}
	}
	return n, err
}

func viewBag(sb align.SeqBag, kind string) parseOut {
	v := parseOut{Rows: []Row{}, Al: sb.Alphabet(), Len: -2, Nb: sb.NbSequences(), Kind: kind}
	if a, ok := sb.(align.Alignment); ok && kind == "align" {
		v.Len = a.Length()
	}
	sb.IterateChar(func(name string, s []uint8) bool {
		v.Rows = append(v.Rows, Row{s2i(name), b2i(s)})
		return false
	})
	return v
}

func doParse(c parseCase) (ev parseEvent) {
	ev = parseEvent{C: c, Outs: []parseOut{}, Part: []int{}}
	if ev.C.Decl == nil {
		ev.C.Decl = [][]int{}
	}
	defer func() {
		if r := recover(); r != nil {
			if _, ok := r.(eofLoop); ok {
				ev.Kind, ev.Msg = "hang", "the parser kept reading after the end of the input"
				return
			}
			if hp, ok := r.(harnessPanic); ok {
				panic(string(hp))
			}
			ev.Kind, ev.Msg = "panic", fmt.Sprint(r)
		}
	}()
	rd := &eofCounter{r: bytes.NewReader(i2b(c.Bytes)), limit: 2000}
	var a align.Alignment
	var err error
	switch c.Fmt {
	case "fasta":
		a, err = fasta.NewParser(rd).IgnoreIdentical(c.Pol).Alphabet(c.Alpha).Parse()
	case "fastaseq":
		var sb align.SeqBag
		sb, err = fasta.NewParser(rd).IgnoreIdentical(c.Pol).Alphabet(c.Alpha).ParseUnalign()
		if err == nil {
			ev.Kind = "ok"
			ev.Outs = append(ev.Outs, viewBag(sb, "bag"))
			return
		}
	case "phylip":
		a, err = phylip.NewParser(rd, c.Strict).IgnoreIdentical(c.Pol).Alphabet(c.Alpha).Parse()
		if a == nil && err == nil {
			ev.Kind = "eos"
			return
		}
	case "phylipmulti":
		p := phylip.NewParser(rd, c.Strict).IgnoreIdentical(c.Pol).Alphabet(c.Alpha)
		for k := 0; k < 1000; k++ {
			a, err = p.Parse()
			if err != nil {
				ev.Err = true
				break
			}
			if a == nil {
				break
			}
			ev.Outs = append(ev.Outs, viewBag(a, "align"))
		}
		ev.Kind = "ok"
		if err != nil {
			ev.Msg = err.Error()
		}
		// the same bytes through the channel interface the commands use (ParseMultiple): as many alignments, and the same
		// final verdict (an error after the listed alignments, or a clean end of stream)
		ach := &align.AlignChannel{Achan: make(chan align.Alignment, 15)}
		p2 := phylip.NewParser(bytes.NewReader(i2b(c.Bytes)), c.Strict).IgnoreIdentical(c.Pol).Alphabet(c.Alpha)
		go p2.ParseMultiple(ach)
		n := 0
		for range ach.Achan {
			n++
		}
		ev.Chn, ev.ChErr = &n, ach.Err != nil
		return
	case "nexus":
		a, err = nexus.NewParser(rd).IgnoreIdentical(c.Pol).Alphabet(c.Alpha).Parse()
	case "clustal":
		a, err = clustal.NewParser(rd).IgnoreIdentical(c.Pol).Alphabet(c.Alpha).Parse()
	case "stockholm":
		a, err = stockholm.NewParser(rd).IgnoreIdentical(c.Pol).Alphabet(c.Alpha).Parse()
	case "partition":
		var ps *align.PartitionSet
		ps, err = partition.NewParser(rd).Parse(c.Plen)
		if err == nil {
			ev.Kind = "ok"
			if ps.AliLength() != c.Plen {
				ev.Part = append(ev.Part, -99)
			}
			for i := 0; i < ps.AliLength(); i++ {
				ev.Part = append(ev.Part, ps.Partition(i))
			}
			return
		}
	default:
		panic(harnessPanic("harness: unknown parser " + c.Fmt))
	}
	if err != nil {
		ev.Kind, ev.Msg = "err", err.Error()
		return
	}
	if a == nil {
		ev.Kind, ev.Msg = "panic", "nil alignment without error"
		return
	}
	ev.Kind = "ok"
	ev.Outs = append(ev.Outs, viewBag(a, "align"))
	return
}

func runParseCase(env *Env, id string, c parseCase) {
	// an intent line first: if the process dies inside the parser (io.ExitWithMessage) the orchestrator attributes it
	if c.Decl == nil {
		c.Decl = [][]int{}
	}
	env.Emit(parseEvent{ID: id, C: c, Kind: "intent", Outs: []parseOut{}, Part: []int{}})
	env.Flush()
	done := make(chan parseEvent, 1)
	go func() { done <- doParse(c) }()
	select {
	case ev := <-done:
		ev.ID = id
		env.Emit(ev)
	case <-time.After(20 * time.Second):
		env.Emit(parseEvent{ID: id, C: c, Kind: "hang", Msg: "no answer after 20 s (loop that does not read)", Outs: []parseOut{}, Part: []int{}})
		env.Flush()
		os.Exit(4) // the goroutine cannot be stopped: the orchestrator restarts after this case
	}
}

// ---- mutational corpus ---------------------------------------------------------------------------

func validFiles(rng *rand.Rand) map[string][]string {
	mk := func(n, L int, alpha string) align.Alignment {
		f := fmtAl{}
		for i := 0; i < n; i++ {
			s := make([]int, L)
			for j := range s {
				s[j] = int(alpha[rng.Intn(len(alpha))])
			}
			f.Rows = append(f.Rows, Row{s2i(fmt.Sprintf("sq%d", i+1)), s})
		}
		return buildAl(f)
	}
	out := map[string][]string{}
	for _, sh := range [][2]int{{2, 4}, {3, 12}, {2, 61}, {3, 7}} {
		a := mk(sh[0], sh[1], "ACGT-N")
		p := mk(sh[0], sh[1], "ARNDQEILX-")
		out["fasta"] = append(out["fasta"], fasta.WriteAlignment(a))
		out["phylip"] = append(out["phylip"], phylip.WriteAlignment(a, false, false, false), phylip.WriteAlignment(p, false, true, false))
		out["phylipstrict"] = append(out["phylipstrict"], phylip.WriteAlignment(a, true, false, false))
		out["nexus"] = append(out["nexus"], nexus.WriteAlignment(a), nexus.WriteAlignment(p))
		out["clustal"] = append(out["clustal"], clustal.WriteAlignment(a))
		out["stockholm"] = append(out["stockholm"], stockholm.WriteAlignment(a))
	}
	a := mk(2, 5, "ACGT")
	out["phylipmulti"] = []string{phylip.WriteAlignment(a, false, false, false) + phylip.WriteAlignment(mk(3, 4, "ACGT"), false, false, false) + phylip.WriteAlignment(a, false, false, false)}
	out["nexus"] = append(out["nexus"],
		"#NEXUS\n[a comment]\nBEGIN TAXA;\n DIMENSIONS NTAX=2;\n TAXLABELS a b;\nEND;\nBEGIN DATA;\n DIMENSIONS NTAX=2 NCHAR=4;\n FORMAT DATATYPE=DNA MISSING=? GAP=- MATCHCHAR=.;\n MATRIX\n a ACGT\n b A.-?\n ;\nEND;\nBEGIN TREES;\n TREE t = (a,b);\nEND;\n",
		"#NEXUS\nBEGIN DATA;\nDIMENSIONS NTAX=2 NCHAR=6;\nFORMAT DATATYPE=PROTEIN INTERLEAVE;\nMATRIX\na ARN\nb QEI\n\na DQE\nb LXA\n;\nEND;\n")
	out["stockholm"] = append(out["stockholm"], "# STOCKHOLM 1.0\n#=GF ID x\n#=GS a AC 1\na ACGT\n#=GR a SS ....\nb AC-T\n#=GC SS_cons ....\n//\n")
	out["clustal"] = append(out["clustal"], "CLUSTAL W (1.82) multiple sequence alignment\n\n\na      ACGT 4\nb      AC-T 4\n       ** *\n\na      GG 6\nb      GA 6\n       * \n")
	out["fasta"] = append(out["fasta"], ">  spaced name\nACGT\n> b\nAC-T\n")
	// a name field holding a multi-byte character (strict Phylip reads ten characters), a declared count no slice can
	// hold, Nexus rows made of a name only (no NCHAR declared)
	out["phylipstrict"] = append(out["phylipstrict"], "2 4\n\xc3\xa9aaaaaaaaaACGT\nbbbbbbbbbbAC-T\n")
	out["phylip"] = append(out["phylip"], "99999999999999 4\na  ACGT\nb  AC-T\n")
	out["nexus"] = append(out["nexus"], "#NEXUS\nBEGIN DATA;\nMATRIX\na\nb\n;\nEND;\n")
	// one name twice with different residues (renamed, or dropped, by the duplicate-name policy; never kept twice)
	out["fasta"] = append(out["fasta"], ">a\nACGT\n>a\nAC-T\n>b\nGGGG\n>a\nTTTT\n")
	out["phylip"] = append(out["phylip"], "4 4\na  ACGT\na  AC-T\nb  GGGG\na  TTTT\n")
	out["phylipstrict"] = append(out["phylipstrict"], "3 4\naaaaaaaaaaACGT\naaaaaaaaaaAC-T\nbbbbbbbbbbGGGG\n")
	// a TAXA block that agrees with the matrix next to a DATA block declaring another NTAX / NCHAR
	out["nexus"] = append(out["nexus"],
		"#NEXUS\nBEGIN TAXA;\n DIMENSIONS NTAX=2;\n TAXLABELS a b;\nEND;\nBEGIN DATA;\n DIMENSIONS NTAX=3 NCHAR=4;\n FORMAT DATATYPE=DNA;\n MATRIX\n a ACGT\n b AC-T\n ;\nEND;\n",
		"#NEXUS\nBEGIN TAXA;\n DIMENSIONS NTAX=3;\n TAXLABELS a b c;\nEND;\nBEGIN DATA;\n DIMENSIONS NTAX=2 NCHAR=4;\n FORMAT DATATYPE=DNA;\n MATRIX\n a ACGT\n b AC-T\n c AC-T\n ;\nEND;\n")
	// an empty command before DIMENSIONS (the declared NTAX still binds)
	out["nexus"] = append(out["nexus"], "#NEXUS\nBEGIN DATA;\n;\n DIMENSIONS NTAX=3 NCHAR=4;\n FORMAT DATATYPE=DNA;\n MATRIX\n a ACGT\n b AC-T\n ;\nEND;\n")
	// FORMAT symbols longer than one byte (a real character, a damaged byte): the rows are measured against NCHAR as bytes
	out["nexus"] = append(out["nexus"],
		"#NEXUS\nBEGIN DATA;\nDIMENSIONS NTAX=2 NCHAR=6;\nFORMAT DATATYPE=DNA GAP=\xc3\xa9 MISSING=?;\nMATRIX\na ACG\xc3\xa9T\nb AC\xc3\xa9GT\n;\nEND;\n",
		"#NEXUS\nBEGIN DATA;\nDIMENSIONS NTAX=2 NCHAR=6;\nFORMAT DATATYPE=DNA GAP=- MISSING=\xc3\xa9;\nMATRIX\na ACG\xc3\xa9T\nb AC\xc3\xa9GT\n;\nEND;\n",
		"#NEXUS\nBEGIN DATA;\nDIMENSIONS NTAX=2 NCHAR=5;\nFORMAT DATATYPE=DNA GAP=\xe9;\nMATRIX\na ACG\xe9T\nb AC\xe9GT\n;\nEND;\n")
	out["partition"] = []string{"DNA, p1 = 1-4\nDNA, p2 = 5-12\n", "M1, c1 = 1-12/3\nM1, c2 = 2-12/3\nM2, c3 = 3-12/3\n", "WAG, g1 = 1-3, 7-9\nLG, g2 = 4-6,10-12\n", "DNA,p=1-6/2,7-12\nDNA,q=2-6/2\n",
		"DNA, p1 = 1-12/9223372036854775807\nDNA, p2 = 2-12\n", "DNA, p1 = 2-12/4611686018427387904, 1-1\nDNA, p2 = 3-12\n"}
	return out
}

var mutBytes = []byte{' ', '\n', '\t', ';', '[', ']', '=', '#', '>', '/', '-', '0', '9', 'A', 'z', '\r', ',', '.', 0xe9}

func mutations(rng *rand.Rand, text string, full bool) []string {
	b := []byte(text)
	out := []string{}
	seen := map[string]bool{}
	add := func(x []byte) {
		if !seen[string(x)] {
			seen[string(x)] = true
			out = append(out, string(x))
		}
	}
	for i := 0; i <= len(b); i++ { // all truncations
		add(b[:i])
	}
	lines := bytes.SplitAfter(b, []byte("\n"))
	for i := range lines { // line deletions and duplications
		var d, u []byte
		for j, l := range lines {
			if j != i {
				d = append(d, l...)
			}
			u = append(u, l...)
			if j == i {
				u = append(u, l...)
			}
		}
		add(d)
		add(u)
	}
	nsub := 300
	if full {
		nsub = len(b) * len(mutBytes)
	}
	for k := 0; k < nsub; k++ { // single-byte substitutions / insertions / deletions
		var i int
		var c byte
		if full {
			i, c = k/len(mutBytes), mutBytes[k%len(mutBytes)]
		} else {
			i, c = rng.Intn(len(b)), mutBytes[rng.Intn(len(mutBytes))]
		}
		if c == '9' && i > 0 && b[i-1] >= '0' && b[i-1] <= '9' && i+1 < len(b) && b[i+1] >= '0' && b[i+1] <= '9' {
			continue // do not build very large declared counts: an allocation is not a hang
		}
		if full && c == '\r' && i%6 != 0 {
			continue // a lone CR makes two lexers exit the process (an explicit error): sampled, each costs a driver restart
		}
		x := append([]byte{}, b...)
		x[i] = c
		add(x)
		if !full || k%len(mutBytes) == 0 {
			y := append(append(append([]byte{}, b[:i]...), c), b[i:]...)
			if !(c >= '0' && c <= '9') {
				add(y)
			}
			add(append(append([]byte{}, b[:i]...), b[i+1:]...))
		}
	}
	for k := 0; k < 40; k++ { // token splices: a chunk copied elsewhere
		i, j := rng.Intn(len(b)), rng.Intn(len(b))
		l := 1 + rng.Intn(12)
		if i+l > len(b) {
			l = len(b) - i
		}
		chunk := b[i : i+l]
		if bytes.ContainsAny(chunk, "0123456789") {
			continue
		}
		add(append(append(append([]byte{}, b[:j]...), chunk...), b[j:]...))
	}
	return out
}

func parseFamily(env *Env) error {
	start := 0
	if env.Extra != "" {
		fmt.Sscanf(env.Extra, "start=%d", &start)
	}
	k := 0
	run := func(id string, c parseCase) {
		if k >= start {
			runParseCase(env, fmt.Sprintf("%s#%d", id, k), c)
		}
		k++
	}
	err := env.Cases(func(line []byte) error {
		var c parseCase
		if err := json.Unmarshal(line, &c); err != nil {
			return fmt.Errorf("bad parse case: %v", err)
		}
		run("g", c)
		return nil
	})
	if err != nil {
		return err
	}
	if env.N <= 0 {
		return nil
	}
	rng := rand.New(rand.NewSource(env.Seed))
	files := validFiles(rng)
	full := env.Tier == "thorough"
	// unmodified Phylip streams whose layout is known: decreasing / increasing counts with one common length, mixed lengths
	for _, lay := range [][][]int{{{3, 4}, {2, 4}}, {{2, 4}, {3, 4}, {1, 4}}, {{4, 6}, {2, 6}, {2, 3}, {1, 6}}, {{2, 5}}} {
		var sb strings.Builder
		for _, d := range lay {
			f := fmtAl{}
			for r := 0; r < d[0]; r++ {
				s := make([]int, d[1])
				for j := range s {
					s[j] = int("ACGT"[rng.Intn(4)])
				}
				f.Rows = append(f.Rows, Row{s2i(fmt.Sprintf("sq%d", r+1)), s})
			}
			sb.WriteString(phylip.WriteAlignment(buildAl(f), false, false, false))
		}
		for _, strict := range []bool{false} {
			run("stream", parseCase{Fmt: "phylipmulti", Strict: strict, Alpha: align.BOTH, Plen: 12, Bytes: s2i(sb.String()), Decl: lay})
		}
	}
	order := []string{"fasta", "phylip", "phylipstrict", "phylipmulti", "nexus", "clustal", "stockholm", "partition"}
	for _, f := range order {
		for _, text := range files[f] {
			muts := mutations(rng, text, full)
			if !full && len(muts) > env.N {
				rng.Shuffle(len(muts), func(i, j int) { muts[i], muts[j] = muts[j], muts[i] })
				muts = muts[:env.N]
			}
			muts = append(muts, text, text, text) // the file as it is, whatever was sampled: once per duplicate-name policy
			for mi, m := range muts {
				c := parseCase{Bytes: s2i(m), Pol: rng.Intn(3), Alpha: []int{align.BOTH, align.BOTH, align.NUCLEOTIDS, align.AMINOACIDS}[rng.Intn(4)], Plen: 12}
				switch f {
				case "phylipstrict":
					c.Fmt, c.Strict = "phylip", true
				case "fasta":
					c.Fmt = []string{"fasta", "fasta", "fastaseq"}[rng.Intn(3)]
				case "phylip":
					c.Fmt, c.Strict = "phylip", rng.Intn(4) == 0
				default:
					c.Fmt = f
				}
				if mi >= len(muts)-3 {
					c.Pol = len(muts) - 1 - mi
				}
				run(f, c)
			}
		}
	}
	// every byte above 0x7F, alone and as the UTF-8 character of that code point, in place of the last letter of the
	// first file of every format (a residue, or the end of a name): tables indexed by a character or its upper-case
	// form, and readers that decode runes, meet every one of them
	for _, f := range order {
		if f == "partition" || len(files[f]) == 0 {
			continue
		}
		b := []byte(files[f][0])
		at := -1
		for i, ch := range b {
			if (ch >= 'A' && ch <= 'Z') || (ch >= 'a' && ch <= 'z') {
				at = i
			}
		}
		if at < 0 {
			continue
		}
		for cp := 0x80; cp <= 0xFF; cp++ {
			for vi, repl := range [][]byte{{byte(cp)}, []byte(string(rune(cp)))} {
				// (the two-byte character takes the place of two bytes: the rows keep their common length in bytes)
				from := at
				if vi == 1 && at > 0 && b[at-1] != '\n' && b[at-1] != ' ' {
					from = at - 1
				}
				m := append(append(append([]byte{}, b[:from]...), repl...), b[at+1:]...)
				c := parseCase{Bytes: s2i(string(m)), Pol: cp % 3, Alpha: []int{align.BOTH, align.NUCLEOTIDS, align.AMINOACIDS}[cp%3], Plen: 12, Fmt: f}
				if f == "phylipstrict" {
					c.Fmt, c.Strict = "phylip", true
				}
				run(f+"-hi", c)
			}
		}
	}
	return nil
}

func init() {
	families["fmt"] = fmtFamily
	families["parse"] = parseFamily
}
