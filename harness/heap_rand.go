package main

// Seeded, structure-aware, boundary-biased generator of heap scripts.  It looks at the live
// objects only to pick arguments around their boundaries (-1, 0, L-1, L, L+1, existing and
// unknown names); what the operations then do is judged by the TLA+ trace specification.

import (
	"strings"
	"math/rand"

	"github.com/evolbioinfo/goalign/align"
)

type heapGen struct {
	rng   *rand.Rand
	mode  string
	tier  string
	steps int
	last  *Step
	reps  int
	codon bool
	pair1 *Step
	pair2 *Step
	long  bool // the first object has genome-scale rows (size-dependent code paths: blocks, buffers, thresholds)
}

func newHeapGen(rng *rand.Rand, mode, tier string) *heapGen {
	g := &heapGen{rng: rng, mode: mode, tier: tier}
	g.steps = 6 + rng.Intn(10)
	if tier == "thorough" {
		g.steps = 8 + rng.Intn(16)
	}
	return g
}

var ntResidues = []byte("ACGTacgtRYSWKMBDHVNn-.*")
var ntPlain = []byte("ACGT")
var ntGappy = []byte("ACGT--NN")
var aaResidues = []byte("ARNDCQEGHILKMFPSTWYVXx-*")
var cleanNt = []byte("AaCN-nXx")
var cleanAa = []byte("AaQX-xNn")
var nameChars = []byte("abcxyzABC019_")
var weirdNameChars = []byte(" \t.:;,()[]|-")

func (g *heapGen) pick(b []byte) byte { return b[g.rng.Intn(len(b))] }

func (g *heapGen) seq(alpha []byte, n int) []int {
	s := make([]int, n)
	for i := range s {
		s[i] = int(g.pick(alpha))
	}
	return s
}

func (g *heapGen) newName() []int {
	n := 1 + g.rng.Intn(4)
	s := make([]int, n)
	for i := range s {
		if (g.mode == "C01" || g.mode == "C19") && g.rng.Intn(6) == 0 {
			s[i] = int(g.pick(weirdNameChars))
		} else {
			s[i] = int(g.pick(nameChars))
		}
	}
	return s
}

func (g *heapGen) alphaFor(al int) []byte {
	switch g.mode {
	case "C12", "C13":
		// one time in three an alphabet that automatic detection recognises (no X among nucleotides, a protein-only
		// letter among amino acids): such alignments can be given to the command line without naming their alphabet
		det := g.rng.Intn(3) == 0
		if al == 0 {
			if det {
				return []byte("AaQX-xNnE")
			}
			return cleanAa
		}
		if det {
			return []byte("AaCN-nGT")
		}
		return cleanNt
	case "C06":
		return ntResidues
	case "C19":
		if al == 0 && g.rng.Intn(3) == 0 {
			// a protein alignment written with letters that are nucleotide codes too: automatic detection would call it
			// nucleotidic, the declared alphabet says otherwise - a computation that re-detects it changes its input
			return []byte("ACGTNacgt-")
		}
	case "C14", "C15":
		// one time in three a tiny alphabet with characters that are not letters, so that a column repeats what
		// its neighbours hold (counts carried over from one site to the next then change an answer)
		small := g.rng.Intn(3) == 0
		if al == 0 {
			if small {
				return []byte("AQ*?")
			}
			return []byte("AQXx-*ae")
		}
		if small {
			return []byte("AC?*-")
		}
		return []byte("ACGNn-.aR")
	case "C10":
		if al == 0 {
			return []byte("ARNDQ-*")
		}
		return []byte("ACGT-.N")
	}
	if al == 0 {
		return aaResidues
	}
	if g.rng.Intn(2) == 0 {
		return ntGappy
	}
	return ntResidues
}

func (g *heapGen) lenChoice() int {
	c := []int{0, 1, 2, 3, 3, 4, 5, 6, 7, 9, 12}
	if g.tier == "thorough" {
		c = append(c, 15, 20, 30)
	}
	return c[g.rng.Intn(len(c))]
}

// codonPair returns the two New steps of a CodonAlign workload: a bag of gap-free nucleotide sequences and a protein
// alignment whose rows are their translations (computed by goalign itself; the trace specification re-checks that
// precondition with its own genetic code) with gaps inserted at random places.
func (g *heapGen) codonPair() (*Step, *Step) {
	n := 1 + g.rng.Intn(4)
	code := 0
	ntrows := []interface{}{}
	aas := [][]int{}
	maxaa := 0
	for i := 0; i < n; i++ {
		l := 3*(1+g.rng.Intn(5)) + g.rng.Intn(3)
		if g.rng.Intn(6) == 0 {
			l += 3 // sometimes too long / mismatching: error path
		}
		s := g.seq([]byte("ACGTacgtuRYN"), l)
		nm := []int{int('s'), int('0') + i}
		ntrows = append(ntrows, map[string]interface{}{"n": toIface(nm), "s": toIface(s)})
		sq := align.NewSequence("x", i2b(s), "")
		tr, err := sq.Translate(0, code)
		if err != nil {
			panic(harnessPanic("harness: cannot translate generated sequence"))
		}
		aa := b2i(tr.SequenceChar())
		if g.rng.Intn(8) == 0 && len(aa) > 1 {
			aa = aa[:len(aa)-1] // protein shorter than the nucleotides allow: error path
		}
		aas = append(aas, aa)
		if len(aa) > maxaa {
			maxaa = len(aa)
		}
	}
	L := maxaa + g.rng.Intn(3)
	aarows := []interface{}{}
	for i, aa := range aas {
		row := make([]int, 0, L)
		gaps := L - len(aa)
		k := 0
		for len(row) < L {
			if gaps > 0 && (k == len(aa) || g.rng.Intn(L) < gaps) {
				row = append(row, '-')
				gaps--
			} else {
				row = append(row, aa[k])
				k++
			}
		}
		aarows = append(aarows, map[string]interface{}{"n": toIface([]int{int('s'), int('0') + i}), "s": toIface(row)})
	}
	s1 := &Step{Op: "New", Recv: 0, A: map[string]interface{}{"k": "bag", "al": float64(1), "pol": float64(0), "rows": ntrows}}
	s2 := &Step{Op: "New", Recv: 0, A: map[string]interface{}{"k": "align", "al": float64(0), "pol": float64(0), "rows": aarows}}
	return s1, s2
}

func (g *heapGen) newObject(forceAlign bool) *Step {
	al := 1
	if g.rng.Intn(4) == 0 {
		al = 0
	}
	if g.mode == "C06" || g.mode == "C05" {
		al = 1
	}
	if g.mode == "C13" && g.rng.Intn(6) == 0 {
		al = 3 // an alphabet that is neither nucleotide nor protein
	}
	kind := "align"
	if !forceAlign && (g.mode == "C01" || g.mode == "C06" || g.mode == "C13") && g.rng.Intn(4) == 0 {
		kind = "bag"
	}
	nrows := []int{0, 1, 2, 2, 3, 3, 4, 5, 6}[g.rng.Intn(9)]
	if g.mode != "C01" && nrows == 0 {
		nrows = 2
	}
	L := g.lenChoice()
	if g.mode != "C01" && g.mode != "C04" && L == 0 {
		L = 3
	}
	if g.long && forceAlign {
		nrows, kind = 2, "align"
		L = []int{16389, 20000, 24577, 16384, 70001}[g.rng.Intn(5)]
	}
	alpha := g.alphaFor(al)
	if al == 0 && g.mode != "C19" && g.rng.Intn(5) == 0 {
		// one protein object in five is written with letters that are nucleotide codes too: whoever re-detects the
		// alphabet instead of using the declared one (a command given --alphabet aa, a reader told the type of its data)
		// then treats it as nucleotides - N for X, nucleotide tables, nucleotide wildcards
		alpha = []byte("ACGTNDKSacgn-")
	}
	if g.mode == "C05" {
		alpha = []byte("ACGTacgtuURYN-")
	}
	rows := []interface{}{}
	used := map[string]bool{}
	for i := 0; i < nrows; i++ {
		nm := g.newName()
		if i > 0 && (g.mode == "C01" || g.mode == "C19") && g.rng.Intn(5) == 0 {
			// an earlier name of the same object with an affix (a, a_1; sp, xsp): renamings that add the affix meet it
			prev := toIntsAny(rows[g.rng.Intn(i)].(map[string]interface{})["n"])
			aff := [][]int{{'_', '1'}, {'x'}, {'.', '2'}}[g.rng.Intn(3)]
			if g.rng.Intn(2) == 0 {
				nm = append(append([]int{}, prev...), aff...)
			} else {
				nm = append(append([]int{}, aff...), prev...)
			}
		}
		for used[string(i2b(nm))] {
			nm = append(nm, int('a')+i)
		}
		used[string(i2b(nm))] = true
		l := L
		if kind == "bag" {
			l = g.lenChoice()
		}
		var s []int
		if (g.mode == "C13" || g.mode == "C01") && i > 0 && g.rng.Intn(3) == 0 && (kind == "align" || g.mode == "C13") {
			s = append([]int{}, toIntsAny(rows[g.rng.Intn(i)].(map[string]interface{})["s"])...) // duplicate row
			if g.mode == "C13" && g.rng.Intn(2) == 0 {
				// ... up to the wildcard: N / X where the other row has a gap and the other way round
				wild := 'N'
				if al == 0 {
					wild = 'X'
				}
				for j, ch := range s {
					if (ch == '-' || ch == int(wild)) && g.rng.Intn(2) == 0 {
						s[j] = '-' + int(wild) - ch
					}
				}
			}
		} else {
			s = g.seq(alpha, l)
		}
		rows = append(rows, map[string]interface{}{"n": toIface(nm), "s": toIface(s)})
	}
	if g.mode == "C13" && kind == "align" && L > 1 && nrows > 0 {
		// duplicate some columns so that compression has something to do
		for c := 1; c < L; c++ {
			if g.rng.Intn(2) == 0 {
				src := g.rng.Intn(c)
				for _, r := range rows {
					s := r.(map[string]interface{})["s"].([]interface{})
					s[c] = s[src]
				}
			}
		}
	}
	pol := 0
	if g.mode == "C01" {
		pol = g.rng.Intn(3)
	}
	return &Step{Op: "New", Recv: 0, A: map[string]interface{}{"k": kind, "al": float64(al), "pol": float64(pol), "rows": rows}}
}

func toIface(l []int) []interface{} {
	r := make([]interface{}, len(l))
	for i, x := range l {
		r[i] = float64(x)
	}
	return r
}
func toIntsAny(v interface{}) []int { return toInts(v) }

func (g *heapGen) existingName(o *obj) []int {
	n := o.sb.NbSequences()
	if n == 0 || g.rng.Intn(6) == 0 {
		return s2i("zz")
	}
	nm, _ := o.sb.GetSequenceNameById(g.rng.Intn(n))
	return s2i(nm)
}

func (g *heapGen) boundary(L int) int {
	c := []int{-1, 0, 0, 1, L - 1, L - 1, L, L + 1}
	if L > 2 {
		c = append(c, g.rng.Intn(L), g.rng.Intn(L), L/2)
	}
	return c[g.rng.Intn(len(c))]
}

func (g *heapGen) sites(L int) []interface{} {
	n := g.rng.Intn(5)
	r := make([]interface{}, n)
	for i := range r {
		if g.rng.Intn(8) == 0 {
			r[i] = float64(g.boundary(L))
		} else if L > 0 {
			r[i] = float64(g.rng.Intn(L))
		} else {
			r[i] = float64(0)
		}
	}
	return r
}

func (g *heapGen) cutoff() (int, int) {
	c := [][2]int{{0, 1}, {1, 1}, {1, 2}, {1, 4}, {3, 4}, {1, 3}, {2, 3}, {1, 8}, {-1, 2}, {3, 2}, {5, 8}}
	x := c[g.rng.Intn(len(c))]
	return x[0], x[1]
}

func f64(i int) float64 { return float64(i) }

var opsByMode = map[string][]string{
	"C01": {"Add", "Add", "Add", "Append", "Concat", "Rename", "Rename", "RenameRegexp", "CleanNames", "TrimNames", "TrimNamesAuto",
		"AppendSeqIdentifier", "Sort", "Sort", "ShuffleSequences", "FilterLength", "Deduplicate", "Translate", "Clone", "CloneSeqBag",
		"Sample", "Clear", "SetSequenceChar", "ReplaceChar", "Replace", "AutoAlphabet", "RemoveGapSeqs", "RemoveGapSites", "Unalign",
		"IgnoreIdentical", "SubAlign", "Identical", "Describe", "Describe", "TrimSequences", "Compress", "SetAlphabet", "RemoveMajorityCharacterSites", "RemoveCharacterSites",
		"RemoveCharacterSeqs"},
	"C04": {"SubAlign", "SubAlign", "Extract", "Extract", "SelectSites", "SelectSites", "InverseCoordinates", "InversePositions", "TrimSequences",
		"RefCoordinates", "RefCoordinates", "RefSites", "Concat", "Append", "Split", "Split", "Transpose", "DiffWithFirst", "ReplaceMatchChars", "Rename"},
	"C06": {"ReverseComplement", "ReverseComplement", "ReverseComplementSequences", "ReverseComplementSequences", "ToUpper", "ToLower", "Unalign", "Clone"},
	"C12": {"RemoveGapSites", "RemoveCharacterSites", "RemoveCharacterSites", "RemoveMajorityCharacterSites", "RemoveGapSeqs", "RemoveCharacterSeqs", "Clone"},
	"C13": {"Deduplicate", "Deduplicate", "Compress", "Compress", "Clone", "Add", "CloneSeqBag"},
	"C15": {"Mask", "Mask", "Mask", "MaskPositions", "MaskPositions", "MaskOccurences", "MaskOccurences", "MaskUnique", "Clone"},
	"C14": {"MaxCharStats", "MaxCharStats", "Consensus", "Consensus", "CharStats", "CharStatsSite", "CharStatsSeq", "UniqueCharacters", "Entropy", "Entropy", "EntropyAll",
		"NbVariableSites", "InformativeSites", "AvgAllelesPerSite", "Pssm", "CountDifferences", "NumGapsUnique", "NumMutationsUnique",
		"NumMutRef", "ListMutRef", "CountProfile", "ProfileOnly", "ProfileOnly", "SetSequenceChar", "SiteConservation", "SiteConservation", "AlphabetInfo"},
	"C10": {"ShuffleSequences", "ShuffleSites", "Swap", "SimulateRogue", "BuildBootstrap", "Sample", "RandSubAlign", "RandSubAlign", "Mutate",
		"AddGaps", "Recombine", "Rarefy"},
	"C19": {"Clone", "CloneSeqBag", "SubAlign", "SelectSites", "Transpose", "BuildBootstrap", "Consensus", "RandSubAlign", "Unalign", "Sample",
		"Query", "Query", "Query", "SetSequenceChar", "SetSequenceChar", "ReplaceChar", "ReverseComplement", "Mask", "ToLower", "MaxCharStats",
		"CharStats", "Entropy", "Pssm", "CountDifferences", "Split", "Append", "DiffWithFirst", "Replace", "TrimSequences", "LongestORFObj"},
	"C05": {"Translate", "Translate", "TranslateByReference", "TranslateByReference", "TranslateByReference", "CodonAlign", "CodonAlign", "Clone", "CloneSeqBag", "Unalign"},
}

func (g *heapGen) next(h *heapRun, i int) *Step {
	if g.mode == "C05" && i == 0 {
		g.codon = g.rng.Intn(3) == 0
		if g.codon {
			g.pair1, g.pair2 = g.codonPair()
		}
	}
	if g.mode == "C05" && g.codon && i < 2 {
		if i == 0 {
			return g.pair1
		}
		return g.pair2
	}
	if i == 0 {
		return g.newObject(true)
	}
	if i == 1 {
		return g.newObject(false)
	}
	if i >= g.steps+2 {
		return nil
	}
	// repeat a query to observe determinism
	if g.last != nil && g.reps > 0 {
		g.reps--
		return g.last
	}
	ops := opsByMode[g.mode]
	if ops == nil {
		panic(harnessPanic("harness: no random profile " + g.mode))
	}
	for try := 0; try < 50; try++ {
		op := ops[g.rng.Intn(len(ops))]
		recv := 1 + g.rng.Intn(len(h.objs))
		if len(h.objs) > 6 {
			recv = 1 + g.rng.Intn(6)
		}
		if g.long && g.rng.Intn(4) != 0 {
			recv = 1
		}
		o := h.objs[recv-1]
		st := g.args(h, op, recv, o)
		if st != nil {
			if g.mode == "C14" || (g.mode == "C19" && (op == "MaxCharStats" || op == "Consensus")) {
				if _, isq := map[string]bool{"MaxCharStats": true, "Consensus": true, "CharStats": true, "Entropy": true, "InformativeSites": true,
					"CountDifferences": true, "Pssm": true, "NumMutationsUnique": true}[op]; isq {
					st.A["mk"] = true
					g.last = st
					g.reps = 2 + g.rng.Intn(3)
				}
			}
			return st
		}
	}
	return nil
}

func (g *heapGen) otherAlign(h *heapRun, recv int) int {
	c := []int{}
	for i, o := range h.objs {
		if o.al != nil && i+1 != recv {
			c = append(c, i+1)
		}
	}
	if len(c) == 0 {
		return 0
	}
	return c[g.rng.Intn(len(c))]
}

func (g *heapGen) args(h *heapRun, op string, recv int, o *obj) *Step {
	a := map[string]interface{}{}
	st := &Step{Op: op, Recv: recv, A: a}
	isAl := o.al != nil
	L := -1
	if isAl {
		L = o.al.Length()
	}
	n := o.sb.NbSequences()
	alph := o.sb.Alphabet()
	needAl := func() bool { return isAl }
	switch op {
	case "Add":
		if g.rng.Intn(3) == 0 {
			a["name"] = toIface(g.existingName(o))
		} else {
			a["name"] = toIface(g.newName())
		}
		l := L
		if !isAl || L < 0 || g.rng.Intn(5) == 0 {
			l = g.lenChoice()
		}
		if n > 0 && g.rng.Intn(4) == 0 {
			s, _ := o.sb.GetSequenceCharById(g.rng.Intn(n))
			s = append([]byte{}, s...)
			if g.rng.Intn(3) == 0 {
				// the stored residues up to letter case
				for j := range s {
					if g.rng.Intn(2) == 0 && (s[j]|0x20) >= 'a' && (s[j]|0x20) <= 'z' {
						s[j] ^= 0x20
					}
				}
			}
			a["seq"] = toIface(b2i(s))
		} else {
			a["seq"] = toIface(g.seq(g.alphaFor(alph), l))
		}
	case "IgnoreIdentical":
		a["pol"] = f64(g.rng.Intn(4))
	case "Append", "Concat":
		if !needAl() {
			return nil
		}
		x := g.otherAlign(h, recv)
		if x == 0 {
			return nil
		}
		a["other"] = f64(x)
	case "Describe":
		a["what"] = []string{"length", "nseq", "taxa"}[g.rng.Intn(3)]
	case "Identical":
		a["other"] = f64(1 + g.rng.Intn(len(h.objs)))
	case "Rename":
		m := []interface{}{}
		usedF := map[string]bool{}
		usedT := map[string]bool{}
		for k := 0; k < 1+g.rng.Intn(3); k++ {
			f := g.existingName(o)
			t := g.newName()
			if g.rng.Intn(12) == 0 {
				t = g.existingName(o) // may create a caller-made duplicate
			}
			if usedF[string(i2b(f))] || usedT[string(i2b(t))] {
				continue
			}
			usedF[string(i2b(f))] = true
			usedT[string(i2b(t))] = true
			m = append(m, map[string]interface{}{"f": toIface(f), "t": toIface(t)})
		}
		a["map"] = m
	case "RenameRegexp":
		nm := g.existingName(o)
		if len(nm) == 0 {
			return nil
		}
		k := g.rng.Intn(len(nm))
		a["lit"] = toIface(nm[k : k+1])
		a["repl"] = toIface(s2i([]string{"", "Q", "qq"}[g.rng.Intn(3)]))
	case "CleanNames", "Sort", "Clear", "AutoAlphabet", "Unalign", "ToUpper", "ToLower", "ReverseComplement", "CloneSeqBag",
		"CharStats", "UniqueCharacters", "DetectAlphabet":
		a["z"] = f64(0)
	case "Clone", "Transpose", "DiffWithFirst", "ReplaceMatchChars", "Compress", "NbVariableSites", "InformativeSites",
		"AvgAllelesPerSite", "CountProfile":
		if !needAl() {
			return nil
		}
		if (op == "AvgAllelesPerSite" || op == "NbVariableSites" || op == "InformativeSites" || op == "CountProfile" || op == "Compress") && (n == 0 || L < 0) {
			return nil
		}
		a["z"] = f64(0)
	case "ProfileOnly":
		if !needAl() || n == 0 || L < 0 {
			return nil
		}
		a["c"] = f64(int(g.pick([]byte("AaCQN-X*TG"))))
	case "LongestORFObj":
		a["rev"] = g.rng.Intn(2) == 0
	case "CountDifferences":
		if !needAl() || n == 0 {
			return nil
		}
		a["z"] = f64(0)
	case "SetAlphabet":
		a["al"] = f64(g.rng.Intn(4))
	case "TrimNames":
		a["size"] = f64([]int{0, 1, 2, 3, 4, 5, 8, 10}[g.rng.Intn(8)])
	case "TrimNamesAuto":
		a["curid"] = f64(1 + g.rng.Intn(3))
	case "AppendSeqIdentifier":
		a["id"] = toIface(s2i([]string{"", "x", "_1"}[g.rng.Intn(3)]))
		a["right"] = g.rng.Intn(2) == 0
		// one time in two, when a row's name is another row's name plus a prefix or a suffix, that affix: the new name of
		// the one is the current name of the other (an index kept up to date row by row meets the collision half-way)
		if g.rng.Intn(2) == 0 {
			names := []string{}
			o.sb.IterateChar(func(name string, _ []uint8) bool {
				names = append(names, name)
				return false
			})
			for _, x := range names {
				for _, y := range names {
					if len(y) > len(x) && len(x) > 0 && strings.HasPrefix(y, x) {
						a["id"], a["right"] = toIface(s2i(y[len(x):])), true
					} else if len(y) > len(x) && len(x) > 0 && strings.HasSuffix(y, x) {
						a["id"], a["right"] = toIface(s2i(y[:len(y)-len(x)])), false
					}
				}
			}
		}
	case "ShuffleSequences":
		a["seed"] = f64(g.rng.Intn(1000))
	case "FilterLength":
		a["min"] = f64([]int{-1, 0, 1, 2, 3, 5}[g.rng.Intn(6)])
		a["max"] = f64([]int{-1, 1, 2, 3, 5, 9}[g.rng.Intn(6)])
	case "Deduplicate":
		a["nasgap"] = g.rng.Intn(2) == 0
	case "Translate":
		if alph != 1 && g.rng.Intn(4) != 0 {
			return nil
		}
		a["frame"] = f64([]int{-1, 0, 1, 2}[g.rng.Intn(4)])
		a["code"] = f64([]int{0, 1, 2, 0, 3}[g.rng.Intn(5)])
	case "TranslateByReference":
		if !needAl() || n == 0 {
			return nil
		}
		a["ref"] = toIface(g.existingName(o))
		a["frame"] = f64([]int{0, 0, 1, 2}[g.rng.Intn(4)])
		a["code"] = f64(g.rng.Intn(3))
	case "CodonAlign":
		// receiver: a protein alignment made of gapped translations of the rows of a nucleotide bag (built by the
		// "NewCodonPair" pseudo step below); here we only look for such a pair among the live objects
		if !needAl() || alph != 0 {
			return nil
		}
		nt := 0
		for i, x := range h.objs {
			if x.al == nil && x.sb.Alphabet() == 1 {
				nt = i + 1
			}
		}
		if nt == 0 {
			return nil
		}
		a["nt"] = f64(nt)
		a["code"] = f64(0)
	case "Sample":
		if !needAl() {
			return nil
		}
		a["nb"] = f64(g.boundary(n))
		a["seed"] = f64(g.rng.Intn(1000))
	case "SetSequenceChar":
		i := g.boundary(n)
		if g.rng.Intn(3) != 0 && n > 0 {
			i = g.rng.Intn(n)
		}
		rl := 0
		if s, ok := o.sb.GetSequenceCharById(i); ok {
			rl = len(s)
		}
		j := g.boundary(rl)
		if g.rng.Intn(3) != 0 && rl > 0 {
			j = g.rng.Intn(rl)
		}
		a["i"], a["j"], a["c"] = f64(i), f64(j), f64(int(g.pick(g.alphaFor(alph))))
	case "ReplaceChar":
		if !needAl() {
			return nil
		}
		a["name"] = toIface(g.existingName(o))
		a["site"] = f64(g.boundary(L))
		if g.rng.Intn(2) == 0 && L > 0 {
			a["site"] = f64(g.rng.Intn(L))
		}
		a["c"] = f64(int(g.pick(g.alphaFor(alph))))
	case "Replace":
		al := g.alphaFor(alph)
		a["old"] = toIface([]int{int(g.pick(al))})
		if g.rng.Intn(5) == 0 {
			a["new"] = toIface([]int{int(g.pick(al)), int(g.pick(al))})
		} else {
			a["new"] = toIface([]int{int(g.pick(al))})
		}
	case "ReverseComplementSequences":
		names := []interface{}{}
		for k := 0; k < g.rng.Intn(4); k++ {
			names = append(names, toIface(g.existingName(o)))
		}
		a["names"] = names
	case "SubAlign", "InverseCoordinates":
		if !needAl() {
			return nil
		}
		s := g.boundary(L)
		l := g.boundary(L)
		if g.rng.Intn(2) == 0 && L > 0 {
			s = g.rng.Intn(L + 1)
			l = g.rng.Intn(L - s + 1)
		}
		if g.rng.Intn(15) == 0 {
			l = 1<<30 + g.rng.Intn(2) // the largest integers (see hugeLen)
		}
		a["start"], a["len"] = f64(s), f64(l)
	case "Extract":
		if !needAl() {
			return nil
		}
		nb := 1 + g.rng.Intn(3)
		blocks := []interface{}{}
		for k := 0; k < nb; k++ {
			s, e := g.boundary(L), g.boundary(L)
			if g.rng.Intn(4) != 0 && L > 0 {
				s = g.rng.Intn(L)
				e = s + 1 + g.rng.Intn(L-s)
			}
			blocks = append(blocks, map[string]interface{}{"s": f64(s), "e": f64(e)})
		}
		a["blocks"] = blocks
		a["minus"] = g.rng.Intn(3) == 0
		a["code"] = f64([]int{-1, -1, 0, 1, 2}[g.rng.Intn(5)])
		ref := []int{}
		if g.rng.Intn(3) == 0 {
			ref = g.existingName(o)
			a["code"] = f64(-1) // (translation guided by the reference is TranslateByReference's matter)
		}
		a["ref"] = toIface(ref)
	case "SelectSites", "InversePositions":
		if !needAl() {
			return nil
		}
		a["sites"] = g.sites(L)
	case "TrimSequences":
		if !needAl() {
			return nil
		}
		a["n"] = f64(g.boundary(L))
		a["fromstart"] = g.rng.Intn(2) == 0
	case "RefCoordinates":
		if !needAl() {
			return nil
		}
		a["name"] = toIface(g.existingName(o))
		s := g.boundary(L)
		l := g.boundary(L)
		if g.rng.Intn(2) == 0 && L > 0 {
			s = g.rng.Intn(L)
			l = 1 + g.rng.Intn(L-s)
		}
		if g.rng.Intn(15) == 0 {
			l = 1<<30 + g.rng.Intn(2) // the largest integers (see hugeLen)
		}
		a["start"], a["len"] = f64(s), f64(l)
	case "RefSites":
		if !needAl() {
			return nil
		}
		a["name"] = toIface(g.existingName(o))
		a["sites"] = g.sites(L)
	case "Split":
		if !needAl() || L < 1 {
			return nil
		}
		pl := L
		if g.rng.Intn(10) == 0 {
			pl = L + 1
		}
		rs := []interface{}{}
		switch g.rng.Intn(4) {
		case 0: // codon-like modulo partition
			m := 2 + g.rng.Intn(2)
			far := -1 // one time in four one stepped interval declares an end past the alignment (must be refused)
			if g.rng.Intn(4) == 0 {
				far = g.rng.Intn(m)
			}
			for p := 0; p < m; p++ {
				e := pl - 1
				if p == far {
					e = pl + g.rng.Intn(2)
				}
				rs = append(rs, map[string]interface{}{"p": f64(p), "s": f64(p), "e": f64(e), "m": f64(m)})
			}
		case 1: // two blocks
			cut := g.rng.Intn(pl)
			rs = append(rs, map[string]interface{}{"p": f64(0), "s": f64(0), "e": f64(cut), "m": f64(1)})
			rs = append(rs, map[string]interface{}{"p": f64(1), "s": f64(cut + 1), "e": f64(pl - 1), "m": f64(1)})
		case 2: // random assignment site by site
			np := 2 + g.rng.Intn(2)
			for s := 0; s < pl; s++ {
				rs = append(rs, map[string]interface{}{"p": f64(g.rng.Intn(np)), "s": f64(s), "e": f64(s), "m": f64(1)})
			}
		default: // possibly invalid
			rs = append(rs, map[string]interface{}{"p": f64(0), "s": f64(g.boundary(pl)), "e": f64(g.boundary(pl)), "m": f64(g.rng.Intn(3))})
			rs = append(rs, map[string]interface{}{"p": f64(1), "s": f64(0), "e": f64(pl - 1), "m": f64(1)})
		}
		if pl >= 6 && g.rng.Intn(4) == 0 {
			// a modulo interval followed by a plain interval of the same partition
			k := 2 + g.rng.Intn(2)
			cut := pl - 2 - g.rng.Intn(2)
			rs = []interface{}{map[string]interface{}{"p": f64(0), "s": f64(0), "e": f64(cut - 1), "m": f64(k)},
				map[string]interface{}{"p": f64(0), "s": f64(cut), "e": f64(pl - 1), "m": f64(1)}}
			for j := 1; j < k; j++ {
				rs = append(rs, map[string]interface{}{"p": f64(j), "s": f64(j), "e": f64(cut - 1), "m": f64(k)})
			}
		}
		a["plen"] = f64(pl)
		a["ranges"] = rs
		a["text"] = g.rng.Intn(2) == 0
	case "RemoveGapSites":
		if !needAl() || n == 0 || L < 0 { // cleaning an empty alignment is outside every property's quantifier
			return nil
		}
		p, q := g.cutoff()
		a["p"], a["q"], a["ends"] = f64(p), f64(q), g.rng.Intn(2) == 0
	case "RemoveCharacterSites":
		if !needAl() || n == 0 || L < 0 { // cleaning an empty alignment is outside every property's quantifier
			return nil
		}
		p, q := g.cutoff()
		chars := []interface{}{}
		for k := 0; k < 1+g.rng.Intn(2); k++ {
			chars = append(chars, f64(int(g.pick(g.alphaFor(alph)))))
		}
		a["chars"] = chars
		a["p"], a["q"], a["ends"] = f64(p), f64(q), g.rng.Intn(2) == 0
		a["icase"], a["igaps"], a["ins"], a["rev"] = g.rng.Intn(2) == 0, g.rng.Intn(2) == 0, g.rng.Intn(2) == 0, g.rng.Intn(3) == 0
	case "RemoveMajorityCharacterSites":
		if !needAl() || n == 0 || L < 0 { // cleaning an empty alignment is outside every property's quantifier
			return nil
		}
		p, q := g.cutoff()
		a["p"], a["q"], a["ends"], a["igaps"], a["ins"] = f64(p), f64(q), g.rng.Intn(2) == 0, g.rng.Intn(2) == 0, g.rng.Intn(2) == 0
	case "RemoveGapSeqs":
		if !needAl() || n == 0 || L < 0 { // cleaning an empty alignment is outside every property's quantifier
			return nil
		}
		p, q := g.cutoff()
		a["p"], a["q"], a["ins"] = f64(p), f64(q), g.rng.Intn(2) == 0
	case "RemoveCharacterSeqs":
		if !needAl() || n == 0 || L < 0 { // cleaning an empty alignment is outside every property's quantifier
			return nil
		}
		p, q := g.cutoff()
		a["c"] = f64(int(g.pick(g.alphaFor(alph))))
		a["p"], a["q"] = f64(p), f64(q)
		a["icase"], a["igaps"], a["ins"] = g.rng.Intn(2) == 0, g.rng.Intn(2) == 0, g.rng.Intn(2) == 0
	case "Mask":
		if !needAl() {
			return nil
		}
		ref := []int{}
		if g.rng.Intn(2) == 0 {
			ref = g.existingName(o)
		}
		a["ref"] = toIface(ref)
		a["start"] = f64(g.boundary(L))
		if g.rng.Intn(2) == 0 && L > 0 {
			a["start"] = f64(g.rng.Intn(L))
		}
		a["len"] = f64([]int{0, 1, 2, 3, L, L + 2}[g.rng.Intn(6)])
		if g.rng.Intn(12) == 0 {
			a["len"] = f64(1<<30 + g.rng.Intn(2)) // the largest integers (see hugeLen)
		}
		a["repl"] = toIface(s2i([]string{"", "AMBIG", "GAP", "MAJ", "Z", "-", "zz", "MAJ", "n", "x"}[g.rng.Intn(10)]))
		a["nogap"], a["noref"] = g.rng.Intn(2) == 0, g.rng.Intn(2) == 0
		if len(ref) == 0 && g.rng.Intn(4) != 0 {
			a["noref"] = false
		}
	case "MaskPositions":
		if !needAl() || L < 1 {
			return nil
		}
		ref := []int{}
		if g.rng.Intn(2) == 0 {
			ref = g.existingName(o)
		}
		a["ref"] = toIface(ref)
		ps := []interface{}{}
		for k := 0; k < 1+g.rng.Intn(3); k++ {
			ps = append(ps, f64(g.rng.Intn(L)))
		}
		if g.rng.Intn(8) == 0 {
			ps = append(ps, f64(g.boundary(L)))
		}
		a["pos"] = ps
		a["repl"] = toIface(s2i([]string{"", "AMBIG", "GAP", "GAP", "MAJ", "Z", "q"}[g.rng.Intn(7)]))
		a["nogap"], a["noref"] = g.rng.Intn(2) == 0, len(ref) > 0 && g.rng.Intn(3) == 0
	case "MaskOccurences", "MaskUnique":
		if !needAl() {
			return nil
		}
		ref := []int{}
		if g.rng.Intn(2) == 0 {
			ref = g.existingName(o)
		}
		a["ref"] = toIface(ref)
		if op == "MaskOccurences" {
			a["max"] = f64(g.rng.Intn(n + 2))
		}
		a["repl"] = toIface(s2i([]string{"", "AMBIG", "GAP", "MAJ", "Z", "zz", "MAJ", "n"}[g.rng.Intn(8)]))
	case "MaxCharStats", "Consensus":
		if !needAl() || L < 0 || n == 0 {
			return nil
		}
		a["igaps"], a["ins"] = g.rng.Intn(2) == 0, g.rng.Intn(2) == 0
	case "CharStatsSite":
		if !needAl() {
			return nil
		}
		a["site"] = f64(g.boundary(L))
	case "SiteConservation":
		if !needAl() || n == 0 {
			return nil
		}
		a["site"] = f64(g.boundary(L))
		if g.rng.Intn(2) == 0 && L > 0 {
			a["site"] = f64(g.rng.Intn(L))
		}
	case "AlphabetInfo":
		a["chars"] = toIface(s2i("AaCQqN-X*U"))
	case "CharStatsSeq":
		a["idx"] = f64(g.boundary(n))
	case "Entropy":
		if !needAl() || n == 0 {
			return nil
		}
		a["site"] = f64(g.boundary(L))
		if g.rng.Intn(2) == 0 && L > 0 {
			a["site"] = f64(g.rng.Intn(L))
		}
		a["rmgaps"] = g.rng.Intn(2) == 0
	case "EntropyAll":
		if !needAl() || n == 0 || L < 1 {
			return nil
		}
		a["rmgaps"] = g.rng.Intn(2) == 0
		a["avg"] = g.rng.Intn(2) == 0
	case "Pssm":
		if !needAl() || n == 0 || L < 0 {
			return nil
		}
		a["log"] = g.rng.Intn(3) == 0
		a["pc"] = []string{"0", "0.5", "1", "0.01"}[g.rng.Intn(4)]
		if a["log"] == true && a["pc"] == "0" {
			a["pc"] = "1"
		}
		a["norm"] = f64([]int{0, 1, 0, 1, 2, 2, 3, 3, 5}[g.rng.Intn(9)])
	case "NumGapsUnique", "NumMutationsUnique":
		if !needAl() || n == 0 {
			return nil
		}
		a["prof"] = f64(0)
		if g.rng.Intn(2) == 0 {
			x := g.otherAlign(h, recv)
			if x != 0 && h.objs[x-1].al.Length() == L && h.objs[x-1].sb.NbSequences() > 0 {
				a["prof"] = f64(x)
			} else {
				a["prof"] = f64(recv)
			}
		}
	case "NumMutRef", "ListMutRef":
		if !needAl() || n == 0 {
			return nil
		}
		a["i"] = f64(g.rng.Intn(n))
		a["refi"] = f64(g.rng.Intn(n))
	case "ShuffleSites":
		if !needAl() || n == 0 || L < 1 {
			return nil
		}
		a["rp"], a["rq"] = f64(g.rng.Intn(5)), f64(4)
		a["gp"], a["gq"] = f64(g.rng.Intn(5)), f64(4)
		a["first"] = g.rng.Intn(2) == 0
		a["seed"] = f64(g.rng.Intn(1000))
	case "Swap":
		if !needAl() || n == 0 || L < 1 {
			return nil
		}
		a["rp"], a["rq"] = f64(g.rng.Intn(7)-1), f64(4)
		a["posp"], a["posq"] = f64(g.rng.Intn(7)-1), f64(4)
		a["seed"] = f64(g.rng.Intn(1000))
	case "SimulateRogue":
		if !needAl() || n == 0 || L < 1 {
			return nil
		}
		a["pp"], a["pq"] = f64(g.rng.Intn(7)-1), f64(4)
		a["lp"], a["lq"] = f64(g.rng.Intn(7)-1), f64(4)
		a["seed"] = f64(g.rng.Intn(1000))
	case "BuildBootstrap":
		if !needAl() || n == 0 || L < 1 {
			return nil
		}
		a["fp"], a["fq"] = f64(g.rng.Intn(7)-1), f64(4)
		a["seed"] = f64(g.rng.Intn(1000))
	case "RandSubAlign":
		if !needAl() || n == 0 || L < 1 {
			return nil
		}
		a["len"] = f64(g.boundary(L))
		if g.rng.Intn(2) == 0 {
			a["len"] = f64(1 + g.rng.Intn(L))
		}
		a["consecutive"] = g.rng.Intn(2) == 0
		a["seed"] = f64(g.rng.Intn(1000))
	case "Mutate":
		if !needAl() || n == 0 || L < 1 {
			return nil
		}
		a["rp"], a["rq"] = f64(g.rng.Intn(7)-1), f64(4)
		a["seed"] = f64(g.rng.Intn(1000))
	case "AddGaps":
		if !needAl() || n == 0 || L < 1 {
			return nil
		}
		a["pp"], a["pq"] = f64(g.rng.Intn(7)-1), f64(4)
		a["lp"], a["lq"] = f64(g.rng.Intn(7)-1), f64(4)
		a["seed"] = f64(g.rng.Intn(1000))
	case "Recombine":
		if !needAl() || n == 0 || L < 1 {
			return nil
		}
		a["pp"], a["pq"] = f64(g.rng.Intn(7)-1), f64(8)
		a["lp"], a["lq"] = f64(g.rng.Intn(7)-1), f64(4)
		a["swap"] = g.rng.Intn(2) == 0
		a["seed"] = f64(g.rng.Intn(1000))
	case "Rarefy":
		if !needAl() || n < 2 {
			return nil
		}
		counts := []interface{}{}
		total := 0
		for k := 0; k < n; k++ {
			if g.rng.Intn(4) != 0 {
				nm, _ := o.sb.GetSequenceNameById(k)
				c := 1 + g.rng.Intn(3)
				total += c
				counts = append(counts, map[string]interface{}{"n": toIface(s2i(nm)), "c": f64(c)})
			}
		}
		if total < 2 {
			return nil
		}
		a["counts"] = counts
		a["nb"] = f64(1 + g.rng.Intn(total-1))
		a["seed"] = f64(g.rng.Intn(1000))
	case "Query":
		if !needAl() || n == 0 || L < 1 {
			return nil
		}
		qs := []string{"fasta", "fastaseq", "phylip", "nexus", "clustal", "stockholm", "paml", "dist", "sw", "swatg", "swatg", "orf", "string", "protdist", "protdist2", "phaseref", "phasentref"}
		a["q"] = qs[g.rng.Intn(len(qs))]
		a["other"] = f64(1 + g.rng.Intn(len(h.objs)))
	default:
		panic(harnessPanic("harness: generator has no arguments for " + op))
	}
	return st
}
