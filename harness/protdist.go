package main

// Family "protdist" (property C17): maximum-likelihood protein distances.  The eigen-system and frequencies the model
// really uses are observed (read-only, through reflection) and logged with the matrix, so that the TLA+ specification
// can evaluate the likelihood the optimiser is supposed to maximise.

import (
	"fmt"
	"math/rand"
	"reflect"
	"strings"
	"time"
	"unsafe"

	"github.com/evolbioinfo/goalign/align"
	pdist "github.com/evolbioinfo/goalign/distance/protein"
	mprot "github.com/evolbioinfo/goalign/models/protein"
)

type protOpts struct {
	Model      string `json:"model"`
	ModelFreqs bool   `json:"modelfreqs"`
	Gamma      bool   `json:"gamma"`
	Alpha      string `json:"alpha"`
	RmGaps     bool   `json:"rmgaps"`
	Wts        []int  `json:"wts"`
}
type protEvent struct {
	T    string  `json:"t"`
	ID   string  `json:"id"`
	Rows [][]int `json:"rows"`
	protOpts
	Kind string     `json:"kind"`
	Msg  string     `json:"msg"`
	D    [][]string `json:"D"`
	Pi   []string   `json:"pi"`
	Eval []string   `json:"eval"`
	U    [][]string `json:"U"`
	V    [][]string `json:"V"`
}
type protRel struct {
	T    string     `json:"t"`
	ID   string     `json:"id"`
	What string     `json:"what"`
	Perm []int      `json:"perm"`
	M1   [][]string `json:"m1"`
	M2   [][]string `json:"m2"`
	Rows [][]int    `json:"rows"`
	protOpts
}

var protCodes = map[string]int{"dayhoff": mprot.MODEL_DAYHOFF, "jtt": mprot.MODEL_JTT, "mtrev": mprot.MODEL_MTREV, "lg": mprot.MODEL_LG,
	"wag": mprot.MODEL_WAG, "hivb": mprot.MODEL_HIVB, "ab": mprot.MODEL_AB}

func innerProtModel(m *pdist.ProtDistModel) *mprot.ProtModel {
	f := reflect.ValueOf(m).Elem().FieldByName("model")
	return (*mprot.ProtModel)(unsafe.Pointer(f.Pointer()))
}

// rows of an alignment the model object is used on before the one of the call (nil: a fresh object)
var protWarmUp [][]int

func protCall(rows [][]int, o protOpts) (ev protEvent) {
	ev = protEvent{T: "protdist", Rows: rows, protOpts: o, D: [][]string{}, Pi: []string{}, Eval: []string{}, U: [][]string{}, V: [][]string{}}
	done := make(chan struct{})
	go func() {
		defer func() {
			if r := recover(); r != nil {
				ev.Kind, ev.Msg = "panic", fmt.Sprint(r)
			}
			close(done)
		}()
		al := align.NewAlign(align.AMINOACIDS)
		for i, r := range rows {
			if err := al.AddSequenceChar(fmt.Sprintf("s%d", i), i2b(r), ""); err != nil {
				panic(harnessPanic("harness: " + err.Error()))
			}
		}
		alpha, _ := parseF(o.Alpha)
		m, err := pdist.NewProtDistModel(protCodes[o.Model], o.ModelFreqs, o.Gamma, alpha, o.RmGaps)
		if err != nil {
			ev.Kind, ev.Msg = "err", err.Error()
			return
		}
		var w []float64
		if len(o.Wts) > 0 {
			w = make([]float64, len(o.Wts))
			for i, q := range o.Wts {
				w[i] = float64(q) / 4
			}
		}
		if protWarmUp != nil && !o.ModelFreqs {
			// the model object is first initialised with, and used on, another alignment (its own frequencies), then
			// initialised again for this one: a library user estimating the frequencies of each alignment in turn
			wal := align.NewAlign(align.AMINOACIDS)
			for i, r := range protWarmUp {
				wal.AddSequenceChar(fmt.Sprintf("s%d", i), i2b(r), "")
			}
			if e := m.InitModel(wal, w); e == nil {
				m.MLDist(wal, w)
			}
		}
		if err = m.InitModel(al, w); err != nil {
			ev.Kind, ev.Msg = "err", err.Error()
			return
		}
		if protWarmUp != nil && o.ModelFreqs {
			// the model object first serves another alignment of the same size (as the command does for the alignments of
			// one file and for bootstrap replicates): nothing of it may be left in the matrix of this one
			wal := align.NewAlign(align.AMINOACIDS)
			for i, r := range protWarmUp {
				wal.AddSequenceChar(fmt.Sprintf("s%d", i), i2b(r), "")
			}
			m.MLDist(wal, w)
		}
		_, _, d, err := m.MLDist(al, w)
		if err != nil {
			ev.Kind, ev.Msg = "err", err.Error()
			return
		}
		n := len(rows)
		for i := 0; i < n; i++ {
			row := make([]string, n)
			for j := 0; j < n; j++ {
				row[j] = fstr(d.At(i, j))
			}
			ev.D = append(ev.D, row)
		}
		pm := innerProtModel(m)
		eval, left, right, _ := pm.Eigens()
		for i := 0; i < 20; i++ {
			ev.Pi = append(ev.Pi, fstr(pm.Pi(i)))
			ev.Eval = append(ev.Eval, fstr(eval[i]))
			ur, vr := make([]string, 20), make([]string, 20)
			for j := 0; j < 20; j++ {
				ur[j], vr[j] = fstr(right.At(i, j)), fstr(left.At(i, j))
			}
			ev.U, ev.V = append(ev.U, ur), append(ev.V, vr)
		}
		ev.Kind = "ok"
	}()
	select {
	case <-done:
	case <-time.After(60 * time.Second):
		ev.Kind, ev.Msg = "hang", "MLDist did not return within 60 s"
	}
	return
}

func protdistFamily(env *Env) error {
	rng := rand.New(rand.NewSource(env.Seed))
	aa := []byte("ARNDCQEGHILKMFPSTWYV")
	names := []string{"dayhoff", "jtt", "mtrev", "lg", "wag", "hivb", "ab"}
	for i := 0; i < env.N; i++ {
		n := 2 + rng.Intn(3)
		L := []int{4, 8, 15, 30, 60}[rng.Intn(5)]
		base := make([]int, L)
		for c := range base {
			base[c] = int(aa[rng.Intn(20)])
		}
		rows := make([][]int, n)
		kind := rng.Intn(5)
		for r := range rows {
			row := append([]int{}, base...)
			rate := []int{0, 1, 2, 4, 7, 10}[rng.Intn(6)]
			for c := range row {
				if rng.Intn(10) < rate {
					row[c] = int(aa[rng.Intn(20)])
				}
				if kind >= 2 && rng.Intn(12) == 0 {
					row[c] = int("-X*-"[rng.Intn(4)])
				}
			}
			if kind == 4 && rng.Intn(2) == 0 { // fragments: long gap runs at one end
				k := rng.Intn(L)
				for c := 0; c < L; c++ {
					if (r%2 == 0 && c < k) || (r%2 == 1 && c >= k) {
						row[c] = '-'
					}
				}
			}
			rows[r] = row
		}
		o := protOpts{Model: names[rng.Intn(7)], ModelFreqs: rng.Intn(2) == 0, Alpha: "1", RmGaps: rng.Intn(3) == 0, Wts: []int{}}
		if rng.Intn(3) == 0 {
			o.Gamma, o.Alpha = true, []string{"0.5", "1", "2", "0.8"}[rng.Intn(4)]
		}
		if rng.Intn(4) == 0 {
			o.Wts = make([]int, L)
			for c := range o.Wts {
				o.Wts[c] = []int{4, 4, 8, 2, 12}[rng.Intn(5)]
			}
		}
		id := fmt.Sprintf("p%d_%d", env.Seed, i)
		protWarmUp = nil
		if i%2 == 1 {
			// every other case: the same rows with their columns in reverse order first (gaps in other columns)
			protWarmUp = make([][]int, n)
			for k := range rows {
				protWarmUp[k] = make([]int, L)
				for c := range rows[k] {
					protWarmUp[k][L-1-c] = rows[k][c]
				}
			}
		}
		ev := protCall(rows, o)
		ev.ID = id
		env.Emit(ev)
		if ev.Kind != "ok" {
			continue
		}
		// the command line offers the model frequencies and no site weights: the matrix it prints is judged with the
		// eigen-system of the same model (read from the library object above)
		if cliSampled(i) && o.ModelFreqs && len(o.Wts) == 0 {
			name := o.Model
			if name == "dayhoff" {
				name = "dayoff" // the spelling the command accepts
			}
			argv := []string{"compute", "distance", "--alphabet", "aa", "-m", name}
			if o.RmGaps {
				argv = append(argv, "-r")
			}
			if o.Gamma {
				argv = append(argv, "--alpha", o.Alpha)
			}
			in := fastaRows(rows)
			twoAl := protWarmUp != nil
			if twoAl { // the warm-up alignment first, in one Phylip file
				argv = append(argv, "-p")
				in = append(phylipRows(protWarmUp), phylipRows(rows)...)
			}
			out, errs, code := runGoalign(in, argv...)
			if twoAl && code == 0 {
				lines := strings.SplitAfter(out, "\n")
				if len(lines) > n+1 {
					out = strings.Join(lines[n+1:], "")
				}
			}
			ce := ev
			ce.ID = id + ":cli"
			if code != 0 {
				ce.Kind, ce.Msg, ce.D = cliKind(errs), errs, [][]string{}
				if len(ce.Msg) > 500 {
					ce.Msg = ce.Msg[:500]
				}
				env.Emit(ce)
			} else if m, good := parseDistText(out, n); good {
				ce.D, ce.Msg = m, "goalign "+fmt.Sprint(argv)
				env.Emit(ce)
			}
		}
		// reordering the sequences permutes the matrix; reordering the columns leaves it unchanged
		p := rng.Perm(n)
		rows2 := make([][]int, n)
		perm := make([]int, n)
		for k := range p {
			rows2[k], perm[k] = rows[p[k]], p[k]+1
		}
		e2 := protCall(rows2, o)
		e2.ID = id + ":rowperm"
		env.Emit(e2)
		if e2.Kind == "ok" {
			env.Emit(protRel{T: "rel", ID: id, What: "rowperm", Perm: perm, M1: ev.D, M2: e2.D, Rows: rows, protOpts: o})
		}
		cp := rng.Perm(L)
		rows3 := make([][]int, n)
		for k := range rows {
			rows3[k] = make([]int, L)
			for c := range cp {
				rows3[k][c] = rows[k][cp[c]]
			}
		}
		o3 := o
		if len(o.Wts) > 0 {
			o3.Wts = make([]int, L)
			for c := range cp {
				o3.Wts[c] = o.Wts[cp[c]]
			}
		}
		e3 := protCall(rows3, o3)
		e3.ID = id + ":colperm"
		env.Emit(e3)
		if e3.Kind == "ok" {
			idp := make([]int, n)
			for k := range idp {
				idp[k] = k + 1
			}
			env.Emit(protRel{T: "rel", ID: id, What: "colperm", Perm: idp, M1: ev.D, M2: e3.D, Rows: rows, protOpts: o})
		}
	}
	return nil
}

func init() { families["protdist"] = protdistFamily }
