package main

// Recording of the observation hooks (build tag verif) for the goroutine protocols.  Each goroutine appends to its own
// buffer (found through a map keyed by the goroutine id, which is only locked on the first event of a goroutine), so the
// recorder adds no ordering between goroutines beyond goroutine creation.

import (
	"bytes"
	"runtime"
	"strconv"
	"sync"
	"sync/atomic"

	"github.com/evolbioinfo/goalign/verifhook"
)

type hookEv struct {
	Pt string `json:"pt"`
	A  int    `json:"a"`
	B  int    `json:"b"`
}
type gLog struct {
	Role string   `json:"role"`
	W    int      `json:"w"`
	Ev   []hookEv `json:"ev"`
}
type recorder struct {
	mu    sync.Mutex
	logs  atomic.Value // map[uint64]*gLog, copied on write
	order []*gLog
}

func goid() uint64 {
	var buf [64]byte
	b := buf[:runtime.Stack(buf[:], false)]
	b = bytes.TrimPrefix(b, []byte("goroutine "))
	i := bytes.IndexByte(b, ' ')
	n, _ := strconv.ParseUint(string(b[:i]), 10, 64)
	return n
}

func newRecorder() *recorder {
	r := &recorder{}
	r.logs.Store(map[uint64]*gLog{})
	return r
}

// goroutines of earlier recorded calls that may still be running (a feeder that goes on sending after the workers have
// stopped on a failure, ...): their events belong to no later run.  Goroutine ids are never reused.
var staleIDs atomic.Value // map[uint64]bool, replaced (never modified) when a recording ends
var staleHistory [][]uint64

func (r *recorder) hook(pt string, a, b int) {
	id := goid()
	if st, ok := staleIDs.Load().(map[uint64]bool); ok && st[id] {
		return
	}
	m := r.logs.Load().(map[uint64]*gLog)
	l, ok := m[id]
	if !ok {
		r.mu.Lock()
		m = r.logs.Load().(map[uint64]*gLog)
		m2 := make(map[uint64]*gLog, len(m)+1)
		for k, v := range m {
			m2[k] = v
		}
		l = &gLog{Ev: []hookEv{}}
		m2[id] = l
		r.order = append(r.order, l)
		r.logs.Store(m2)
		r.mu.Unlock()
	}
	l.Ev = append(l.Ev, hookEv{pt, a, b})
}

// install sets the hook; the returned function removes it and returns the logs in order of first appearance.
func (r *recorder) install() func() []*gLog {
	verifhook.Hook = r.hook
	return func() []*gLog {
		// (the hook stays installed: goroutines of the finished call may still be running; a new recorder replaces it)
		r.mu.Lock()
		defer r.mu.Unlock()
		ids := []uint64{}
		for id := range r.logs.Load().(map[uint64]*gLog) {
			ids = append(ids, id)
		}
		staleHistory = append(staleHistory, ids)
		if len(staleHistory) > 8 {
			staleHistory = staleHistory[1:]
		}
		st := map[uint64]bool{}
		for _, l := range staleHistory {
			for _, id := range l {
				st[id] = true
			}
		}
		staleIDs.Store(st)
		return r.order
	}
}
